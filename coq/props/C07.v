(* C07 -- Inbound bytes decode deterministically, chunk-independently, and never crash.
   Property theorems only; proofs in lib/RecvProofs.v, lib/BananaRecvProofs.v, lib/TokenProofs.v. *)
From Coq Require Import ZArith List Bool.
Import ListNotations.
Require Import Verif.lib.PyLite Verif.gen.BananaGen Verif.gen.RecvGen Verif.lib.Token Verif.lib.TokenProofs Verif.lib.Recv Verif.lib.RecvProofs
               Verif.lib.BananaRecv Verif.lib.BananaRecvProofs Verif.lib.BananaRecvCount Verif.lib.RecvTie Verif.lib.BananaRecvSilent.
Local Open Scope Z_scope.

(* "the receiver's observable behaviour is a function of the byte sequence alone - identical for every
   way of splitting it into packets": for EVERY semantics of the layers above the tokenizer
   (any begin/finish/step handlers), any two chunkings of the same bytes give the same events and
   the same final state. *)
Theorem C07_chunk_independent_generic :
  forall (ctx ev : Type) (begin_body : ctx -> Z -> Z -> bres ctx ev) (finish_body : ctx -> Z -> Z -> list Z -> hres2 ctx ev)
         (step_nobody : ctx -> Z -> Z -> hres2 ctx ev) (e1 e2 : list ev) (e3 : list Z -> list ev) (c : ctx) (cs cs' : list (list Z)),
    concat cs = concat cs' ->
    feed_all ctx ev begin_body finish_body step_nobody e1 e2 e3 (init c) cs =
    feed_all ctx ev begin_body finish_body step_nobody e1 e2 e3 (init c) cs'.
Proof. exact chunk_independent. Qed.

(* ... in particular for the transcription of banana.py's discardCount / inOpen / unslicer-stack logic *)
Theorem C07_chunk_independent : forall c cs cs', concat cs = concat cs' -> bfeed_all (init c) cs = bfeed_all (init c) cs'.
Proof. exact banana_chunk_independent. Qed.

(* incremental decoding agrees with the one-pass decoding of the whole byte string *)
Theorem C07_incremental_is_whole : forall c cs, bfeed_all (init c) cs = brun c (concat cs).
Proof. exact banana_feed_is_run. Qed.

(* "... close the connection and ignore all further input" *)
Theorem C07_abandon_is_final : forall s cs, r_dead s = true -> bfeed_all s cs = (s, []).
Proof. exact banana_abandon_is_final. Qed.

(* "... agrees with the Banana token specification": every well-formed token stream the sender can
   emit (translated sendToken / int2b128) is scanned back to exactly the same tokens *)
Theorem C07_token_spec : forall ts bs, forallb wf_token ts = true -> encode_stream ts = Ok bs -> decode bs = (ts, EndClean).
Proof. exact stream_roundtrip. Qed.

(* a header of 65 bytes without a type byte ends the connection, whatever follows *)
Theorem C07_header_cap : forall c b m, List.length b = 65%nat -> Forall (fun x => x < 128) b ->
  tok_step bctx event begin_body finish_body step_nobody (fatal 0) (fatal 0) (fun _ => [ELose]) c (b ++ m) = TDead bctx event (fatal 0).
Proof. exact (header_cap_any bctx event begin_body finish_body step_nobody (fatal 0) (fatal 0) (fun _ => [ELose])). Qed.

(* a violation never pops the root unslicer, and counts exactly the frames it pops for discarding *)
Theorem C07_violation_keeps_root : forall st, root_at_bottom st -> forall d ic,
  exists st' d' es, hv_loop st d ic = Some (st', d', es) /\ root_at_bottom st' /\ d <= d' /\
    d' - d = Z.of_nat (List.length st - List.length st') - (if ic then (if (List.length st' <? List.length st)%nat then 1 else 0) else 0).
Proof. exact hv_loop_root. Qed.

(* "A schema violation discards exactly the offending top-level object and decoding of the following
   objects is unaffected": the receiver's depth bookkeeping (discardCount + live unslicers + pending
   index phase) follows the OPEN/CLOSE nesting of the token stream exactly through every violation,
   absorbed or propagated, at any depth ... *)
Theorem C07_depth_exact : forall ts c c' es, wfc c -> apply_all c ts = Ok' c' es ->
  wfc c' /\ rootmode c' = rootmode c /\ vocab c' = vocab c /\ open_depth c' = open_depth c + delta_sum ts.
Proof. exact apply_all_depth. Qed.

(* ... hence after ANY balanced token sequence that did not end the connection the receiver is back at
   top level: nothing is being discarded, only the root unslicer is on the stack, no index phase is open *)
Theorem C07_resync : forall c ts c' es, at_top c -> wfc c -> delta_sum ts = 0 -> apply_all c ts = Ok' c' es -> at_top c'.
Proof. exact resync. Qed.

(* the token-level statements above are about the byte-level receiver: a complete token in the buffer is
   processed by exactly tok_apply *)
Theorem C07_bytes_to_tokens : forall c b ds ty rest,
  scan_header 64 [] b = HOk ds ty rest -> ty <> tok_ERROR ->
  (has_body ty = true -> blen ty (le128 ds) <= lenZ rest) ->
  let n := if has_body ty then blen ty (le128 ds) else 0 in
  tok_step bctx event begin_body finish_body step_nobody (fatal 0) (fatal 0) (fun _ => [ELose]) c b =
  match tok_apply c ty (le128 ds) (firstn (Z.to_nat n) rest) with
  | Ok' c' es => TCont bctx event c' es (skipn (Z.to_nat n) rest)
  | Fatal' es => TDead bctx event es
  end.
Proof. exact tok_step_complete. Qed.

(* a PING anywhere is answered by exactly one PONG carrying the same number and changes nothing else *)
Theorem C07_ping_transparent : forall c n, exists c', tok_apply c tok_PING n [] = Ok' c' [EPong n] \/
                                                    (exists es, tok_apply c tok_PING n [] = Fatal' es).
Proof. exact ping_transparent. Qed.
(* ... in fact it never fails and leaves the receiver's state untouched *)
Theorem C07_ping_exact : forall c n, tok_apply c tok_PING n [] = Ok' c [EPong n].
Proof. exact banana_ping_exact. Qed.

(* "A schema violation discards exactly the offending top-level object": while the rest of a rejected object is being discarded
   (discardCount > 0) every token up to and including the CLOSE that brings discardCount back to 0 changes nothing but discardCount:
   no unslicer is touched, NOTHING IS DELIVERED, NO FURTHER VIOLATION IS REPORTED; only PINGs are answered ... *)
Theorem C07_discarding_is_silent_policy : forall ts c c' es, inOpen c = false -> keeps_discarding (discard c) ts -> apply_all c ts = Ok' c' es ->
  stack c' = stack c /\ inOpen c' = false /\ discard c' = discard c + delta_sum ts /\ vocab c' = vocab c /\ rootmode c' = rootmode c /\ pongs_only es.
Proof. exact banana_discard_silent. Qed.
(* ... so once the root has absorbed the violation (only the root is left), the receiver is at top level again exactly at the end
   of that object, having emitted nothing but PONGs *)
Theorem C07_rejected_object_ends_at_top_policy : forall ts c c' es,
  stack c = [root_frame] -> inOpen c = false -> keeps_discarding (discard c) ts -> discard c + delta_sum ts = 0 ->
  apply_all c ts = Ok' c' es -> at_top c' /\ pongs_only es /\ vocab c' = vocab c.
Proof. exact banana_rejected_object_ends_at_top. Qed.

(* non-vacuity: in the stream of C07_resync_example the child violation happens at the first INT; the tokens INT 6, CLOSE 0 that follow
   are discarded silently *)
Example C07_discarding_example :
  exists c1 es1 c2, apply_all (ctx0 0 []) [(tok_OPEN, 0, []); (tok_STRING, 2, [67; 48]); (tok_INT, 5, [])] = Ok' c1 es1 /\ In EViolation es1 /\
    stack c1 = [root_frame] /\ inOpen c1 = false /\ keeps_discarding (discard c1) [(tok_INT, 6, []); (tok_CLOSE, 0, [])] /\
    apply_all c1 [(tok_INT, 6, []); (tok_CLOSE, 0, [])] = Ok' c2 [] /\ at_top c2.
Proof.
  eexists. eexists. eexists. split; [vm_compute; reflexivity|]. split; [cbn; auto 10|]. split; [reflexivity|]. split; [reflexivity|].
  split; [cbn; repeat split; reflexivity|]. split; [vm_compute; reflexivity|repeat split].
Qed.

(* non-vacuity: a top-level context exists, is well formed, and a balanced object with a violation inside resynchronises *)
Example C07_resync_example :
  let c := ctx0 0 [] in
  at_top c /\ wfc c /\
  exists c' es, apply_all c [(tok_OPEN, 0, []); (tok_STRING, 2, [67; 48]); (tok_INT, 5, []); (tok_INT, 6, []); (tok_CLOSE, 0, [])]
                = Ok' c' es /\ In EViolation es /\ at_top c'.
Proof.
  split; [repeat split|]. split; [apply ctx0_wf|].
  eexists. eexists. split; [vm_compute; reflexivity|]. split; [cbn; auto 10|repeat split].
Qed.

(* Object numbering: every OPEN token consumes one number -- built, rejected by a taster, or dropped while an enclosing object
   is being discarded.  `reference` sequences quote the SENDER's numbers (it numbers every OPEN it emits: sendOpen shape fact in
   gen/BananaGen.v), so a violation must not shift the numbering of what follows: "decoding of the following objects is
   unaffected" includes their back-references. *)
Theorem C07_counter_counts_every_open : forall ts c c' es,
  apply_all c ts = Ok' c' es -> objctr c' = objctr c + count_opens ts.
Proof. exact apply_all_objctr. Qed.

Theorem C07_open_number_is_its_ordinal : forall pre hdr c c1 es1 c2 es2,
  apply_all c pre = Ok' c1 es1 -> tok_apply c1 tok_OPEN hdr [] = Ok' c2 es2 ->
  inbObj c2 = objctr c + count_opens pre.
Proof. exact open_number_counts_every_open. Qed.


(* non-vacuity: the OPEN that follows a discarded object containing two nested OPENs is object number 3 *)
Example C07_numbering_example :
  exists c1 es1 c2 es2,
    apply_all (ctx0 0 []) [(tok_OPEN, 0, []); (tok_STRING, 1, [90]); (tok_OPEN, 1, []); (tok_STRING, 1, [76]); (tok_OPEN, 2, []);
                            (tok_STRING, 1, [76]); (tok_CLOSE, 2, []); (tok_CLOSE, 1, []); (tok_CLOSE, 0, [])] = Ok' c1 es1 /\
    In EViolation es1 /\
    tok_apply c1 tok_OPEN 3 [] = Ok' c2 es2 /\ inbObj c2 = 3.
Proof.
  eexists. eexists. eexists. eexists.
  split; [vm_compute; reflexivity|]. split; [cbn; auto 10|]. split; [vm_compute; reflexivity|reflexivity].
Qed.

(* ======================================================================================================================
   ROUND 5.  The receive logic above the tokenizer -- handleData's discardCount / inOpen / rejected bookkeeping and taste,
   handleOpen, handleToken, handleClose, handleViolation, dataReceived's catch-all -- written ONCE over an abstract unslicer
   semantics (lib/Unsl.v: every IUnslicer callback returns ok | Violation | BananaError | any other exception), and the
   property's sentences proved for EVERY such semantics.  Instances compared with the real code on every run: the policy
   unslicers (lib/PolUnsl.v) and the STANDARD unslicers of slicers/*.py under real constraint objects (lib/StdUnsl.v). *)
Require Import Verif.gen.RecvGen Verif.lib.Unsl Verif.lib.UnslProofs Verif.lib.UnslFollow Verif.lib.UnslAbandon Verif.lib.StdUnsl Verif.lib.StdUnslProofs Verif.lib.RecvTie.

Section AnyUnslicers.
Variable fr : Type.
Variable u_check : fr -> Z -> Z -> oc unit.
Variable u_opener_check : list fr -> Z -> Z -> list (list Z) -> oc unit.
Variable u_do_open : list fr -> list (list Z) -> oc (option fr).
Variable u_start : fr -> Z -> oc fr.
Variable u_child : fr -> uval -> list uevent * oc fr.
Variable u_close : fr -> oc uval.
Variable u_finish : fr -> oc unit.
Variable u_report : fr -> option (list uevent).
Notation FEED := (ufeed_all fr u_check u_opener_check u_do_open u_start u_child u_close u_finish u_report).
Notation APPLY := (uapply_all fr u_check u_opener_check u_do_open u_start u_child u_close u_finish u_report).

(* "identical for every way of splitting it into packets", whatever the unslicers do *)
Theorem C07_any_unslicers_chunk_independent : forall c cs cs', concat cs = concat cs' -> FEED (init c) cs = FEED (init c) cs'.
Proof. exact (unsl_chunk_independent fr u_check u_opener_check u_do_open u_start u_child u_close u_finish u_report). Qed.

(* "no exception ever escapes to the transport": the except clause of dataReceived (translated: gen/RecvGen.dr_caught) catches
   every exception kind, so whatever a callback raises -- BananaError, KeyError, TypeError, AssertionError, anything -- from
   any state and for any chunks the run ends in the handler (ERROR sent, connection closed, failure reported), never in an
   escape *)
Theorem C07_no_exception_escapes :
  (forall f v, no_escape (fst (u_child f v))) -> (forall f es, u_report f = Some es -> no_escape es) ->
  forall cs s, no_escape (snd (FEED s cs)).
Proof. intros H1 H2 cs s. exact (unsl_no_escape fr u_check u_opener_check u_do_open u_start u_child u_close u_finish u_report H1 H2 cs s). Qed.

Theorem C07_handler_catches_everything : forall k, dr_caught k = true.
Proof. exact dr_catches_everything. Qed.

(* "a protocol violation makes the receiver send an error, close the connection ...": every exception kind.
   (Codes 97 / 98 are not exception kinds: they are the reserved answers by which an unslicer semantics ABSTAINS -- lib/Unsl.v --
   and they end the model's run with the marker UUnmodelled alone: no ERROR, no loseConnection is claimed.) *)
Theorem C07_exception_sends_error_and_closes : forall k, abstain_code k = false -> In UErrorSent (ufatal k) /\ In ULose (ufatal k).
Proof. exact unsl_fatal_sends_error_and_closes. Qed.
Theorem C07_abstention_is_not_abandonment : forall k, abstain_code k = true -> ufatal k = [UUnmodelled].
Proof. exact ufatal_abstains. Qed.

(* ABANDONED MEANS ABANDONED (review-2 repair): a result is read three ways -- ok, abandoned, or the model abstains (uview) -- and for
   EVERY unslicer semantics a fatal result in which the model did not abstain has sent the ERROR token and closed the connection *)
Theorem C07_abandoned_is_real : forall c ts,
  match uview fr (APPLY c ts) with U3Abandoned _ es => In UErrorSent es /\ In ULose es | _ => True end.
Proof. exact (unsl_abandoned_is_real fr u_check u_opener_check u_do_open u_start u_child u_close u_finish u_report). Qed.

(* THE CLOSE COUNT IS CHECKED (review-2 repair; kills the mutant of opt_is that ignores the count): a CLOSE whose number is not the
   number of the OPEN that created the innermost unslicer (the root has none) is "lost sync": the connection is abandoned and
   nothing is closed ... *)
Theorem C07_close_count_checked : forall c n top rest, u_stack fr c = top :: rest -> uf_open fr top <> Some n ->
  uhandle_close fr u_child u_close u_finish u_report c n = UFatal fr (ufatal 0).
Proof. exact (unsl_close_count_checked fr u_child u_close u_finish u_report). Qed.
(* ... as a statement about the CLOSE token (nothing being discarded, no index phase pending) ... *)
Theorem C07_close_token_count_checked : forall c n top rest,
  u_discard fr c = 0 -> u_inOpen fr c = false -> u_stack fr c = top :: rest -> uf_open fr top <> Some n ->
  utok_apply fr u_check u_opener_check u_do_open u_start u_child u_close u_finish u_report c tok_CLOSE n [] = UFatal fr (ufatal 0).
Proof.
  intros c n top rest. apply (unsl_close_token_count_checked fr u_check u_opener_check u_do_open u_start u_child u_close u_finish u_report).
  rewrite tie_exempt. reflexivity.
Qed.
(* ... and the matching CLOSE does reach the unslicer's receiveClose *)
Theorem C07_close_matching : forall c n top rest, u_stack fr c = top :: rest -> uf_open fr top = Some n ->
  uhandle_close fr u_child u_close u_finish u_report c n =
  match u_close (uf_st fr top) with
  | OViol => uhandle_violation fr u_finish u_report c false true
  | OBanana => UFatal fr (ufatal 0)
  | OExc k => UFatal fr (ufatal k)
  | OOk obj => match u_finish (uf_st fr top) with
               | OViol => uhandle_violation fr u_finish u_report c false true
               | OBanana => UFatal fr (ufatal 0)
               | OExc k => UFatal fr (ufatal k)
               | OOk _ => uhandle_token fr u_child u_finish u_report (uw_stack fr c (u_discard fr c) rest) obj
               end
  end.
Proof. exact (unsl_close_matching fr u_child u_close u_finish u_report). Qed.

(* (3') once the root has absorbed a violation inside an object (only the root is left on the stack), nothing more happens until the
   end of that object, where the receiver is at top level again with the stack untouched *)
Theorem C07_rejected_object_ends_at_top : forall ts c c' es,
  List.length (u_stack fr c) = 1%nat -> u_inOpen fr c = false -> stays_discarding (u_discard fr c) ts -> u_discard fr c + udelta_sum ts = 0 ->
  APPLY c ts = UOk fr c' es ->
  uat_top fr c' /\ u_stack fr c' = u_stack fr c /\ u_vocab fr c' = u_vocab fr c /\ only_pongs es.
Proof. exact (unsl_rejected_object_ends_at_top fr u_check u_opener_check u_do_open u_start u_child u_close u_finish u_report). Qed.

(* (4) "decoding of the following objects is unaffected": what the receiver does with ANY following tokens depends only on
   discardCount, the index-phase flag, the unslicer stack, the object counter and the vocabulary (the scratch fields of a finished
   index phase are never read before they are overwritten): two receivers that agree on those give the same events, token for token *)
Theorem C07_following_objects_unaffected : forall ts c1 c2, same_but_scratch fr c1 c2 -> hr_rel fr (APPLY c1 ts) (APPLY c2 ts).
Proof. exact (unsl_following_unaffected fr u_check u_opener_check u_do_open u_start u_child u_close u_finish u_report). Qed.

(* a PING anywhere is answered by exactly one PONG with the same number and changes nothing (PING is in the translated always-legal tuple) *)
Theorem C07_any_unslicers_ping_exact : forall c n, In tok_PING hd_exempt ->
  utok_apply fr u_check u_opener_check u_do_open u_start u_child u_close u_finish u_report c tok_PING n [] = UOk fr c [UPong n].
Proof. exact (unsl_ping_exact fr u_check u_opener_check u_do_open u_start u_child u_close u_finish u_report). Qed.

(* the unslicer-side facts the next theorems need: an absorbing unslicer (the root) keeps absorbing after a child, and an
   unslicer that raises a Violation from receiveClose / finish hands it to its parent *)
Hypothesis H_child : forall f v es f', u_child f v = (es, OOk f') -> absorbs fr u_report f -> absorbs fr u_report f'.
Hypothesis H_close : forall f, (u_close f = OViol \/ (exists v, u_close f = OOk v /\ u_finish f = OViol)) -> u_report f = None.

(* "A schema violation discards exactly the offending top-level object and decoding of the following objects is unaffected":
   (1) discardCount + live unslicers + pending index phase follows the OPEN/CLOSE nesting of the stream exactly, through every
   violation; the object counter advances by one per OPEN token, built, rejected or discarded *)
Theorem C07_any_unslicers_depth_exact : forall ts c c' es, uwfc fr u_report c -> APPLY c ts = UOk fr c' es ->
  moved fr u_report c c' (udelta_sum ts) (ucount_opens ts).
Proof. exact (uapply_all_moved fr u_check u_opener_check u_do_open u_start u_child u_close u_finish u_report H_child H_close). Qed.

(* (2) after any balanced token sequence the receiver is back at top level with the same vocabulary *)
Theorem C07_any_unslicers_resync : forall c ts c' es, uat_top fr c -> uwfc fr u_report c -> udelta_sum ts = 0 -> APPLY c ts = UOk fr c' es ->
  uat_top fr c' /\ uwfc fr u_report c' /\ u_vocab fr c' = u_vocab fr c /\ u_objctr fr c' = u_objctr fr c + ucount_opens ts.
Proof. exact (unsl_resync fr u_check u_opener_check u_do_open u_start u_child u_close u_finish u_report H_child H_close). Qed.

(* (3) while the rest of a rejected object is being discarded nothing reaches any unslicer: the stack does not change, and the
   only events are the PONGs answering PINGs -- until the CLOSE that balances the discard *)
Theorem C07_discarding_is_silent : forall ts c c' es, u_inOpen fr c = false -> stays_discarding (u_discard fr c) ts ->
  APPLY c ts = UOk fr c' es ->
  u_stack fr c' = u_stack fr c /\ u_inOpen fr c' = false /\ u_discard fr c' = u_discard fr c + udelta_sum ts /\
  u_vocab fr c' = u_vocab fr c /\ only_pongs es.
Proof. exact (unsl_discard_silent fr u_check u_opener_check u_do_open u_start u_child u_close u_finish u_report). Qed.

(* handleViolation never pops the root and counts exactly the frames it pops *)
Theorem C07_any_unslicers_violation_keeps_root : forall st, ubottom fr u_report st -> forall d ic st' d' es,
  uhv_loop fr u_finish u_report st d ic = HvOk fr st' d' es ->
  ubottom fr u_report st' /\ d <= d' /\
  d' - d = Z.of_nat (List.length st - List.length st') - (if ic then (if (List.length st' <? List.length st)%nat then 1 else 0) else 0).
Proof. exact (uhv_loop_bottom fr u_finish u_report). Qed.
End AnyUnslicers.


(* ... for the STANDARD unslicers (RootUnslicer, list, tuple, dict, set, immutable-set, unicode, boolean, none, and the token check of
   the reference unslicer) under any constraint tree the hypotheses hold, so the three sentences are theorems about them.
   REVIEW-2 REPAIR: the standard-unslicer model ABSTAINS where it does not model the real unslicers (decimal / copyable / set-vocab /
   add-vocab unslicers, what a reference resolves to, non-ASCII text, float / bool / frozenset set members and dict keys).  Until
   this repair an abstention was an ordinary UFatal, so these theorems "held" on a legitimate top-level set-vocab sequence through
   their fatal branch although the real receiver goes on (no root event, then VOCAB tokens decode with the new table: the
   vocabulary is NOT unchanged there).  Now the result is read three ways and the theorems say explicitly that they claim nothing
   about a run in which the model abstains; in the fatal branch they claim the abandonment. *)
Theorem C07_standard_unslicers_resync : forall mi lg c ts, uat_top sfr c -> swfc c -> udelta_sum ts = 0 ->
  match uview sfr (sapply_all mi lg c ts) with
  | U3Abstains _ => True                                          (* not abstains -> ... : nothing is claimed *)
  | U3Abandoned _ es => In UErrorSent es /\ In ULose es            (* the connection is abandoned *)
  | U3Ok _ c' es => uat_top sfr c' /\ swfc c' /\ u_vocab sfr c' = u_vocab sfr c /\ u_objctr sfr c' = u_objctr sfr c + ucount_opens ts
  end.
Proof. exact std_resync3. Qed.

(* a legitimate top-level set-vocab sequence is such a run: the model abstains, it does not claim an abandonment *)
Example C07_vocab_sequence_abstains :
  uview sfr (sapply_all 13 30 (sctx0 None) [(tok_OPEN, 0, []); (tok_STRING, 9, [115; 101; 116; 45; 118; 111; 99; 97; 98]); (tok_CLOSE, 0, [])])
  = U3Abstains sfr.
Proof. exact std_vocab_sequence_abstains. Qed.

Theorem C07_standard_unslicers_no_escape : forall mi lg cs s, no_escape (snd (sfeed_all mi lg s cs)).
Proof. exact std_no_escape. Qed.

Theorem C07_standard_unslicers_chunk_independent : forall mi lg c cs cs', concat cs = concat cs' ->
  sfeed_all mi lg (init c) cs = sfeed_all mi lg (init c) cs'.
Proof. intros mi lg. exact (unsl_chunk_independent sfr std_check (std_opener mi lg) std_do_open std_start std_child std_close std_finish std_report). Qed.


(* non-vacuity: under ListOf(ByteString(maxLength=2)) a list whose second item is too long is rejected when the header of that
   item arrives, the rest of the list is discarded, the root reports ONE violation, and the receiver is back at top level *)
Definition ex_bytes2 : sctr := SPrim {| t_taster := [(130, Some 2); (135, None)]; t_strict := false; t_opens := Some [] |}.
Definition ex_listof : sctr := SList {| t_taster := [(136, None)]; t_strict := false; t_opens := Some [1] |} ex_bytes2 None.
Example C07_standard_resync_example :
  let c := sctx0 (Some ex_listof) in
  uat_top sfr c /\ swfc c /\
  exists c' es, sapply_all 13 0 c [(tok_OPEN, 0, []); (tok_STRING, 4, [108; 105; 115; 116]); (tok_STRING, 1, [97]); (tok_STRING, 3, [97; 98; 99]);
                                   (tok_INT, 5, []); (tok_CLOSE, 0, [])] = UOk sfr c' es /\ es = [UViolation] /\ uat_top sfr c'.
Proof.
  split; [repeat split|]. split; [apply sctx0_wf|].
  eexists. eexists. split; [vm_compute; reflexivity|]. split; [reflexivity|repeat split].
Qed.

(* The translated fragments of banana.py agree with the tokenizer model for all arguments (lib/RecvTie.v) *)
Theorem C07_tie_body_clauses : forall ty hdr, ty <> tok_ERROR -> hd_body_len ty hdr = if has_body ty then Some (blen ty hdr) else None.
Proof. exact tie_body_len. Qed.
Theorem C07_tie_exempt : forall ty, existsb (Z.eqb ty) hd_exempt =
  ((ty =? tok_PING) || (ty =? tok_PONG) || (ty =? tok_ABORT) || (ty =? tok_CLOSE) || (ty =? tok_ERROR)).
Proof. exact tie_exempt. Qed.
Theorem C07_tie_header_window : hd_window = 65 /\ hd_max_header = 64 /\ hd_hibit = 128.
Proof. exact tie_header_window. Qed.
Theorem C07_tie_error_oversize : forall hdr, hd_error_oversize hdr = (SIZE_LIMIT <? hdr).
Proof. exact tie_error_oversize. Qed.
Theorem C07_send_error_fits : forall n, 0 <= n -> se_len n <= SIZE_LIMIT /\ (n <= SIZE_LIMIT -> se_len n = n).
Proof. exact tie_send_error_len. Qed.
Theorem C07_handler_order : dr_handler_ops = [HSendError; HSetAbandoned; HReport] /\ se_ops = [SeHeader; SeType; SeBody; SeLose].
Proof. split; [exact tie_handler_ops|exact tie_send_error_order]. Qed.

(* one Print Assumptions per group: the axioms of a tuple are the union of the axioms of its components *)
Definition C07_group_1 := (@C07_chunk_independent_generic, @C07_chunk_independent, @C07_incremental_is_whole, @C07_abandon_is_final, @C07_token_spec, @C07_header_cap, @C07_violation_keeps_root, @C07_depth_exact, @C07_resync, @C07_bytes_to_tokens, @C07_ping_transparent, @C07_ping_exact).
Print Assumptions C07_group_1.
(* one Print Assumptions per group: the axioms of a tuple are the union of the axioms of its components *)
Definition C07_group_2 := (@C07_discarding_is_silent_policy, @C07_rejected_object_ends_at_top_policy, @C07_counter_counts_every_open, @C07_open_number_is_its_ordinal, @C07_any_unslicers_chunk_independent, @C07_no_exception_escapes, @C07_handler_catches_everything, @C07_exception_sends_error_and_closes, @C07_any_unslicers_depth_exact, @C07_any_unslicers_resync, @C07_discarding_is_silent, @C07_any_unslicers_violation_keeps_root).
Print Assumptions C07_group_2.
(* one Print Assumptions per group: the axioms of a tuple are the union of the axioms of its components *)
Definition C07_group_3 := (@C07_rejected_object_ends_at_top, @C07_following_objects_unaffected, @C07_any_unslicers_ping_exact, @C07_standard_unslicers_resync, @C07_standard_unslicers_no_escape, @C07_standard_unslicers_chunk_independent, @C07_tie_body_clauses, @C07_tie_exempt, @C07_tie_header_window, @C07_tie_error_oversize, @C07_send_error_fits, @C07_handler_order).
Print Assumptions C07_group_3.

(* ======================================================================================================================
   AFTER THE TWO REPAIRS of banana.py (a CLOSE / an ABORT in the index phase of an OPEN sequence; fixes 5f9075a, 1fd02a3; the
   clauses are translated: gen/RecvGen.hd_close_fatal, hd_abort_in_index):
   "A schema violation discards exactly the offending top-level object" as a statement about EVENTS, for EVERY unslicer
   semantics.  Root events are deliveries (UDeliver) and reported violations (UViolation); hypotheses R1-R6 say which unslicer
   is the root (it delivers, its reportViolation emits UViolation, nobody else emits either, children are not roots), the other
   two are the behavioural hypotheses of the depth theorems.  `inside 1 body`: the tokens after the OPEN keep the nesting depth
   positive until the last one brings it back to zero. *)
Require Import Verif.lib.UnslOnce.

Theorem C07_exactly_one_root_event :
  forall (fr : Type) u_check u_opener_check u_do_open u_start u_child u_close u_finish u_report (is_root : fr -> bool),
  (forall f, is_root f = true -> u_report f = Some [UViolation]) ->
  (forall f es, is_root f = false -> u_report f = Some es -> nroot es = 0) ->
  (forall f v, is_root f = true -> exists f', u_child f v = ([UDeliver v], OOk f') /\ is_root f' = true) ->
  (forall f v es r, is_root f = false -> u_child f v = (es, r) -> nroot es = 0 /\ (forall f', r = OOk f' -> is_root f' = false)) ->
  (forall st ot ch, u_do_open st ot = OOk (Some ch) -> is_root ch = false) ->
  (forall ch n ch', is_root ch = false -> u_start ch n = OOk ch' -> is_root ch' = false) ->
  (forall f v es f', u_child f v = (es, OOk f') -> absorbs fr u_report f -> absorbs fr u_report f') ->
  (forall f, (u_close f = OViol \/ (exists v, u_close f = OOk v /\ u_finish f = OViol)) -> u_report f = None) ->
  forall c h b body, uat_top fr c -> RI fr is_root c -> inside 1 body ->
  match uapply_all fr u_check u_opener_check u_do_open u_start u_child u_close u_finish u_report c ((tok_OPEN, h, b) :: body) with
  | UFatal _ _ => True                                           (* the connection is abandoned *)
  | UOk _ c' es => nroot es = 1 /\ uat_top fr c' /\ RI fr is_root c'  (* exactly one root event, and back at top level *)
  end.
Proof.
  intros fr u_check u_opener_check u_do_open u_start u_child u_close u_finish u_report is_root R1 R2 R3 R4 R5 R6 HC HL c h b body T I IN.
  exact (unsl_exactly_one fr u_check u_opener_check u_do_open u_start u_child u_close u_finish u_report is_root R1 R2 R3 R4 R5 R6 HC HL
           c h b body tie_abort_in_index_phase T I IN).
Qed.

(* one root event = the object was delivered and nothing was reported, or it was reported and nothing was delivered *)
Theorem C07_one_root_event_means : forall es, nroot es = 1 ->
  (ndeliver es = 1 /\ nviolation es = 0) \/ (ndeliver es = 0 /\ nviolation es = 1).
Proof. exact one_root_event. Qed.

(* "decoding of the following objects is unaffected", the root's own state (review-2 repair: C07_following_objects_unaffected is
   determinism given an equal stack; this is the missing half): the root frame changes only by a delivery, so after one top-level
   sequence that ended in a reported violation the unslicer stack -- the root frame alone -- is exactly what it was before *)
Theorem C07_violated_object_keeps_root :
  forall (fr : Type) u_check u_opener_check u_do_open u_start u_child u_close u_finish u_report (is_root : fr -> bool),
  (forall f, is_root f = true -> u_report f = Some [UViolation]) ->
  (forall f es, is_root f = false -> u_report f = Some es -> nroot es = 0) ->
  (forall f v, is_root f = true -> exists f', u_child f v = ([UDeliver v], OOk f') /\ is_root f' = true) ->
  (forall f v es r, is_root f = false -> u_child f v = (es, r) -> nroot es = 0 /\ (forall f', r = OOk f' -> is_root f' = false)) ->
  (forall st ot ch, u_do_open st ot = OOk (Some ch) -> is_root ch = false) ->
  (forall ch n ch', is_root ch = false -> u_start ch n = OOk ch' -> is_root ch' = false) ->
  (forall f v es f', u_child f v = (es, OOk f') -> absorbs fr u_report f -> absorbs fr u_report f') ->
  (forall f, (u_close f = OViol \/ (exists v, u_close f = OOk v /\ u_finish f = OViol)) -> u_report f = None) ->
  forall c h b body, uat_top fr c -> RI fr is_root c -> inside 1 body ->
  match uapply_all fr u_check u_opener_check u_do_open u_start u_child u_close u_finish u_report c ((tok_OPEN, h, b) :: body) with
  | UFatal _ _ => True
  | UOk _ c' es => nviolation es = 1 -> u_stack fr c' = u_stack fr c
  end.
Proof.
  intros fr u_check u_opener_check u_do_open u_start u_child u_close u_finish u_report is_root R1 R2 R3 R4 R5 R6 HC HL c h b body T I IN.
  exact (unsl_violated_object_keeps_root fr u_check u_opener_check u_do_open u_start u_child u_close u_finish u_report is_root R1 R2 R3 R4 R5 R6 HC HL
           c h b body tie_abort_in_index_phase T I IN).
Qed.

(* the standard unslicers under any constraint tree satisfy all eight hypotheses.  Three-way reading (see
   C07_standard_unslicers_resync): where the model abstains nothing is claimed -- in particular hypothesis R3 ("the root delivers
   every child") is a statement about the MODEL's root, which never receives the vocabulary markers that the real root swallows
   without a delivery, because the model abstains before a vocab unslicer exists *)
Theorem C07_standard_unslicers_exactly_one : forall mi lg c h b body, uat_top sfr c -> std_RI c -> inside 1 body ->
  match uview sfr (sapply_all mi lg c ((tok_OPEN, h, b) :: body)) with
  | U3Abstains _ => True                                          (* not abstains -> ... : nothing is claimed *)
  | U3Abandoned _ es => In UErrorSent es /\ In ULose es            (* the connection is abandoned *)
  | U3Ok _ c' es => nroot es = 1 /\ uat_top sfr c' /\ std_RI c' /\ (nviolation es = 1 -> u_stack sfr c' = u_stack sfr c)
  end.
Proof. intros mi lg c h b body. exact (std_exactly_one3 mi lg c h b body tie_abort_in_index_phase). Qed.

(* non-vacuity of the ok branch on a violated object: C07_standard_resync_example's stream is read U3Ok with one violation *)
Example C07_exactly_one_view_example :
  exists c' es, uview sfr (sapply_all 13 0 (sctx0 (Some ex_listof))
                  [(tok_OPEN, 0, []); (tok_STRING, 4, [108; 105; 115; 116]); (tok_STRING, 1, [97]); (tok_STRING, 3, [97; 98; 99]);
                   (tok_INT, 5, []); (tok_CLOSE, 0, [])]) = U3Ok sfr c' es /\ nviolation es = 1 /\ u_stack sfr c' = u_stack sfr (sctx0 (Some ex_listof)).
Proof. eexists. eexists. split; [vm_compute; reflexivity|]. split; reflexivity. Qed.

(* OBSERVATION (review-2, recorded as a note, replayed on banana.py): handleOpen does six.ensure_str(indexToken); an index token that
   is not UTF-8 raises UnicodeDecodeError, which dataReceived's handler turns into the generic ERROR + loseConnection -- a protocol
   error either way (an opentype that is not text names nothing); a UTF-8 non-ASCII index token is an unknown opentype: one
   Violation.  The receive logic of lib/Unsl.v abstains on every non-ASCII index token (uhandle_open). *)

(* the two translated clauses are the ones the policy model lib/BananaRecv.v transcribes *)
Theorem C07_tie_close_in_index_phase : forall io d, hd_close_fatal io d = io && (d =? 0).
Proof. exact tie_close_in_index_phase. Qed.
Theorem C07_tie_abort_in_index_phase : hd_abort_in_index = true.
Proof. exact tie_abort_in_index_phase. Qed.

(* non-vacuity: the initial receiver satisfies the invariant, and the tokens of C07_standard_resync_example are one top-level sequence *)
Example C07_exactly_one_example :
  uat_top sfr (sctx0 (Some ex_listof)) /\ std_RI (sctx0 (Some ex_listof)) /\
  inside 1 [(tok_STRING, 4, [108; 105; 115; 116]); (tok_STRING, 1, [97]); (tok_STRING, 3, [97; 98; 99]); (tok_INT, 5, []); (tok_CLOSE, 0, [])].
Proof. split; [repeat split|]. split; [apply sctx0_RI|]. cbn. repeat split; reflexivity. Qed.

Definition C07_group_once := (@C07_exactly_one_root_event, @C07_one_root_event_means, @C07_standard_unslicers_exactly_one,
                              @C07_tie_close_in_index_phase, @C07_tie_abort_in_index_phase, @C07_violated_object_keeps_root,
                              @C07_abandoned_is_real, @C07_close_count_checked, @C07_close_token_count_checked, @C07_close_matching,
                              @C07_abstention_is_not_abandonment).
Print Assumptions C07_group_once.
