(* C14 -- Peers converge on one shared live connection; lookups never hang.
   Property theorems only; proofs live in lib/ConvergeProofs.v, ConvergeHist.v, ConvergeAttempts.v, ConvergeSeq.v,
   ConvergeLayersProofs.v, RefLegProofs.v (second leg of getReference over C03's request table) and ConvergeRefProofs.v.
   `compare_offer` is the translation of Negotiation.compareOfferAndExisting (gen/ConvergeGen.v);
   `run ops` is the state of the two-Tub model lib/Converge.v after ANY finite sequence of operations
   (lookups, dialled hints, block deliveries in any order, cuts, close notifications, restarts, forced time-outs,
   passage of virtual time with the connector and negotiation timers, retries armed for the next errback,
   changes of the handle-old option). *)
From Coq Require Import ZArith List Bool.
Import ListNotations.
Require Import Verif.lib.PyLite Verif.gen.ConvergeGen Verif.lib.Converge Verif.lib.ConvergeProofs Verif.lib.ConvergeHist Verif.lib.ConvergeAttempts Verif.lib.ConvergeSeq
  Verif.lib.ConvergeLayers Verif.lib.ConvergeLayersProofs Verif.lib.ConvergeRef Verif.lib.ConvergeRefProofs.
Require Verif.lib.Requests Verif.lib.RequestsProofs Verif.lib.RefLeg Verif.lib.RefLegProofs.

(* "the system settles so that either each side's current connection to the other is the two ends of one and
   the same connection, or neither side has one": at quiescence (nothing in flight, every close seen by both ends:
   a half-open connection whose loss one end has not been told about is by definition not quiescent; the model has
   two Tubs, a third one exists only in the oracle runs)
   M's current connection is c exactly when S's is c -- for every schedule, cut, restart and history. *)
Theorem C14_agree_at_quiescence : forall ops,
  quiescent (run ops) ->
  forall c, t_broker (tm (run ops)) = Some c <-> t_broker (ts (run ops)) = Some c.
Proof. exact agree_at_quiescence. Qed.
Print Assumptions C14_agree_at_quiescence.

(* ... and at every moment a Tub's current connection is exactly the connection whose end is a live Broker
   (so there is at most one, and a shut-down or lost Broker is never "current") *)
Theorem C14_current_is_live_end : forall ops c,
  (t_broker (tm (run ops)) = Some c <-> c_m (conns (run ops) c) = EBrk) /\
  (t_broker (ts (run ops)) = Some c <-> c_s (conns (run ops) c) = EBrk).
Proof. exact broker_is_live_end. Qed.
Print Assumptions C14_current_is_live_end.

(* "an established healthy connection is not displaced by a redundant attempt from the same peer incarnation":
   SYSTEM LEVEL: C14_established_not_displaced below (every reachable state; the one excluded case -- an offer naming a
   past life of the master -- is exact: C14_past_life_offer_displaces, and reachable: C14_established_displaced_after_master_restart).
   This theorem is the DECISION-LEVEL fact it rests on (translated function); as a statement about all offers of the
   same incarnation it is PARTIAL: what is missing is the case last_ir <> my_ir, where the code accepts. *)
Theorem C14_not_displaced_partial : forall inc last_ir last_seq e_seq my_ir ho age,
  (last_ir = IR_NONE \/ (last_ir = my_ir /\ (last_seq < e_seq)%Z)) ->
  compare_offer (Some inc) (Some (last_ir, last_seq)) (Some inc) e_seq my_ir ho age = Ok false.
Proof. exact compare_same_incarnation_older_or_none. Qed.
Print Assumptions C14_not_displaced_partial.

(* the counter-example (replayed on the real Tubs by the harness: parallel hints after a master restart) *)
Theorem C14_not_displaced_refuted :
  exists inc last_ir last_seq e_seq my_ir,
    last_ir <> my_ir /\ compare_offer (Some inc) (Some (last_ir, last_seq)) (Some inc) e_seq my_ir None 0 = Ok true.
Proof. exact compare_same_incarnation_past_life_accepted. Qed.
Print Assumptions C14_not_displaced_refuted.

(* "while an attempt from a restarted peer does displace the stale one" *)
Theorem C14_restart_displaces : forall inc last e_ir e_seq my_ir ho age,
  e_ir <> Some inc ->
  compare_offer (Some inc) (Some last) e_ir e_seq my_ir ho age = Ok true.
Proof. exact compare_new_incarnation. Qed.
Print Assumptions C14_restart_displaces.

(* the remaining branches: the peer knows exactly the existing connection and dialled anyway -> accepted;
   a seqnum from the future -> refused; pre-0.2.0 peers -> refused unless handle-old is set, then by age *)
Theorem C14_equal_seqnum_accepted : forall inc e_seq my_ir ho age,
  my_ir <> IR_NONE -> compare_offer (Some inc) (Some (my_ir, e_seq)) (Some inc) e_seq my_ir ho age = Ok true.
Proof. exact compare_equal_seqnum. Qed.
Print Assumptions C14_equal_seqnum_accepted.

Theorem C14_greater_seqnum_rejected : forall inc last_seq e_seq my_ir ho age,
  (e_seq < last_seq)%Z -> compare_offer (Some inc) (Some (my_ir, last_seq)) (Some inc) e_seq my_ir ho age = Ok false.
Proof. exact compare_greater_seqnum. Qed.
Print Assumptions C14_greater_seqnum_rejected.

Theorem C14_old_peer : forall o_inc o_last e_ir e_seq my_ir age,
  o_inc = None \/ o_last = None ->
  compare_offer o_inc o_last e_ir e_seq my_ir None age = Ok false /\
  forall thr, compare_offer o_inc o_last e_ir e_seq my_ir (Some thr) age = Ok (negb (age <? thr)%Z).
Proof. exact compare_old_peer. Qed.
Print Assumptions C14_old_peer.

(* SYSTEM LEVEL.  A Tub looks for a connection -- live TubConnector, or one of its own dials still negotiating at its
   end -- only while it has no current connection (for every schedule). *)
Theorem C14_attempt_only_without_broker : forall ops x,
  let s := run ops in
  (t_connector (tubof x s) <> None -> t_broker (tubof x s) = None) /\
  (forall i, i < nconn s -> c_client (conns s i) = x -> negotiating (cend x (conns s i)) = true -> t_broker (tubof x s) = None).
Proof. exact attempt_only_without_broker. Qed.
Print Assumptions C14_attempt_only_without_broker.

(* In every reachable state in which c is the master's current connection and the non-master's end of c is a live
   Broker (so c is also the non-master's current connection: C14_current_is_live_end; cut or not), NO delivery to the
   master replaces c -- whatever is in flight from redundant parallel hints, retries, older attempts -- provided the
   offer being delivered does not name a PAST LIFE of the master.  That the offer is of the connected incarnation, that
   it carries last-connection, and that a record of THIS master incarnation is older than c are all proved
   (invariants of lib/ConvergeSeq.v), not assumed. *)
Theorem C14_established_not_displaced : forall ops c c',
  let s := run ops in
  t_broker (tm s) = Some c -> c_s (conns s c) = EBrk ->
  (forall i lir lseq rest, c_qsm (conns s c') = Hello i (Some (lir, lseq)) :: rest -> lir = IR_NONE \/ lir = t_inc (tm s)) ->
  t_broker (tm (step s (Deliver c' TM))) = Some c.
Proof. exact established_not_displaced. Qed.
Print Assumptions C14_established_not_displaced.

(* the guard as a property of the history: while the master is in its first incarnation (t_inc counts its restarts)
   nothing is assumed about the offers *)
Theorem C14_established_not_displaced_first_life : forall ops c c',
  let s := run ops in
  t_inc (tm s) = 1%Z -> t_broker (tm s) = Some c -> c_s (conns s c) = EBrk ->
  t_broker (tm (step s (Deliver c' TM))) = Some c.
Proof. exact established_not_displaced_first_life. Qed.
Print Assumptions C14_established_not_displaced_first_life.

(* the guard is exact: an offer naming a past life of the master DOES take the established connection's place ... *)
Theorem C14_past_life_offer_displaces : forall ops c c' i lir lseq rest,
  let s := run ops in
  t_broker (tm s) = Some c -> Nat.ltb c' (nconn s) = true ->
  c_qsm (conns s c') = Hello i (Some (lir, lseq)) :: rest -> c_m (conns s c') = ENeg ->
  lir <> IR_NONE -> lir <> t_inc (tm s) ->
  t_broker (tm (step s (Deliver c' TM))) = Some c' /\ c' <> c.
Proof. exact past_life_offer_displaces. Qed.
Print Assumptions C14_past_life_offer_displaces.

(* ... and that is REACHABLE (the known finding as a run of the model, replayed on the real Tubs by the harness):
   the master restarts, the non-master dials two hints; the first is established at both ends, uncut, same incarnation;
   delivering the second offer replaces it *)
Theorem C14_established_displaced_after_master_restart :
  exists ops c c',
    let s := run ops in
    t_broker (tm s) = Some c /\ t_broker (ts s) = Some c /\ c_m (conns s c) = EBrk /\ c_s (conns s c) = EBrk /\
    c_cut (conns s c) = false /\ t_bir (tm s) = Some (t_inc (ts s)) /\
    t_broker (tm (step s (Deliver c' TM))) = Some c' /\ c' <> c.
Proof. exact established_displaced_after_master_restart. Qed.
Print Assumptions C14_established_displaced_after_master_restart.

(* handle-old-duplicate-connections is never consulted between two modern Tubs: whenever the master evaluates an offer
   while it has a current connection, the offer carries last-connection, and the translated decision function gives
   the same answer for every value of the option and every age of the existing Broker *)
Theorem C14_handle_old_unreachable : forall ops c inc last rest,
  let s := run ops in
  c < nconn s -> c_qsm (conns s c) = Hello inc last :: rest -> c_m (conns s c) = ENeg -> t_broker (tm s) <> None ->
  last <> None /\
  forall h h' a a',
    compare_offer (Some inc) last (t_bir (tm s)) (t_bseq (tm s)) (t_inc (tm s)) h a =
    compare_offer (Some inc) last (t_bir (tm s)) (t_bseq (tm s)) (t_inc (tm s)) h' a'.
Proof. exact handle_old_unreachable. Qed.
Print Assumptions C14_handle_old_unreachable.

(* the two decision sentences lifted to the two-Tub model (composition of the translated decision function with the
   master's step): a redundant offer of the connected incarnation leaves the master's Tub and every other connection
   exactly as they were and is hung up; an offer of another incarnation becomes the master's current connection *)
Theorem C14_model_redundant_not_displacing : forall s c inc lir lseq rest e,
  Nat.ltb c (nconn s) = true -> c_qsm (conns s c) = Hello inc (Some (lir, lseq)) :: rest -> c_m (conns s c) = ENeg ->
  t_broker (tm s) = Some e -> t_bir (tm s) = Some inc ->
  (lir = IR_NONE \/ (lir = t_inc (tm s) /\ (lseq < t_bseq (tm s))%Z)) ->
  let s' := step s (Deliver c TM) in
  tm s' = tm s /\ ts s' = ts s /\ (forall j, j <> c -> conns s' j = conns s j) /\ c_m (conns s' c) = ECloNeg.
Proof. exact model_redundant_not_displacing. Qed.
Print Assumptions C14_model_redundant_not_displacing.

Theorem C14_model_restart_displaces : forall s c inc last rest e,
  Nat.ltb c (nconn s) = true -> c_qsm (conns s c) = Hello inc (Some last) :: rest -> c_m (conns s c) = ENeg ->
  t_broker (tm s) = Some e -> t_bir (tm s) <> Some inc ->
  let s' := step s (Deliver c TM) in
  t_broker (tm s') = Some c /\ t_bir (tm s') = Some inc /\ t_bseq (tm s') = (t_master (tm s) + seqnum_step)%Z /\
  t_master (tm s') = (t_master (tm s) + seqnum_step)%Z /\ t_bcreated (tm s') = now s.
Proof. exact model_restart_displaces. Qed.
Print Assumptions C14_model_restart_displaces.

(* "Every getReference fires (success or failure) within the connection timeout".
   Tub.getReference has TWO LEGS: (1) Tub.getBrokerForTubRef -- wait for a connection to the peer: the waiters of
   Tub.waitingForBrokers, answered by brokerAttached / connectionFailed -- and then (2) the callback
   b.getYourReferenceByName(name) = callRemote("getReferenceByName") over the new Broker.  The sentence is TRUE OF LEG 1 and
   FALSE OF LEG 2 (review 2): the theorems down to C14_sync_failure_answered_at_once are about leg 1 only -- a "lookup" of
   the two-Tub model is a getBrokerForTubRef waiter (`GetRef`, t_waiters, t_fired), and they are named `broker_lookup`
   accordingly; leg 2 is the block "SECOND LEG" further down (exact statement of when it fires, and the refutation).
   "within the connection timeout" is a statement about connection ESTABLISHMENT.

   LEG 1.  Lookups are numbered per Tub
   incarnation; the model has virtual time (`now`), every TubConnector an armed deadline, the listening end of every
   connection its own negotiation timer; `Advance dt` lets time pass up to the next armed timer and fires what is due.
   For every schedule (including any passage of time, forced timer firings, retries from errbacks):
   a Broker-lookup number that has been handed out is either answered -- at a time within CONNECTION_TIMEOUT of the lookup --
   or still waiting, and then its time-out has not been reached yet. *)
Theorem C14_every_broker_lookup_fires_within_timeout : forall ops x w,
  let t := tubof x (run ops) in
  w < t_issued t ->
  (exists f, In f (t_fired t) /\ f_id f = w /\ (f_reg f <= f_at f <= f_reg f + CONNECTION_TIMEOUT)%Z) \/
  (exists r, In (w, r) (t_waiters t) /\ (r <= now (run ops) < r + CONNECTION_TIMEOUT)%Z).
Proof. exact every_lookup_fires_within_timeout. Qed.
Print Assumptions C14_every_broker_lookup_fires_within_timeout.

(* ... exactly once: the numbers of the answered and of the waiting Broker lookups together are 0 .. issued-1, each once
   (none lost, none answered twice, none both answered and waiting); nobody waits while a connection exists *)
Theorem C14_broker_lookups_accounted : forall ops x,
  let t := tubof x (run ops) in
  NoDup (map f_id (t_fired t) ++ map fst (t_waiters t)) /\
  (forall w, In w (map f_id (t_fired t) ++ map fst (t_waiters t)) <-> w < t_issued t) /\
  (t_broker t <> None -> t_waiters t = []).
Proof. exact lookups_accounted. Qed.
Print Assumptions C14_broker_lookups_accounted.

(* every recorded answer lies within the bound (and not in the future) *)
Theorem C14_fired_within_timeout : forall ops x f,
  In f (t_fired (tubof x (run ops))) ->
  (f_reg f <= f_at f)%Z /\ (f_at f <= f_reg f + CONNECTION_TIMEOUT)%Z /\ (f_at f <= now (run ops))%Z.
Proof. exact fired_within_timeout. Qed.
Print Assumptions C14_fired_within_timeout.

(* whoever waits has a live connector whose armed timer lies strictly in the future and at most CONNECTION_TIMEOUT
   after the lookup *)
Theorem C14_waiting_has_armed_timer : forall ops x w r,
  In (w, r) (t_waiters (tubof x (run ops))) ->
  t_connector (tubof x (run ops)) <> None /\
  (r <= now (run ops))%Z /\ (now (run ops) < t_deadline (tubof x (run ops)))%Z /\
  (t_deadline (tubof x (run ops)) <= r + CONNECTION_TIMEOUT)%Z.
Proof. exact waiting_has_armed_timer. Qed.
Print Assumptions C14_waiting_has_armed_timer.

(* the bound is not vacuous: the model never blocks the clock *)
Theorem C14_time_passes : forall ops dt, (0 < dt)%Z -> (now (run ops) < now (step (run ops) (Advance dt)))%Z.
Proof. exact time_passes. Qed.
Print Assumptions C14_time_passes.

(* when the connector is gone -- success, every attempt failed, or time-out -- nobody is left waiting *)
Theorem C14_waiters_fire : forall ops x,
  t_connector (tubof x (run ops)) = None -> t_waiters (tubof x (run ops)) = [].
Proof. exact waiters_fire. Qed.
Print Assumptions C14_waiters_fire.

(* the connector's timer (forced): every lookup that was waiting is errbacked at that moment; without an armed retry
   nobody waits afterwards (with one, the retry waits on a connector of its own: C14_waiting_has_armed_timer) -- this
   uses the order of effects read from Tub.connectionFailed (connection_failed_forgets_first) *)
Theorem C14_timeout_answers_all : forall ops x,
  let s := run ops in let s' := step s (Timeout x) in
  (t_waiters (tubof x s) <> [] -> t_connector (tubof x s) <> None) /\
  (t_retry (tubof x s) = false -> t_waiters (tubof x s') = []) /\
  (forall w r, In (w, r) (t_waiters (tubof x s)) -> t_broker (tubof x s) = None /\
     In (mkfired w r (now s) false) (t_fired (tubof x s'))).
Proof. exact timeout_answers_all. Qed.
Print Assumptions C14_timeout_answers_all.

(* a lookup whose TubConnector fails SYNCHRONOUSLY inside Tub.getBrokerForTubRef (a FURL without a usable location hint:
   none, unknown type, malformed, the handler raises; or every endpoint refuses at once) is the derived operation
   Converge.nohints_ops: the lookup followed at once by the forced firing of the connector's timer, nothing dialled.
   Schedules with such lookups (`hrun`) are schedules of the model, so every theorem of this file covers them ... *)
Theorem C14_schedules_with_sync_failures : forall hs, exists ops, hrun hs = run ops.
Proof. exact hrun_is_run. Qed.
Print Assumptions C14_schedules_with_sync_failures.

(* ... and "every getReference fires": such a lookup is errbacked at the moment it is made, and it leaves NO connector and
   no waiter behind -- so the next lookup of that Tub starts a connector, with a time-out, of its own
   (C14_every_broker_lookup_fires_within_timeout); with a retry armed, the lookup made from inside the errback waits on a new
   connector whose CONNECTION_TIMEOUT runs from now.  (The registration of the connector in Tub.tubConnectors BEFORE
   connect() -- without which the failed connector would stay registered -- is a translated shape fact of
   Tub.getBrokerForTubRef; the order inside Tub.connectionFailed is connection_failed_forgets_first.) *)
Theorem C14_sync_failure_answered_at_once : forall ops x,
  let s := run ops in
  t_broker (tubof x s) = None -> t_connector (tubof x s) = None ->
  let s' := fold_left step (nohints_ops x s) s in
  now s' = now s /\
  In (mkfired (t_issued (tubof x s)) (now s) (now s) false) (t_fired (tubof x s')) /\
  (t_retry (tubof x s) = false -> t_connector (tubof x s') = None /\ t_waiters (tubof x s') = []) /\
  (t_retry (tubof x s) = true ->
     t_waiters (tubof x s') = [(S (t_issued (tubof x s)), now s)] /\ t_connector (tubof x s') <> None /\
     t_deadline (tubof x s') = (now s + CONNECTION_TIMEOUT)%Z /\ t_retry (tubof x s') = false).
Proof. exact sync_failure_answered_at_once. Qed.
Print Assumptions C14_sync_failure_answered_at_once.

(* ---------------------------------------------------------------------------------------------------------------
   SECOND LEG of getReference (review 2).  lib/RefLeg.v + lib/ConvergeRef.v: the callback's call is ONE two-way request in
   the request table of the Broker it was given -- the table of C03 (lib/Requests.v, with its translated
   PendingRequest.complete / fail and Broker.finish) --, and the two-Tub model drives that table: Broker.finish exactly in the
   step in which that end of the connection stops being a live Broker (`phist`).

   The exact statement, at the level of the request table: the Broker is connected and the request (rid, h) is pending
   after `pre`.  For EVERY continuation: the Deferred has fired, or its failure has been queued by Broker.finish (`done`),
   IF AND ONLY IF the continuation contains an answer / an error / a Violation for this request id, complete()/fail() on
   this request object, or Broker.finish (`inert rid h o = false`).  Nothing else -- and no passage of time: nothing in
   the request table is timed -- ends it. *)
Theorem C14_second_leg_fires_iff_answer_or_loss : forall pre post h rid,
  Requests.disconnected (Requests.run pre) = false -> RefLeg.pending (Requests.run pre) h rid ->
  (RefLeg.done (Requests.run (pre ++ post)) h <-> Exists (fun o => RefLeg.inert rid h o = false) post).
Proof. exact RefLegProofs.leg_fires_iff. Qed.
Print Assumptions C14_second_leg_fires_iff_answer_or_loss.

(* the hypotheses are what the callback produces: its call on a connected Broker is a pending request (handle = number of
   calls made on that Broker before, id = the Broker's next request id) *)
Theorem C14_second_leg_call_is_pending : forall ops,
  Requests.disconnected (Requests.run ops) = false ->
  RefLeg.pending (Requests.run (ops ++ [RefLeg.leg_call])) (List.length (Requests.calls (Requests.run ops)))
                 (Requests.nextid (Requests.run ops)).
Proof. exact RefLegProofs.leg_call_starts. Qed.
Print Assumptions C14_second_leg_call_is_pending.

(* the two ways it ends: the answer fires it with the result; Broker.finish(why) fires it -- as many turns of the
   eventual queue later as there are entries -- with what the reason maps to (DeadReferenceError for every
   lost-connection reason: C03_lost_reason...) *)
Theorem C14_second_leg_answer_fires : forall ops h rid, RefLeg.pending (Requests.run ops) h rid ->
  exists c', Requests.get (Requests.step (Requests.run ops) (Requests.Answer rid)) h = Some c' /\
             Requests.c_fires c' = [Requests.OResult].
Proof. exact RefLegProofs.leg_answer_fires. Qed.
Print Assumptions C14_second_leg_answer_fires.

Theorem C14_second_leg_loss_fires : forall ops r h rid,
  Requests.disconnected (Requests.run ops) = false -> RefLeg.pending (Requests.run ops) h rid ->
  let s1 := Requests.run (ops ++ [Requests.Finish r]) in
  let s2 := Requests.run_from s1 (repeat Requests.Turn (List.length (Requests.evq s1))) in
  exists c', Requests.get s2 h = Some c' /\ Requests.c_fires c' = [Requests.reason_outcome r].
Proof. exact RefLegProofs.leg_loss_fires. Qed.
Print Assumptions C14_second_leg_loss_fires.

(* COMPOSED with the two-Tub model.  (a) In every reachable state an end that is a live Broker is still one after a lookup,
   a dial, a CUT of any connection (its own included), a forced connector time-out, an armed retry, a change of the option
   and after ANY passage of time (`Advance dt`): the connector's timer is disarmed at brokerAttached, the listening end's
   negotiation timer at switchToBanana, nothing else is timed (Tub.disconnectTimeout = None by default is a translated shape
   fact; the default keepalive timer only writes a PING; what TCP itself eventually does with an unacknowledged PING is
   outside foolscap and the model).  Only a delivery, a close notification or a restart ends it. *)
Theorem C14_established_end_has_no_timer : forall ops x c o,
  cend x (conns (run ops) c) = EBrk -> not_a_notification o = true -> cend x (conns (step (run ops) o) c) = EBrk.
Proof. exact established_end_kept. Qed.
Print Assumptions C14_established_end_has_no_timer.

(* (b) the iff, composed: after any history `pops` of the composed system with the request pending on x's connected Broker
   on c, for EVERY continuation `more` (steps of the two-Tub model and events on the Broker, interleaved): the second leg is
   over iff the Broker's part of `more` -- `phist`: Broker.finish for exactly the steps in which x's end of c stops being a
   live Broker, one call per lookup answered with this Broker, the wire events -- contains one of the ending operations *)
Theorem C14_getReference_second_leg_iff : forall x c pops more h rid,
  Requests.disconnected (broker_requests x c pops) = false -> RefLeg.pending (broker_requests x c pops) h rid ->
  (RefLeg.done (broker_requests x c (pops ++ more)) h <->
   Exists (fun o => RefLeg.inert rid h o = false) (fst (phist x c (pnet pops) more))).
Proof. exact second_leg_fires_iff. Qed.
Print Assumptions C14_getReference_second_leg_iff.

(* (c) hence: whatever the system does that is neither a delivery / close notification / restart nor an answer for this
   request -- cuts and ANY passage of time included -- the getReference stays pending *)
Theorem C14_getReference_pending_without_answer_or_notification : forall x c pops more h rid,
  Requests.disconnected (broker_requests x c pops) = false -> RefLeg.pending (broker_requests x c pops) h rid ->
  Forall (fun p => quiet_pop rid h p = true) more ->
  RefLeg.pending (broker_requests x c (pops ++ more)) h rid /\
  Requests.disconnected (broker_requests x c (pops ++ more)) = false /\
  ~ RefLeg.done (broker_requests x c (pops ++ more)) h.
Proof. exact second_leg_silent. Qed.
Print Assumptions C14_getReference_pending_without_answer_or_notification.

(* (d) the step in which the end stops being a live Broker does end it; the hand-over from leg 1: a lookup made while the
   Tub holds the Broker is answered at once and makes its call on it *)
Theorem C14_getReference_ends_when_loss_is_notified : forall x c pops o why h rid,
  Requests.disconnected (broker_requests x c pops) = false -> RefLeg.pending (broker_requests x c pops) h rid ->
  live x c (pnet pops) = true -> live x c (step (pnet pops) o) = false ->
  RefLeg.done (broker_requests x c (pops ++ [PNet o why])) h.
Proof. exact second_leg_ends_on_loss. Qed.
Print Assumptions C14_getReference_ends_when_loss_is_notified.

Theorem C14_second_leg_starts : forall x c pops why,
  t_broker (tubof x (pnet pops)) = Some c -> Requests.disconnected (broker_requests x c pops) = false ->
  broker_requests x c (pops ++ [PNet (GetRef x) why]) = Requests.step (broker_requests x c pops) RefLeg.leg_call /\
  RefLeg.pending (broker_requests x c (pops ++ [PNet (GetRef x) why]))
                 (List.length (Requests.calls (broker_requests x c pops))) (Requests.nextid (broker_requests x c pops)).
Proof. exact second_leg_starts. Qed.
Print Assumptions C14_second_leg_starts.

(* "Every getReference fires within the connection timeout", full sentence, both legs: REFUTED.  The schedule
   (ConvergeRef.silent_ops; replayed on real Tubs by the harness on every run, reported as a note): the non-master S looks
   M up and dials, the negotiation completes at both ends -- S's Broker lookup IS answered, with a Broker, at time 0 --, then
   the network drops the link without telling anybody (Cut, no CloseSeen).  For EVERY further passage of time both ends
   are still live Brokers, the request table has seen nothing but the call, the getReference has not fired.
   (ConvergeRefProofs.black_holed_time: 20 x 130 s = 2600 s > CONNECTION_TIMEOUT; black_holed_then_notified: once the loss is
   notified it fires with DeadReferenceError.) *)
Theorem C14_every_getReference_fires_within_timeout_refuted : forall why dts,
  let base := silent_pops why [] in
  let l := silent_pops why dts in
  In (mkfired 0 0 0 true) (t_fired (ts (pnet base))) /\ t_broker (ts (pnet base)) = Some 0 /\
  c_cut (conns (pnet base) 0) = true /\ broker_requests TS 0 base = Requests.run [RefLeg.leg_call] /\
  live TS 0 (pnet l) = true /\ live TM 0 (pnet l) = true /\
  RefLeg.pending (broker_requests TS 0 l) 0 1 /\ ~ RefLeg.done (broker_requests TS 0 l) 0.
Proof. exact getReference_black_holed. Qed.
Print Assumptions C14_every_getReference_fires_within_timeout_refuted.

(* "for all histories of previous connections recorded by either side": for every schedule, whenever both Tubs hold
   the same current connection, the non-master's slave_table record is exactly (master incarnation, seqnum of that
   connection) -- whoever dialled it.  (This is what lets its next offer, after a cut only it has noticed, prove
   knowledge of the master's stale connection: C14_equal_seqnum_accepted.)  Uses slave_table_recorded_always, read
   from acceptDecisionVersion1; proved with the invariant that every decision in flight on the master's current
   connection carries the master's current incarnation and seqnum (lib/ConvergeHist.v). *)
Theorem C14_slave_record_agrees : forall ops c,
  t_broker (tm (run ops)) = Some c -> t_broker (ts (run ops)) = Some c ->
  t_slave (ts (run ops)) = Some (t_inc (tm (run ops)), t_bseq (tm (run ops))).
Proof. exact slave_record_agrees. Qed.
Print Assumptions C14_slave_record_agrees.

Theorem C14_decisions_in_flight_current : forall ops c i q,
  t_broker (tm (run ops)) = Some c -> In (Decision i q) (c_qms (conns (run ops) c)) ->
  i = t_inc (tm (run ops)) /\ q = t_bseq (tm (run ops)).
Proof. exact decisions_in_flight_current. Qed.
Print Assumptions C14_decisions_in_flight_current.

(* the step that establishes it: accepting the decision on c records it and makes c current *)
Theorem C14_slave_records_decision : forall c s i q rest,
  Nat.ltb c (nconn s) = true -> c_qms (conns s c) = Decision i q :: rest -> c_s (conns s c) = EDec ->
  t_slave (ts (step s (Deliver c TS))) = Some (i, q) /\ t_broker (ts (step s (Deliver c TS))) = Some c.
Proof. exact slave_records_decision. Qed.
Print Assumptions C14_slave_records_decision.

(* THREE TUBS / several outbound negotiations (lib/ConvergeLayers.v, offers).  The two-Tub model builds the dialler's hello
   from its record of THAT peer; this is what makes it so: for every interleaving of the set-up (initClient) and the
   hellos (sendHello, one round trip later) of any number of outbound Negotiations of one Tub -- to its peer over several
   hints and to other Tubs with other histories -- every hello carries the last-connection record of ITS OWN target.
   `offer_dict_fresh` is translated from Negotiation.__init__ (self.negotiationOffer is built per instance).
   HOW MUCH THIS SAYS (review 2): in lib/ConvergeLayers.v a Negotiation's own dict holds `rec tgt` from its creation on and
   `rec` (Tub.slave_table as a function of the target) is CONSTANT during the script, so with the flag = true the statement
   holds by construction of `ostep`; its content is (i) that the flag read from the source IS true -- a shared dict flips
   it, and then the statement is false: C14_shared_offer_refuted, same model, other value of the flag -- and (ii) the
   correspondence with real Negotiation objects (harness, 43+ scripts) plus the direct oracle on the hellos.  It is NOT a
   statement about a slave_table that changes between initClient and sendHello (the real hello then carries the record as
   of initClient; not modelled). *)
Theorem C14_hello_carries_own_record : forall rec evs n c,
  In (n, c) (o_out (orun offer_dict_fresh rec evs)) ->
  exists tgt, nth_error (o_tgts (orun offer_dict_fresh rec evs)) n = Some tgt /\ c = rec tgt.
Proof. exact hello_carries_own_record. Qed.
Print Assumptions C14_hello_carries_own_record.

(* with one dict shared by the Negotiations it is false: initClient(A->B), initClient(A->C), sendHello(A->B) *)
Theorem C14_shared_offer_refuted :
  exists rec evs n c, In (n, c) (o_out (orun false rec evs)) /\
    nth_error (o_tgts (orun false rec evs)) n = Some 0 /\ c <> rec 0.
Proof. exact shared_offer_refuted. Qed.
Print Assumptions C14_shared_offer_refuted.

(* LOOKUPS QUEUED BEFORE Tub.startService (lib/ConvergeLayers.v, prestart).  For every history of getReference calls,
   the start and answers: every Deferred handed out is still queued (Tub not started) or has exactly ONE lookup of its
   own -- a lookup of the two-Tub model made at the time of the start, so C14_every_broker_lookup_fires_within_timeout
   applies to its first leg, counted from the start -- and fires exactly when that lookup is answered; no Deferred fires twice.
   `relay_binds_own_deferred` is translated from the loop in Tub.startService. *)
Theorem C14_each_deferred_has_its_own_lookup : forall evs o,
  let s := prun relay_binds_own_deferred evs in
  o < p_no s ->
  NoDup (p_fired s) /\
  ((In o (p_queue s) /\ p_running s = false) \/
   exists w, In (w, o) (p_inner s) /\ (forall w', In (w', o) (p_inner s) -> w' = w) /\ (In w (p_answered s) <-> In o (p_fired s))).
Proof. exact each_deferred_has_its_own_lookup. Qed.
Print Assumptions C14_each_deferred_has_its_own_lookup.

(* the relay reading the loop variable late: two queued lookups, both answered, the first caller never hears *)
Theorem C14_late_binding_refuted :
  let s := prun false [PGet; PGet; PStart; PAnswer 0; PAnswer 1] in
  p_answered s = [0; 1] /\ p_fired s = [1] /\ ~ In 0 (p_fired s).
Proof. exact late_binding_refuted. Qed.
Print Assumptions C14_late_binding_refuted.
