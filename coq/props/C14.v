(* C14 -- Peers converge on one shared live connection; lookups never hang.
   Property theorems only; proofs live in lib/ConvergeProofs.v.
   `compare_offer` is the translation of Negotiation.compareOfferAndExisting (gen/ConvergeGen.v);
   `run ops` is the state of the two-Tub model lib/Converge.v after ANY finite sequence of operations
   (lookups, dialled hints, block deliveries in any order, cuts, close notifications, restarts, time-outs). *)
From Coq Require Import ZArith List Bool.
Import ListNotations.
Require Import Verif.lib.PyLite Verif.gen.ConvergeGen Verif.lib.Converge Verif.lib.ConvergeProofs.

(* "the system settles so that either each side's current connection to the other is the two ends of one and
   the same connection, or neither side has one": at quiescence (nothing in flight, every close seen by both ends)
   M's current connection is c exactly when S's is c -- for every schedule, cut, restart and history. *)
Theorem C14_agree_at_quiescence : forall ops,
  quiescent (run ops) ->
  forall c, t_broker (tm (run ops)) = Some c <-> t_broker (ts (run ops)) = Some c.
Proof. exact agree_at_quiescence. Qed.
Print Assumptions C14_agree_at_quiescence.

(* ... and at every moment a Tub's current connection is exactly the connection whose end is a live Broker
   (so there is at most one, and a shut-down or lost Broker is never "current") *)
Theorem C14_current_is_live_end : forall ops c,
  (t_broker (tm (run ops)) = Some c <-> c_m (conns (run ops) c) = EBrk) /\
  (t_broker (ts (run ops)) = Some c <-> c_s (conns (run ops) c) = EBrk).
Proof. exact broker_is_live_end. Qed.
Print Assumptions C14_current_is_live_end.

(* "an established healthy connection is not displaced by a redundant attempt from the same peer incarnation":
   PARTIAL.  Proved for offers that carry "none" or an older seqnum of this master incarnation.
   The full statement (every offer of the same incarnation that does not know the existing connection is refused)
   is FALSE for the code, see C14_not_displaced_refuted: what is missing is the case last_ir <> my_ir. *)
Theorem C14_not_displaced_partial : forall inc last_ir last_seq e_seq my_ir ho age,
  (last_ir = IR_NONE \/ (last_ir = my_ir /\ (last_seq < e_seq)%Z)) ->
  compare_offer (Some inc) (Some (last_ir, last_seq)) (Some inc) e_seq my_ir ho age = Ok false.
Proof. exact compare_same_incarnation_older_or_none. Qed.
Print Assumptions C14_not_displaced_partial.

(* the counter-example (replayed on the real Tubs by the harness: parallel hints after a master restart) *)
Theorem C14_not_displaced_refuted :
  exists inc last_ir last_seq e_seq my_ir,
    last_ir <> my_ir /\ compare_offer (Some inc) (Some (last_ir, last_seq)) (Some inc) e_seq my_ir None 0 = Ok true.
Proof. exact compare_same_incarnation_past_life_accepted. Qed.
Print Assumptions C14_not_displaced_refuted.

(* "while an attempt from a restarted peer does displace the stale one" *)
Theorem C14_restart_displaces : forall inc last e_ir e_seq my_ir ho age,
  e_ir <> Some inc ->
  compare_offer (Some inc) (Some last) e_ir e_seq my_ir ho age = Ok true.
Proof. exact compare_new_incarnation. Qed.
Print Assumptions C14_restart_displaces.

(* the remaining branches: the peer knows exactly the existing connection and dialled anyway -> accepted;
   a seqnum from the future -> refused; pre-0.2.0 peers -> refused unless handle-old is set, then by age *)
Theorem C14_equal_seqnum_accepted : forall inc e_seq my_ir ho age,
  my_ir <> IR_NONE -> compare_offer (Some inc) (Some (my_ir, e_seq)) (Some inc) e_seq my_ir ho age = Ok true.
Proof. exact compare_equal_seqnum. Qed.
Print Assumptions C14_equal_seqnum_accepted.

Theorem C14_greater_seqnum_rejected : forall inc last_seq e_seq my_ir ho age,
  (e_seq < last_seq)%Z -> compare_offer (Some inc) (Some (my_ir, last_seq)) (Some inc) e_seq my_ir ho age = Ok false.
Proof. exact compare_greater_seqnum. Qed.
Print Assumptions C14_greater_seqnum_rejected.

Theorem C14_old_peer : forall o_inc o_last e_ir e_seq my_ir age,
  o_inc = None \/ o_last = None ->
  compare_offer o_inc o_last e_ir e_seq my_ir None age = Ok false /\
  forall thr, compare_offer o_inc o_last e_ir e_seq my_ir (Some thr) age = Ok (negb (age <? thr)%Z).
Proof. exact compare_old_peer. Qed.
Print Assumptions C14_old_peer.

(* "Every getReference fires": when the connector is gone -- success, every attempt failed, or time-out --
   nobody is left waiting *)
Theorem C14_waiters_fire : forall ops x,
  t_connector (tubof x (run ops)) = None -> t_waiters (tubof x (run ops)) = 0.
Proof. exact waiters_fire. Qed.
Print Assumptions C14_waiters_fire.

(* "... within the connection timeout": whoever waits has a live connector, whose timer (CONNECTION_TIMEOUT,
   armed in TubConnector.connect) answers every lookup that was waiting when it fires; a lookup issued synchronously
   from inside one of those errbacks (instant retry, re-entrant getReference) again waits on a live connector of its
   own -- this uses the order of effects read from Tub.connectionFailed (connection_failed_forgets_first) *)
Theorem C14_timeout_answers_all : forall ops x,
  let s := run ops in let s' := step s (Timeout x) in
  (t_waiters (tubof x s) <> 0 -> t_connector (tubof x s) <> None) /\
  t_fired (tubof x s') = t_fired (tubof x s) + t_waiters (tubof x s) /\
  (t_waiters (tubof x s') <> 0 -> t_connector (tubof x s') <> None) /\
  (t_retry (tubof x s) = false -> t_waiters (tubof x s') = 0).
Proof. exact timeout_answers_all. Qed.
Print Assumptions C14_timeout_answers_all.

(* no lookup is lost: made = answered + still waiting, and nobody waits while a connection exists *)
Theorem C14_lookups_accounted : forall ops x,
  t_issued (tubof x (run ops)) = t_fired (tubof x (run ops)) + t_waiters (tubof x (run ops)) /\
  (t_broker (tubof x (run ops)) <> None -> t_waiters (tubof x (run ops)) = 0).
Proof. exact lookups_accounted. Qed.
Print Assumptions C14_lookups_accounted.

(* "for all histories of previous connections recorded by either side": when the non-master accepts the master's
   decision on connection c -- whoever dialled c -- it records (master incarnation, seqnum) of that decision and c
   becomes its current connection.  (This is what lets its next offer, after a cut only it has noticed, prove
   knowledge of the master's stale connection: C14_equal_seqnum_accepted.)  Uses slave_table_recorded_always, read
   from acceptDecisionVersion1.
   PARTIAL: one step.  Not proved: the invariant over all schedules
     t_broker (tm s) = Some c -> t_broker (ts s) = Some c -> t_slave (ts s) = Some (t_inc (tm s), t_bseq (tm s))
   (what is missing: that every Decision in flight on the master's current connection carries the master's current
   incarnation and seqnum); it is checked on the real Tubs by the trace correspondence and the one-sided-cut oracle. *)
Theorem C14_slave_records_decision_partial : forall c s i q rest,
  Nat.ltb c (nconn s) = true -> c_qms (conns s c) = Decision i q :: rest -> c_s (conns s c) = EDec ->
  t_slave (ts (step s (Deliver c TS))) = Some (i, q) /\ t_broker (ts (step s (Deliver c TS))) = Some c.
Proof. exact slave_records_decision. Qed.
Print Assumptions C14_slave_records_decision_partial.
