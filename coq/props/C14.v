(* C14 -- Peers converge on one shared live connection; lookups never hang.
   Property theorems only; proofs live in lib/ConvergeProofs.v and lib/ConvergeHist.v.
   `compare_offer` is the translation of Negotiation.compareOfferAndExisting (gen/ConvergeGen.v);
   `run ops` is the state of the two-Tub model lib/Converge.v after ANY finite sequence of operations
   (lookups, dialled hints, block deliveries in any order, cuts, close notifications, restarts, forced time-outs,
   passage of virtual time with the connector and negotiation timers, retries armed for the next errback,
   changes of the handle-old option). *)
From Coq Require Import ZArith List Bool.
Import ListNotations.
Require Import Verif.lib.PyLite Verif.gen.ConvergeGen Verif.lib.Converge Verif.lib.ConvergeProofs Verif.lib.ConvergeHist.

(* "the system settles so that either each side's current connection to the other is the two ends of one and
   the same connection, or neither side has one": at quiescence (nothing in flight, every close seen by both ends:
   a half-open connection whose loss one end has not been told about is by definition not quiescent; the model has
   two Tubs, a third one exists only in the oracle runs)
   M's current connection is c exactly when S's is c -- for every schedule, cut, restart and history. *)
Theorem C14_agree_at_quiescence : forall ops,
  quiescent (run ops) ->
  forall c, t_broker (tm (run ops)) = Some c <-> t_broker (ts (run ops)) = Some c.
Proof. exact agree_at_quiescence. Qed.
Print Assumptions C14_agree_at_quiescence.

(* ... and at every moment a Tub's current connection is exactly the connection whose end is a live Broker
   (so there is at most one, and a shut-down or lost Broker is never "current") *)
Theorem C14_current_is_live_end : forall ops c,
  (t_broker (tm (run ops)) = Some c <-> c_m (conns (run ops) c) = EBrk) /\
  (t_broker (ts (run ops)) = Some c <-> c_s (conns (run ops) c) = EBrk).
Proof. exact broker_is_live_end. Qed.
Print Assumptions C14_current_is_live_end.

(* "an established healthy connection is not displaced by a redundant attempt from the same peer incarnation":
   DECISION LEVEL (this theorem, about the translated function) and STEP LEVEL (C14_model_redundant_not_displacing below:
   in ANY state of the two-Tub model, an in-flight offer with this content leaves the master's Tub untouched).
   NOT proved as a statement about `run ops`: that whenever a connection is healthy at both ends, every offer of the
   same incarnation still in flight has this content (it needs the invariant that the non-master dials only while it
   has no current connection, so that the record in its hello is older than the connection it holds) -- and with a
   record naming a past life of the master it is false (C14_not_displaced_refuted).  On the real Tubs this is what the
   oracle families `redundant` and `one-sided-cut` check (exactly one of the parallel offers accepted).
   PARTIAL.  Proved for offers that carry "none" or an older seqnum of this master incarnation.
   The full statement (every offer of the same incarnation that does not know the existing connection is refused)
   is FALSE for the code, see C14_not_displaced_refuted: what is missing is the case last_ir <> my_ir. *)
Theorem C14_not_displaced_partial : forall inc last_ir last_seq e_seq my_ir ho age,
  (last_ir = IR_NONE \/ (last_ir = my_ir /\ (last_seq < e_seq)%Z)) ->
  compare_offer (Some inc) (Some (last_ir, last_seq)) (Some inc) e_seq my_ir ho age = Ok false.
Proof. exact compare_same_incarnation_older_or_none. Qed.
Print Assumptions C14_not_displaced_partial.

(* the counter-example (replayed on the real Tubs by the harness: parallel hints after a master restart) *)
Theorem C14_not_displaced_refuted :
  exists inc last_ir last_seq e_seq my_ir,
    last_ir <> my_ir /\ compare_offer (Some inc) (Some (last_ir, last_seq)) (Some inc) e_seq my_ir None 0 = Ok true.
Proof. exact compare_same_incarnation_past_life_accepted. Qed.
Print Assumptions C14_not_displaced_refuted.

(* "while an attempt from a restarted peer does displace the stale one" *)
Theorem C14_restart_displaces : forall inc last e_ir e_seq my_ir ho age,
  e_ir <> Some inc ->
  compare_offer (Some inc) (Some last) e_ir e_seq my_ir ho age = Ok true.
Proof. exact compare_new_incarnation. Qed.
Print Assumptions C14_restart_displaces.

(* the remaining branches: the peer knows exactly the existing connection and dialled anyway -> accepted;
   a seqnum from the future -> refused; pre-0.2.0 peers -> refused unless handle-old is set, then by age *)
Theorem C14_equal_seqnum_accepted : forall inc e_seq my_ir ho age,
  my_ir <> IR_NONE -> compare_offer (Some inc) (Some (my_ir, e_seq)) (Some inc) e_seq my_ir ho age = Ok true.
Proof. exact compare_equal_seqnum. Qed.
Print Assumptions C14_equal_seqnum_accepted.

Theorem C14_greater_seqnum_rejected : forall inc last_seq e_seq my_ir ho age,
  (e_seq < last_seq)%Z -> compare_offer (Some inc) (Some (my_ir, last_seq)) (Some inc) e_seq my_ir ho age = Ok false.
Proof. exact compare_greater_seqnum. Qed.
Print Assumptions C14_greater_seqnum_rejected.

Theorem C14_old_peer : forall o_inc o_last e_ir e_seq my_ir age,
  o_inc = None \/ o_last = None ->
  compare_offer o_inc o_last e_ir e_seq my_ir None age = Ok false /\
  forall thr, compare_offer o_inc o_last e_ir e_seq my_ir (Some thr) age = Ok (negb (age <? thr)%Z).
Proof. exact compare_old_peer. Qed.
Print Assumptions C14_old_peer.

(* the two decision sentences lifted to the two-Tub model (composition of the translated decision function with the
   master's step): a redundant offer of the connected incarnation leaves the master's Tub and every other connection
   exactly as they were and is hung up; an offer of another incarnation becomes the master's current connection *)
Theorem C14_model_redundant_not_displacing : forall s c inc lir lseq rest e,
  Nat.ltb c (nconn s) = true -> c_qsm (conns s c) = Hello inc (Some (lir, lseq)) :: rest -> c_m (conns s c) = ENeg ->
  t_broker (tm s) = Some e -> t_bir (tm s) = Some inc ->
  (lir = IR_NONE \/ (lir = t_inc (tm s) /\ (lseq < t_bseq (tm s))%Z)) ->
  let s' := step s (Deliver c TM) in
  tm s' = tm s /\ ts s' = ts s /\ (forall j, j <> c -> conns s' j = conns s j) /\ c_m (conns s' c) = ECloNeg.
Proof. exact model_redundant_not_displacing. Qed.
Print Assumptions C14_model_redundant_not_displacing.

Theorem C14_model_restart_displaces : forall s c inc last rest e,
  Nat.ltb c (nconn s) = true -> c_qsm (conns s c) = Hello inc (Some last) :: rest -> c_m (conns s c) = ENeg ->
  t_broker (tm s) = Some e -> t_bir (tm s) <> Some inc ->
  let s' := step s (Deliver c TM) in
  t_broker (tm s') = Some c /\ t_bir (tm s') = Some inc /\ t_bseq (tm s') = (t_master (tm s) + seqnum_step)%Z /\
  t_master (tm s') = (t_master (tm s) + seqnum_step)%Z /\ t_bcreated (tm s') = now s.
Proof. exact model_restart_displaces. Qed.
Print Assumptions C14_model_restart_displaces.

(* "Every getReference fires (success or failure) within the connection timeout".  Lookups are numbered per Tub
   incarnation; the model has virtual time (`now`), every TubConnector an armed deadline, the listening end of every
   connection its own negotiation timer; `Advance dt` lets time pass up to the next armed timer and fires what is due.
   For every schedule (including any passage of time, forced timer firings, retries from errbacks):
   a lookup number that has been handed out is either answered -- at a time within CONNECTION_TIMEOUT of the lookup --
   or still waiting, and then its time-out has not been reached yet. *)
Theorem C14_every_lookup_fires_within_timeout : forall ops x w,
  let t := tubof x (run ops) in
  w < t_issued t ->
  (exists f, In f (t_fired t) /\ f_id f = w /\ (f_reg f <= f_at f <= f_reg f + CONNECTION_TIMEOUT)%Z) \/
  (exists r, In (w, r) (t_waiters t) /\ (r <= now (run ops) < r + CONNECTION_TIMEOUT)%Z).
Proof. exact every_lookup_fires_within_timeout. Qed.
Print Assumptions C14_every_lookup_fires_within_timeout.

(* ... exactly once: the numbers of the answered and of the waiting lookups together are 0 .. issued-1, each once
   (none lost, none answered twice, none both answered and waiting); nobody waits while a connection exists *)
Theorem C14_lookups_accounted : forall ops x,
  let t := tubof x (run ops) in
  NoDup (map f_id (t_fired t) ++ map fst (t_waiters t)) /\
  (forall w, In w (map f_id (t_fired t) ++ map fst (t_waiters t)) <-> w < t_issued t) /\
  (t_broker t <> None -> t_waiters t = []).
Proof. exact lookups_accounted. Qed.
Print Assumptions C14_lookups_accounted.

(* every recorded answer lies within the bound (and not in the future) *)
Theorem C14_fired_within_timeout : forall ops x f,
  In f (t_fired (tubof x (run ops))) ->
  (f_reg f <= f_at f)%Z /\ (f_at f <= f_reg f + CONNECTION_TIMEOUT)%Z /\ (f_at f <= now (run ops))%Z.
Proof. exact fired_within_timeout. Qed.
Print Assumptions C14_fired_within_timeout.

(* whoever waits has a live connector whose armed timer lies strictly in the future and at most CONNECTION_TIMEOUT
   after the lookup *)
Theorem C14_waiting_has_armed_timer : forall ops x w r,
  In (w, r) (t_waiters (tubof x (run ops))) ->
  t_connector (tubof x (run ops)) <> None /\
  (r <= now (run ops))%Z /\ (now (run ops) < t_deadline (tubof x (run ops)))%Z /\
  (t_deadline (tubof x (run ops)) <= r + CONNECTION_TIMEOUT)%Z.
Proof. exact waiting_has_armed_timer. Qed.
Print Assumptions C14_waiting_has_armed_timer.

(* the bound is not vacuous: the model never blocks the clock *)
Theorem C14_time_passes : forall ops dt, (0 < dt)%Z -> (now (run ops) < now (step (run ops) (Advance dt)))%Z.
Proof. exact time_passes. Qed.
Print Assumptions C14_time_passes.

(* when the connector is gone -- success, every attempt failed, or time-out -- nobody is left waiting *)
Theorem C14_waiters_fire : forall ops x,
  t_connector (tubof x (run ops)) = None -> t_waiters (tubof x (run ops)) = [].
Proof. exact waiters_fire. Qed.
Print Assumptions C14_waiters_fire.

(* the connector's timer (forced): every lookup that was waiting is errbacked at that moment; without an armed retry
   nobody waits afterwards (with one, the retry waits on a connector of its own: C14_waiting_has_armed_timer) -- this
   uses the order of effects read from Tub.connectionFailed (connection_failed_forgets_first) *)
Theorem C14_timeout_answers_all : forall ops x,
  let s := run ops in let s' := step s (Timeout x) in
  (t_waiters (tubof x s) <> [] -> t_connector (tubof x s) <> None) /\
  (t_retry (tubof x s) = false -> t_waiters (tubof x s') = []) /\
  (forall w r, In (w, r) (t_waiters (tubof x s)) -> t_broker (tubof x s) = None /\
     In (mkfired w r (now s) false) (t_fired (tubof x s'))).
Proof. exact timeout_answers_all. Qed.
Print Assumptions C14_timeout_answers_all.

(* "for all histories of previous connections recorded by either side": for every schedule, whenever both Tubs hold
   the same current connection, the non-master's slave_table record is exactly (master incarnation, seqnum of that
   connection) -- whoever dialled it.  (This is what lets its next offer, after a cut only it has noticed, prove
   knowledge of the master's stale connection: C14_equal_seqnum_accepted.)  Uses slave_table_recorded_always, read
   from acceptDecisionVersion1; proved with the invariant that every decision in flight on the master's current
   connection carries the master's current incarnation and seqnum (lib/ConvergeHist.v). *)
Theorem C14_slave_record_agrees : forall ops c,
  t_broker (tm (run ops)) = Some c -> t_broker (ts (run ops)) = Some c ->
  t_slave (ts (run ops)) = Some (t_inc (tm (run ops)), t_bseq (tm (run ops))).
Proof. exact slave_record_agrees. Qed.
Print Assumptions C14_slave_record_agrees.

Theorem C14_decisions_in_flight_current : forall ops c i q,
  t_broker (tm (run ops)) = Some c -> In (Decision i q) (c_qms (conns (run ops) c)) ->
  i = t_inc (tm (run ops)) /\ q = t_bseq (tm (run ops)).
Proof. exact decisions_in_flight_current. Qed.
Print Assumptions C14_decisions_in_flight_current.

(* the step that establishes it: accepting the decision on c records it and makes c current *)
Theorem C14_slave_records_decision : forall c s i q rest,
  Nat.ltb c (nconn s) = true -> c_qms (conns s c) = Decision i q :: rest -> c_s (conns s c) = EDec ->
  t_slave (ts (step s (Deliver c TS))) = Some (i, q) /\ t_broker (ts (step s (Deliver c TS))) = Some c.
Proof. exact slave_records_decision. Qed.
Print Assumptions C14_slave_records_decision.
