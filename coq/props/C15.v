(* C15 -- Keepalive and idle-disconnect timers fire when and only when they should.
   Property theorems only; proofs live in lib/TimersProofs.v.  The model (lib/Timers.v) is built on
   the fragments of banana.py translated into gen/TimersGen.v.  Time: Z milliseconds. *)
From Coq Require Import ZArith List Bool.
Import ListNotations.
Require Import Verif.lib.Token Verif.lib.Recv Verif.lib.BananaRecv Verif.lib.TimersWire Verif.lib.TimersWireProofs.
Require Import Verif.gen.RequestsGen Verif.lib.Requests Verif.lib.TimersCalls Verif.lib.TimersCallsProofs.
Require Import Verif.lib.PyLite Verif.gen.BananaGen Verif.gen.TimersGen Verif.lib.Timers Verif.lib.TimersProofs.
Require Import Verif.lib.TimersRound Verif.lib.TimersRoundProofs Verif.lib.TimersFloat Verif.lib.TimersFloatProofs.
Local Open Scope Z_scope.
(* (unqualified run / init / step / st are those of lib/Timers.v; the request table's and the byte receiver's are qualified) *)

(* "With an idle-disconnect time T configured, a connection on which no byte arrives for longer than T
   is torn down within 2T (plus scheduling slack)".  Exact bound: after any history `pre`, if nothing
   arrives any more and the reactor runs every delayed call at most d late, connectionTimedOut has
   been called by  now(pre) + 2T + EPSILON + d. *)
Theorem C15_idle_torn_down : forall c tc T d pre post,
  cT c = Some T -> 0 <= T -> 0 <= d ->
  sorted_from tc pre -> no_close pre ->
  let s := run c (init c tc) pre in
  only_ticks post -> sorted_from (now s) post -> punctual c d s post ->
  let s' := run c s post in
  now s + 2 * T + eps_ms + d < now s' ->
  exists x, In x (torn s') /\ x <= now s + 2 * T + eps_ms + d.
Proof. exact idle_torn_down. Qed.
Print Assumptions C15_idle_torn_down.

(* "... while a connection on which some byte arrives at least every T is never torn down by the timer":
   for EVERY history (late reactor turns included) in which the latest arrival is at most T old whenever
   the reactor runs *)
Theorem C15_active_kept : forall c tc T evs, cT c = Some T ->
  (forall pre t post, evs = pre ++ Tick t :: post -> t - last_arrival tc false pre <= T) ->
  torn (run c (init c tc) evs) = [].
Proof. exact active_kept. Qed.
Print Assumptions C15_active_kept.

(* "when and only when": a teardown at x happened in a reactor turn at x with the latest arrival > T old *)
Theorem C15_torn_only_when_idle : forall c tc T evs x, cT c = Some T ->
  In x (torn (run c (init c tc) evs)) ->
  exists pre post, evs = pre ++ Tick x :: post /\ T < x - last_arrival tc false pre.
Proof. exact torn_only_when_idle. Qed.
Print Assumptions C15_torn_only_when_idle.

(* the teardown callback runs at most once per connection *)
Theorem C15_teardown_at_most_once : forall c tc evs, sorted_from tc evs ->
  (List.length (torn (run c (init c tc) evs)) <= 1)%nat.
Proof. exact teardown_at_most_once. Qed.
Print Assumptions C15_teardown_at_most_once.

(* "With a keepalive time K configured, an idle connection emits a ping within 2K": a PING is written
   during the idle phase, no later than now(pre) + 2K + EPSILON + d *)
Theorem C15_ping_within : forall c tc K d pre post,
  cK c = Some K -> 0 <= K -> 0 <= d ->
  sorted_from tc pre -> no_close pre ->
  let s := run c (init c tc) pre in
  only_ticks post -> sorted_from (now s) post -> punctual c d s post ->
  let s' := run c s post in
  now s + 2 * K + eps_ms + d < now s' ->
  exists new p, pings s' = new ++ pings s /\ In p new /\ now s <= p <= now s + 2 * K + eps_ms + d.
Proof. exact ping_within. Qed.
Print Assumptions C15_ping_within.

(* ... and only then: every PING was sent in a reactor turn with the latest arrival > K old *)
Theorem C15_ping_only_when_idle : forall c tc K evs x, cK c = Some K ->
  In x (pings (run c (init c tc) evs)) ->
  exists pre post, evs = pre ++ Tick x :: post /\ K < x - last_arrival tc false pre.
Proof. exact ping_only_when_idle. Qed.
Print Assumptions C15_ping_only_when_idle.

(* "All timers are cancelled when the connection closes": after connectionLost no timer is pending,
   none is re-armed by anything that follows, and no PING / teardown is produced any more *)
Theorem C15_cancel : forall c tc pre t post, sorted_from tc pre ->
  let s := run c (init c tc) pre in
  let s' := run c s (Close t :: post) in
  ka s' = None /\ dc s' = None /\ pings s' = pings s /\ torn s' = torn s.
Proof. exact cancel_on_close. Qed.
Print Assumptions C15_cancel.

(* "every ping is answered by a pong carrying the same number, and pings/pongs may appear between any two
   tokens without disturbing the message being decoded" -- token level: what reaches the object grammar is
   the stream with PING/PONG deleted; the PONG numbers written are those of the PINGs, one each, in order *)
Theorem C15_ping_pong_stream : forall toks,
  rx_tokens toks = (filter (fun t => negb (is_pp t)) toks, map fst (filter (fun t => snd t =? tok_PING) toks)).
Proof. exact rx_tokens_spec. Qed.
Print Assumptions C15_ping_pong_stream.

Theorem C15_ping_transparent : forall pre post n,
  rx_tokens (pre ++ (n, tok_PING) :: post) =
  (fst (rx_tokens (pre ++ post)), snd (rx_tokens pre) ++ n :: snd (rx_tokens post)).
Proof. exact ping_transparent. Qed.
Print Assumptions C15_ping_transparent.

Theorem C15_pong_ignored : forall pre post n, rx_tokens (pre ++ (n, tok_PONG) :: post) = rx_tokens (pre ++ post).
Proof. exact pong_ignored. Qed.
Print Assumptions C15_pong_ignored.

(* byte level, all ping numbers below 2^448 (64 header digits): the bytes of the translated sendPING n are
   read by the header scan as (n, PING); the reply is the translated sendPONG n, read as (n, PONG) by the peer;
   a PONG is answered with nothing.  Uses the translated int2b128 / b1282int (gen/BananaGen.v). *)
Theorem C15_pong_echo : forall n, 0 <= n < 2 ^ 448 ->
  exists ping pong,
    sendPING n [] = Ok ping /\ scan_token ping = HTok n tok_PING [] /\
    reply_bytes n tok_PING = Ok pong /\ scan_token pong = HTok n tok_PONG [] /\
    reply_bytes n tok_PONG = Ok [].
Proof. exact pong_echo. Qed.
Print Assumptions C15_pong_echo.

(* ... and that range is exact: a ping number >= 2^448 is refused by the receiver's header limit *)
Theorem C15_ping_number_limit : forall n, 2 ^ 448 <= n -> exists bs, sendPING n [] = Ok bs /\ scan_token bs = HBad.
Proof. exact ping_number_too_big. Qed.
Print Assumptions C15_ping_number_limit.

(* (PING/PONG in every receiver state -- discarding, index phase, any unslicer stack: C15_ping_any_context and
   C15_ping_pong_bytes below, on C07's receiver model, which has the real discardCount / inOpen / checkToken logic) *)

(* ============================== round 5: the sentences end to end ============================== *)

(* "... is torn down within 2T (plus scheduling slack) AND ITS PENDING CALLS FAIL WITH DeadReferenceError": one Broker =
   timers (lib/Timers.v) + pending-request table and eventual queue (lib/Requests.v, C03) glued by the translated chain
   disconnectTimerFired -> connectionTimedOut -> shutdown(Failure(ConnectionLost)) -> finish ; loseConnection.
   After ANY history of a connected Broker (calls, answers, arrivals, reactor turns, queue turns), if the peer goes silent
   and the reactor is at most d late, then once the clock has passed now + 2T + EPSILON + d: connectionTimedOut ran and
   transport.loseConnection() was called no later than that; the Broker is disconnected; and when the eventual-send queue has
   run, every callRemote that was pending when the silence began has fired exactly once, with DeadReferenceError, and no
   request is left in the table. *)
Theorem C15_idle_calls_fail_with_DeadReferenceError : forall c tc T d pre post h cl,
  cT c = Some T -> 0 <= T -> 0 <= d ->
  let s := broker_run c tc pre in
  sorted_from tc (tproj pre) -> no_close (tproj pre) -> disconnected (rq s) = false ->
  Forall is_btick post -> sorted_from (now (tm s)) (tproj post) -> punctual c d (tm s) (tproj post) ->
  let s' := broker_run_from c s post in
  now (tm s) + 2 * T + eps_ms + d < now (tm s') ->
  Requests.get (rq s) h = Some cl -> c_twoway cl = true -> c_fires cl = [] ->
  (exists x, In x (lose s') /\ In x (torn (tm s')) /\ x <= now (tm s) + 2 * T + eps_ms + d) /\
  disconnected (rq s') = true /\
  table (drained s') = [] /\
  exists cl', Requests.get (drained s') h = Some cl' /\ c_fires cl' = [ODeadRef].
Proof. exact idle_calls_fail_with_DeadReferenceError. Qed.
Print Assumptions C15_idle_calls_fail_with_DeadReferenceError.

(* the timer layer of that Broker IS the model of the theorems above (so they all apply to it) ... *)
Theorem C15_broker_timers : forall c evs s, tm (broker_run_from c s evs) = run c (tm s) (tproj evs).
Proof. exact tm_run. Qed.
Print Assumptions C15_broker_timers.

(* ... and a teardown drops the transport at once: in every history loseConnection() has been called exactly at the
   times connectionTimedOut was called *)
Theorem C15_teardown_loses_connection : forall c t0 evs, lose (broker_run c t0 evs) = torn (tm (broker_run c t0 evs)).
Proof. exact lose_is_torn. Qed.
Print Assumptions C15_teardown_loses_connection.

(* "All timers are cancelled when the connection closes", every closing path: connectionLost in ANY state -- connectionMade
   never ran (negotiation failed first), already torn down by the timer, finish() already called, a second connectionLost --
   leaves no timer pending, none is ever re-armed, no PING / teardown / loseConnection follows *)
Theorem C15_cancel_from_any_state : forall c s t post,
  let s' := run c s (Close t :: post) in
  ka s' = None /\ dc s' = None /\ pings s' = pings s /\ torn s' = torn s /\ closed s' = true.
Proof. exact cancel_from_any_state. Qed.
Print Assumptions C15_cancel_from_any_state.

Theorem C15_connectionLost_cancels_timers : forall c s t r post,
  let s' := broker_run_from c s (BLost t r :: post) in
  ka (tm s') = None /\ dc (tm s') = None /\ pings (tm s') = pings (tm s) /\ torn (tm s') = torn (tm s) /\ lose s' = lose s.
Proof. exact lost_cancels_timers. Qed.
Print Assumptions C15_connectionLost_cancels_timers.

(* Broker.finish called twice (teardown then connectionLost, shutdown then connectionLost, ...): the second call changes nothing *)
Theorem C15_finish_twice : forall q r r', Requests.step (Requests.step q (Finish r)) (Finish r') = Requests.step q (Finish r).
Proof. exact finish_twice_changes_nothing. Qed.
Print Assumptions C15_finish_twice.

(* the timer teardown itself: the disconnect timer is gone for good ... *)
Theorem C15_no_disconnect_timer_after_teardown : forall c tc evs, sorted_from tc evs ->
  torn (run c (init c tc) evs) <> [] -> dc (run c (init c tc) evs) = None.
Proof. exact no_disconnect_timer_after_teardown. Qed.
Print Assumptions C15_no_disconnect_timer_after_teardown.

(* ... but the sentence is FALSE if "closes" is read as "is torn down by the timer": Broker.shutdown does not cancel the
   keepalive timer; until the transport delivers connectionLost it stays armed (and keeps writing PINGs, see
   TimersProofs.ex_ping_after_teardown, replayed on the real Broker by the correspondence) *)
Theorem C15_keepalive_survives_teardown : forall c tc K evs, cK c = Some K -> sorted_from tc evs -> no_close evs ->
  exists e, ka (run c (init c tc) evs) = Some e.
Proof. exact keepalive_survives_teardown. Qed.
Print Assumptions C15_keepalive_survives_teardown.

(* the order in which the reactor runs keepaliveTimerFired and disconnectTimerFired inside one turn is immaterial *)
Theorem C15_callback_order_immaterial : forall c evs s, fold_left (step_dc_first c) evs s = run c s evs.
Proof. exact callback_order_immaterial. Qed.
Print Assumptions C15_callback_order_immaterial.

(* "every ping is answered by a pong carrying the same number, and pings/pongs may appear between any two tokens without
   disturbing the message being decoded" -- BYTE level, every chunking, every receiver state.
   `items` is what the peer writes: stretches of arbitrary bytes and, in between, the bytes of the (translated) sendPING n /
   sendPONG n.  If every keepalive token sits between two tokens of the ordinary stream (`placed`: nothing buffered, no
   rejected body being skipped, connection not abandoned -- whatever the discard count, the unslicer stack, the index phase)
   and its number fits a header, then for EVERY way of cutting the byte stream into chunks the byte-level receiver of C07
     (1) behaves as `expect` says: the ordinary bytes are processed from the same states, each Ping n adds exactly EPong n
         at its position, each Pong n adds nothing;
     (2) the events not caused by the keepalive tokens and the final receiver state are exactly those of the stream
         WITHOUT the keepalive tokens, for every chunking of that one too;
     (3) the PONGs answer the PINGs one for one, same numbers, same order. *)
Theorem C15_ping_pong_bytes : forall c items bs cs,
  placed (Recv.init c) items = true -> wire items = Ok bs -> concat cs = bs ->
  let '(s', es) := expect (Recv.init c) items in
  bfeed_all (Recv.init c) cs = (s', map snd es) /\
  (forall cs', concat cs' = plain items -> bfeed_all (Recv.init c) cs' = (s', map snd (filter (fun e => negb (fst e)) es))) /\
  map snd (filter fst es) = map EPong (ping_numbers items).
Proof. exact woven_any_chunking. Qed.
Print Assumptions C15_ping_pong_bytes.

(* the bytes of sendPING n, n < 2^448, fed to a receiver that is between two tokens: exactly one PONG n, state unchanged;
   the bytes of sendPONG n: nothing at all *)
Theorem C15_ping_bytes_answered : forall s n bs, boundary s = true -> 0 <= n < 2 ^ 448 ->
  (sendPING n [] = Ok bs -> bfeed s bs = (s, [EPong n])) /\ (sendPONG n [] = Ok bs -> bfeed s bs = (s, [])).
Proof. exact ping_bytes_answered. Qed.
Print Assumptions C15_ping_bytes_answered.

(* token level, EVERY receiver context (any discardCount, inside or outside an OPEN's index phase, any unslicer stack, any
   schema): PING n is answered by PONG n and changes nothing; PONG n does nothing *)
(* ... and that is what the CURRENT SOURCE's handleData does: the generator's facts about it (PING/PONG exempt from the
   schema check, `sendPONG(header); continue` / `continue` in the top-level dispatch chain) give exactly the model's step *)
Theorem C15_ping_clause_is_the_sources : forall c n,
  keepalive_clause_of_source c tok_PING n = Some (step_nobody_hr c tok_PING n) /\
  keepalive_clause_of_source c tok_PONG n = Some (step_nobody_hr c tok_PONG n).
Proof. exact source_shape_is_model. Qed.
Print Assumptions C15_ping_clause_is_the_sources.

Theorem C15_ping_any_context : forall c n body,
  tok_apply c tok_PING n body = Ok' c [EPong n] /\ tok_apply c tok_PONG n body = Ok' c [].
Proof. exact ping_any_context. Qed.
Print Assumptions C15_ping_any_context.

(* ============================== round 5: robustness to floating-point rounding ============================== *)

(* The code computes with IEEE doubles: `time.time() - self.dataLastReceivedAt`, `self.<x>Timeout + EPSILON`, and the
   `seconds() + delay` of reactor.callLater are each rounded.  gen/TimersGen.v translates the callbacks with these `+` / `-`
   as parameters (`<name>_g add sub eps`; the theorems above are the instance Z.add, Z.sub, eps_ms:
   TimersRoundProofs.exact_instance); runR / initR is the same machine over ARBITRARY add / sub / eps.  For EVERY add, sub
   that are within delta of the exact result (doubles: take as time unit a power of two so small that every double in play is
   an integer -- the theorems are unit-free --, delta = half an ulp of the largest time, about 1.2e-7 s for time.time() today):
   the teardown bound degrades by exactly 3*delta, ... *)
Theorem C15_idle_torn_down_rounded : forall add sub eps delta,
  0 <= delta -> 0 <= eps -> within delta add Z.add -> within delta sub Z.sub ->
  forall c tc T d pre post,
  cT c = Some T -> 0 <= T -> 0 <= d ->
  sorted_from tc pre -> no_close pre ->
  let s := runR add sub eps c (initR add sub eps c tc) pre in
  only_ticks post -> sorted_from (now s) post -> punctualR add sub eps c d s post ->
  let s' := runR add sub eps c s post in
  now s + 2 * T + eps + 3 * delta + d < now s' ->
  exists x, In x (torn s') /\ x <= now s + 2 * T + eps + 3 * delta + d.
Proof. exact idle_torn_down_rounded. Qed.
Print Assumptions C15_idle_torn_down_rounded.

(* ... a byte at least every T - delta keeps the connection, a teardown means the latest arrival was more than T - delta old, ... *)
Theorem C15_active_kept_rounded : forall add sub eps delta,
  0 <= delta -> 0 <= eps -> within delta add Z.add -> within delta sub Z.sub ->
  forall c tc T evs, cT c = Some T ->
  (forall pre t post, evs = pre ++ Tick t :: post -> t - last_arrival tc false pre <= T - delta) ->
  torn (runR add sub eps c (initR add sub eps c tc) evs) = [].
Proof. exact active_kept_rounded. Qed.
Print Assumptions C15_active_kept_rounded.

Theorem C15_torn_only_when_idle_rounded : forall add sub eps delta,
  0 <= delta -> 0 <= eps -> within delta add Z.add -> within delta sub Z.sub ->
  forall c tc T evs x, cT c = Some T ->
  In x (torn (runR add sub eps c (initR add sub eps c tc) evs)) ->
  exists pre post, evs = pre ++ Tick x :: post /\ T - delta < x - last_arrival tc false pre.
Proof. exact torn_only_when_idle_rounded. Qed.
Print Assumptions C15_torn_only_when_idle_rounded.

(* ... and the same for the keepalive PING *)
Theorem C15_ping_within_rounded : forall add sub eps delta,
  0 <= delta -> 0 <= eps -> within delta add Z.add -> within delta sub Z.sub ->
  forall c tc K d pre post,
  cK c = Some K -> 0 <= K -> 0 <= d ->
  sorted_from tc pre -> no_close pre ->
  let s := runR add sub eps c (initR add sub eps c tc) pre in
  only_ticks post -> sorted_from (now s) post -> punctualR add sub eps c d s post ->
  let s' := runR add sub eps c s post in
  now s + 2 * K + eps + 3 * delta + d < now s' ->
  exists new p, pings s' = new ++ pings s /\ In p new /\ now s <= p <= now s + 2 * K + eps + 3 * delta + d.
Proof. exact ping_within_rounded. Qed.
Print Assumptions C15_ping_within_rounded.

Theorem C15_ping_only_when_idle_rounded : forall add sub eps delta,
  0 <= delta -> 0 <= eps -> within delta add Z.add -> within delta sub Z.sub ->
  forall c tc K evs x, cK c = Some K ->
  In x (pings (runR add sub eps c (initR add sub eps c tc) evs)) ->
  exists pre post, evs = pre ++ Tick x :: post /\ K - delta < x - last_arrival tc false pre.
Proof. exact ping_only_when_idle_rounded. Qed.
Print Assumptions C15_ping_only_when_idle_rounded.

(* the rounded machine with exact arithmetic is the machine of the exact theorems *)
Theorem C15_exact_is_an_instance : forall c evs s, runR Z.add Z.sub eps_ms c s evs = run c s evs.
Proof. exact exact_instance. Qed.
Print Assumptions C15_exact_is_an_instance.

(* ============================== IEEE binary64: delta = 2^-23 s, as a lemma ============================== *)

(* lib/TimersFloat.v models binary64 + and - of time values exactly in Z (no real numbers): a time is an integer number of
   units of 2^-U s (any U; every double of magnitude >= 2^(52-U) s is such an integer, all of them for U = 1074), the exact sum
   / difference is an integer, and the result is that integer rounded to 53 significant bits, nearest, ties to even (rnd53);
   compared with the machine's floats on every run.  A result of magnitude below 2^M units is off by at most 2^(M-54): half
   an ulp of the top binade. *)
Theorem C15_binary64_half_ulp : forall M x, 54 <= M -> Z.abs x < 2 ^ M -> Z.abs (rnd53 x - x) <= 2 ^ (M - 54).
Proof. exact rnd53_err. Qed.
Print Assumptions C15_binary64_half_ulp.

(* hence for all times below 2^31 s (fadd / fsub ARE binary64 there) every + and - is within delta = 2^-23 s = 2^(U-23) units *)
Theorem C15_binary64_within : forall U, 23 <= U ->
  within (delta64 U) (fadd U) Z.add /\ within (delta64 U) (fsub U) Z.sub /\
  (forall a b, Z.abs (a + b) < horizon U -> fadd U a b = rnd53 (a + b)) /\
  (forall a b, Z.abs (a - b) < horizon U -> fsub U a b = rnd53 (a - b)).
Proof.
  exact (fun U H => conj (fadd_within U H) (conj (fsub_within U H) (conj (fadd_is_binary64 U) (fsub_is_binary64 U)))).
Qed.
Print Assumptions C15_binary64_within.

(* the timing sentences for the callbacks run with binary64 arithmetic, time unit 2^-U s (U >= 23), eps = the double EPSILON
   in that unit: torn down by  last activity + 2T + EPSILON + 3 * 2^-23 s + reactor lateness; ... *)
Theorem C15_idle_torn_down_binary64 : forall U eps, 23 <= U -> 0 <= eps ->
  forall c tc T d pre post,
  cT c = Some T -> 0 <= T -> 0 <= d ->
  sorted_from tc pre -> no_close pre ->
  let s := runR (fadd U) (fsub U) eps c (initR (fadd U) (fsub U) eps c tc) pre in
  only_ticks post -> sorted_from (now s) post -> punctualR (fadd U) (fsub U) eps c d s post ->
  let s' := runR (fadd U) (fsub U) eps c s post in
  now s + 2 * T + eps + 3 * delta64 U + d < now s' ->
  exists x, In x (torn s') /\ x <= now s + 2 * T + eps + 3 * delta64 U + d.
Proof. exact idle_torn_down_binary64. Qed.
Print Assumptions C15_idle_torn_down_binary64.

(* ... a byte at least every T - 2^-23 s keeps the connection; a teardown means the latest arrival was more than T - 2^-23 s old; ... *)
Theorem C15_active_kept_binary64 : forall U eps, 23 <= U -> 0 <= eps ->
  forall c tc T evs, cT c = Some T ->
  (forall pre t post, evs = pre ++ Tick t :: post -> t - last_arrival tc false pre <= T - delta64 U) ->
  torn (runR (fadd U) (fsub U) eps c (initR (fadd U) (fsub U) eps c tc) evs) = [].
Proof. exact active_kept_binary64. Qed.
Print Assumptions C15_active_kept_binary64.

Theorem C15_torn_only_when_idle_binary64 : forall U eps, 23 <= U -> 0 <= eps ->
  forall c tc T evs x, cT c = Some T ->
  In x (torn (runR (fadd U) (fsub U) eps c (initR (fadd U) (fsub U) eps c tc) evs)) ->
  exists pre post, evs = pre ++ Tick x :: post /\ T - delta64 U < x - last_arrival tc false pre.
Proof. exact torn_only_when_idle_binary64. Qed.
Print Assumptions C15_torn_only_when_idle_binary64.

(* ... and a PING by  + 2K + EPSILON + 3 * 2^-23 s + lateness *)
Theorem C15_ping_within_binary64 : forall U eps, 23 <= U -> 0 <= eps ->
  forall c tc K d pre post,
  cK c = Some K -> 0 <= K -> 0 <= d ->
  sorted_from tc pre -> no_close pre ->
  let s := runR (fadd U) (fsub U) eps c (initR (fadd U) (fsub U) eps c tc) pre in
  only_ticks post -> sorted_from (now s) post -> punctualR (fadd U) (fsub U) eps c d s post ->
  let s' := runR (fadd U) (fsub U) eps c s post in
  now s + 2 * K + eps + 3 * delta64 U + d < now s' ->
  exists new p, pings s' = new ++ pings s /\ In p new /\ now s <= p <= now s + 2 * K + eps + 3 * delta64 U + d.
Proof. exact ping_within_binary64. Qed.
Print Assumptions C15_ping_within_binary64.
