(* C15 -- Keepalive and idle-disconnect timers fire when and only when they should.
   Property theorems only; proofs live in lib/TimersProofs.v.  The model (lib/Timers.v) is built on
   the fragments of banana.py translated into gen/TimersGen.v.  Time: Z milliseconds. *)
From Coq Require Import ZArith List Bool.
Import ListNotations.
Require Import Verif.lib.PyLite Verif.gen.BananaGen Verif.gen.TimersGen Verif.lib.Timers Verif.lib.TimersProofs.
Local Open Scope Z_scope.

(* "With an idle-disconnect time T configured, a connection on which no byte arrives for longer than T
   is torn down within 2T (plus scheduling slack)".  Exact bound: after any history `pre`, if nothing
   arrives any more and the reactor runs every delayed call at most d late, connectionTimedOut has
   been called by  now(pre) + 2T + EPSILON + d. *)
Theorem C15_idle_torn_down : forall c tc T d pre post,
  cT c = Some T -> 0 <= T -> 0 <= d ->
  sorted_from tc pre -> no_close pre ->
  let s := run c (init c tc) pre in
  only_ticks post -> sorted_from (now s) post -> punctual c d s post ->
  let s' := run c s post in
  now s + 2 * T + eps_ms + d < now s' ->
  exists x, In x (torn s') /\ x <= now s + 2 * T + eps_ms + d.
Proof. exact idle_torn_down. Qed.
Print Assumptions C15_idle_torn_down.

(* "... while a connection on which some byte arrives at least every T is never torn down by the timer":
   for EVERY history (late reactor turns included) in which the latest arrival is at most T old whenever
   the reactor runs *)
Theorem C15_active_kept : forall c tc T evs, cT c = Some T ->
  (forall pre t post, evs = pre ++ Tick t :: post -> t - last_arrival tc false pre <= T) ->
  torn (run c (init c tc) evs) = [].
Proof. exact active_kept. Qed.
Print Assumptions C15_active_kept.

(* "when and only when": a teardown at x happened in a reactor turn at x with the latest arrival > T old *)
Theorem C15_torn_only_when_idle : forall c tc T evs x, cT c = Some T ->
  In x (torn (run c (init c tc) evs)) ->
  exists pre post, evs = pre ++ Tick x :: post /\ T < x - last_arrival tc false pre.
Proof. exact torn_only_when_idle. Qed.
Print Assumptions C15_torn_only_when_idle.

(* the teardown callback runs at most once per connection *)
Theorem C15_teardown_at_most_once : forall c tc evs, sorted_from tc evs ->
  (List.length (torn (run c (init c tc) evs)) <= 1)%nat.
Proof. exact teardown_at_most_once. Qed.
Print Assumptions C15_teardown_at_most_once.

(* "With a keepalive time K configured, an idle connection emits a ping within 2K": a PING is written
   during the idle phase, no later than now(pre) + 2K + EPSILON + d *)
Theorem C15_ping_within : forall c tc K d pre post,
  cK c = Some K -> 0 <= K -> 0 <= d ->
  sorted_from tc pre -> no_close pre ->
  let s := run c (init c tc) pre in
  only_ticks post -> sorted_from (now s) post -> punctual c d s post ->
  let s' := run c s post in
  now s + 2 * K + eps_ms + d < now s' ->
  exists new p, pings s' = new ++ pings s /\ In p new /\ now s <= p <= now s + 2 * K + eps_ms + d.
Proof. exact ping_within. Qed.
Print Assumptions C15_ping_within.

(* ... and only then: every PING was sent in a reactor turn with the latest arrival > K old *)
Theorem C15_ping_only_when_idle : forall c tc K evs x, cK c = Some K ->
  In x (pings (run c (init c tc) evs)) ->
  exists pre post, evs = pre ++ Tick x :: post /\ K < x - last_arrival tc false pre.
Proof. exact ping_only_when_idle. Qed.
Print Assumptions C15_ping_only_when_idle.

(* "All timers are cancelled when the connection closes": after connectionLost no timer is pending,
   none is re-armed by anything that follows, and no PING / teardown is produced any more *)
Theorem C15_cancel : forall c tc pre t post, sorted_from tc pre ->
  let s := run c (init c tc) pre in
  let s' := run c s (Close t :: post) in
  ka s' = None /\ dc s' = None /\ pings s' = pings s /\ torn s' = torn s.
Proof. exact cancel_on_close. Qed.
Print Assumptions C15_cancel.

(* "every ping is answered by a pong carrying the same number, and pings/pongs may appear between any two
   tokens without disturbing the message being decoded" -- token level: what reaches the object grammar is
   the stream with PING/PONG deleted; the PONG numbers written are those of the PINGs, one each, in order *)
Theorem C15_ping_pong_stream : forall toks,
  rx_tokens toks = (filter (fun t => negb (is_pp t)) toks, map fst (filter (fun t => snd t =? tok_PING) toks)).
Proof. exact rx_tokens_spec. Qed.
Print Assumptions C15_ping_pong_stream.

Theorem C15_ping_transparent : forall pre post n,
  rx_tokens (pre ++ (n, tok_PING) :: post) =
  (fst (rx_tokens (pre ++ post)), snd (rx_tokens pre) ++ n :: snd (rx_tokens post)).
Proof. exact ping_transparent. Qed.
Print Assumptions C15_ping_transparent.

Theorem C15_pong_ignored : forall pre post n, rx_tokens (pre ++ (n, tok_PONG) :: post) = rx_tokens (pre ++ post).
Proof. exact pong_ignored. Qed.
Print Assumptions C15_pong_ignored.

(* byte level, all ping numbers below 2^448 (64 header digits): the bytes of the translated sendPING n are
   read by the header scan as (n, PING); the reply is the translated sendPONG n, read as (n, PONG) by the peer;
   a PONG is answered with nothing.  Uses the translated int2b128 / b1282int (gen/BananaGen.v). *)
Theorem C15_pong_echo : forall n, 0 <= n < 2 ^ 448 ->
  exists ping pong,
    sendPING n [] = Ok ping /\ scan_token ping = HTok n tok_PING [] /\
    reply_bytes n tok_PING = Ok pong /\ scan_token pong = HTok n tok_PONG [] /\
    reply_bytes n tok_PONG = Ok [].
Proof. exact pong_echo. Qed.
Print Assumptions C15_pong_echo.

(* ... and that range is exact: a ping number >= 2^448 is refused by the receiver's header limit *)
Theorem C15_ping_number_limit : forall n, 2 ^ 448 <= n -> exists bs, sendPING n [] = Ok bs /\ scan_token bs = HBad.
Proof. exact ping_number_too_big. Qed.
Print Assumptions C15_ping_number_limit.

(* ... in EVERY receiver state: with a discard counter d (the rest of a rejected / aborted sequence is being
   skipped) and any pattern `bad` of Violations, each PING is still answered by one PONG with its number, in
   order, and what the object grammar sees does not depend on the PING/PONG tokens *)
Theorem C15_ping_pong_any_state : forall bad toks d i,
  rx_disc bad d i toks =
  (fst (rx_disc bad d i (strip toks)), map fst (filter (fun t => snd t =? tok_PING) toks)).
Proof. intros; apply rx_disc_spec. Qed.
Print Assumptions C15_ping_pong_any_state.
