(* C13 -- Both ends of a negotiation reach the same decision or both fail.
   Property theorems only; proofs live in lib/NegotiateProofs.v. *)
From Coq Require Import ZArith List String.
Require Import Verif.lib.PyLite Verif.gen.NegotiateGen Verif.lib.Negotiate Verif.lib.NegotiateProofs Verif.lib.NegSplit Verif.lib.NegSplitProofs.
Require Import Verif.lib.NegCodec Verif.gen.NegCodecGen Verif.lib.NegCodecProofs Verif.lib.NegWire Verif.lib.NegWireProofs Verif.lib.NegRefineProofs.
Import ListNotations.
Local Open Scope Z_scope.

(* exactly one of two endpoints with distinct tub ids acts as decider *)
Theorem C13_one_decider : forall a b, ep_id a <> ep_id b -> masters a b = 1%nat.
Proof. exact one_decider. Qed.
Print Assumptions C13_one_decider.

(* "either both switch to the RPC protocol with identical parameters ... or both abandon the connection with a negotiation error".
   The full two-way statement
     forall a b oa ob, ep_id a <> ep_id b -> negotiate a b = (oa, ob) ->
       (exists p, oa = Banana p /\ ob = Banana p /\ agreed a b p) \/ (exists w1 w2, oa = Failed w1 /\ ob = Failed w2)
   is FALSE of the code and of the faithful model: sendDecision sends the decision block and switches to the RPC protocol at once
   (the version-1 protocol has no acknowledgement), so when the non-decider refuses the decision the decider already has its
   Broker and only sees the connection being lost (known finding oracle/decider-switched-before-refusal; the witness below is
   replayed on the real code on every run: both ends version 3..3, table 1..1, table 1 differs) *)
Theorem C13_agreement_two_way_refuted :
  exists a b oa ob, ep_id a <> ep_id b /\ implements_own_range a /\ implements_own_range b /\ negotiate a b = (oa, ob) /\
    ~ ((exists p, oa = Banana p /\ ob = Banana p) \/ (exists w1 w2, oa = Failed w1 /\ ob = Failed w2)) /\
    oa = SwitchedThenLost {| p_version := 3; p_vocab := 1 |} /\ ob = Failed "NegotiationError".
Proof. exact agreement_two_way_refuted. Qed.
Print Assumptions C13_agreement_two_way_refuted.

(* WEAKER than the property text, and what does hold for any two endpoints with distinct ids (no invariant assumed): both switch
   with identical parameters -- the highest common version, the highest common vocabulary index, matching table hash --, or both
   abandon before anything was created, or the DECIDER ALONE has switched (with the highest common version and table) and then
   loses the connection while the non-decider abandons.  Never the non-decider alone, never two different sets of parameters.
     both_switched m s om os        := exists p, om = Banana p /\ os = Banana p /\ agreed m s p
     both_abandoned om os           := exists w1 w2, om = Failed w1 /\ os = Failed w2
     decider_switched_alone m s om os := exists p w, om = SwitchedThenLost p /\ os = Failed w /\ best_params m s p *)
Theorem C13_agreement : forall a b oa ob,
  ep_id a <> ep_id b -> negotiate a b = (oa, ob) ->
  both_switched a b oa ob \/ both_abandoned oa ob \/
  (i_am_master (ep_id a) (ep_id b) = true /\ decider_switched_alone a b oa ob) \/
  (i_am_master (ep_id b) (ep_id a) = true /\ decider_switched_alone b a ob oa).
Proof. exact agreement. Qed.
Print Assumptions C13_agreement.

(* ... and failure is not chosen when the two sides are compatible *)
Theorem C13_success_when_compatible : forall a b,
  ep_id a <> ep_id b ->
  (exists v, in_range (ep_vmin a) (ep_vmax a) v /\ in_range (ep_vmin b) (ep_vmax b) v) ->
  (exists i, in_range (ep_vocmin a) (ep_vocmax a) i /\ in_range (ep_vocmin b) (ep_vocmax b) i) ->
  (forall i, ep_hash a i = ep_hash b i) ->
  implements_own_range a -> implements_own_range b ->     (* the class invariant asserted by Negotiation.__init__ *)
  exists p, negotiate a b = (Banana p, Banana p).
Proof. exact success_when_compatible. Qed.
Print Assumptions C13_success_when_compatible.

(* the translated best_overlap returns the greatest common element or raises iff disjoint *)
Theorem C13_best_overlap_spec : forall a b c d,
  (forall v, best_overlap a b c d = Ok v <-> (v = Z.min b d /\ a <= v /\ c <= v)) /\
  ((exists t, best_overlap a b c d = Exc t) <-> (forall v, ~ (a <= v <= b /\ c <= v <= d))).
Proof. exact best_overlap_spec. Qed.
Print Assumptions C13_best_overlap_spec.

(* oversized negotiation input is refused, stated over the verdict TRANSLATED from dataReceived (0 = refuse): a terminator beyond
   4096 bytes is refused; without a terminator the buffer is refused exactly from 4096 + 4 bytes on (4097..4099 are kept: a
   terminator that starts within the cap may still be completed by the next packet) *)
Theorem C13_header_cap :
  (forall eoh buflen, 4096 < eoh -> header_verdict eoh buflen = 0) /\
  (forall buflen, header_verdict (-1) buflen = 0 <-> 4100 <= buflen).
Proof. exact header_cap_verdict. Qed.
Print Assumptions C13_header_cap.

(* "... for all chunkings of the negotiation bytes": the block splitter of Negotiation.dataReceived
   (limits translated from the source) extracts the same header blocks, reaches the same verdict and hands
   the same bytes to the RPC layer for every way of splitting the byte stream into packets, whatever the
   phase handlers accept *)
Theorem C13_split_chunk_independent : forall (ok : list Z -> bool) k (cs cs' : list (list Z)), List.concat cs = List.concat cs' ->
  nfeed_all ok (NWait [] (S k)) cs = nfeed_all ok (NWait [] (S k)) cs'.
Proof. exact split_chunk_independent. Qed.
Print Assumptions C13_split_chunk_independent.

(* feeding packet by packet equals feeding the whole stream at once *)
Theorem C13_split_incremental_is_whole : forall (ok : list Z -> bool) k (cs : list (list Z)),
  nfeed_all ok (NWait [] (S k)) cs = nfeed ok (NWait [] (S k)) (List.concat cs).
Proof. exact split_incremental_is_whole. Qed.
Print Assumptions C13_split_incremental_is_whole.

(* "Malformed, oversized ... negotiation input only ever ends that connection attempt" -- the oversize verdict itself, read from
   Negotiation.dataReceived by symbolic execution of the statements between the terminator search and the split (any arrangement
   of the tests translates), is exactly: refuse iff the terminator lies beyond 4096 bytes or is absent with 4096 + 4 bytes buffered;
   wait iff it is absent; split otherwise.  It depends on nothing but the position of the terminator and the bytes buffered. *)
Theorem C13_header_verdict : forall eoh buflen, header_verdict eoh buflen = header_spec eoh buflen.
Proof. exact header_verdict_spec. Qed.

Print Assumptions C13_header_verdict.

(* ===================== round 5 ===================== *)

(* "For ANY two endpoints, exactly one of them acts as decider": never two; none exactly when the two ids are equal *)
Theorem C13_decider_count : forall a b, masters a b = (if list_eqb (ep_id a) (ep_id b) then 0 else 1)%nat.
Proof. exact decider_count. Qed.
Print Assumptions C13_decider_count.

Theorem C13_no_decider_iff_equal_ids : forall a b, masters a b = 0%nat <-> ep_id a = ep_id b.
Proof. exact no_decider_iff_equal_ids. Qed.
Print Assumptions C13_no_decider_iff_equal_ids.

(* ... in which case both ends fail (both wait for a decision; the attempt ends by the negotiation timeout) *)
Theorem C13_equal_ids_both_fail : forall a b, ep_id a = ep_id b -> exists w, negotiate a b = (Failed w, Failed w).
Proof. exact equal_ids_both_fail. Qed.
Print Assumptions C13_equal_ids_both_fail.

(* "either both switch ... with identical parameters ... or both abandon the connection with a negotiation error", EXACTLY: for any
   two endpoints with distinct ids that implement the versions they offer (asserted by Negotiation.__init__),
   (1) both get the same parameters (highest common version, highest common table, equal hash) iff the ranges meet and the highest
       common table has the same hash on both sides (compatible);
   (2) if the ranges do not meet -- the failure happens BEFORE a decision is sent (C13_decision_sent_iff) -- both abandon and each
       failure is a negotiation error (NegotiationError or RemoteNegotiationError; the loss of a connection is not one);
   (3) if the ranges meet but the two are not compatible -- the decision IS sent and the non-decider refuses it -- the non-decider
       abandons with NegotiationError and the decider has already switched with the highest common version and table: it ends
       SwitchedThenLost, NOT with a negotiation error.  (3) is where the code departs from the property text: see
       C13_agreement_two_way_refuted (region inhabited: refused_decision_example; (2) inhabited: no_decision_example) *)
Theorem C13_agreement_exact : forall a b,
  ep_id a <> ep_id b -> implements_own_range a -> implements_own_range b ->
  (compatible a b -> exists p, negotiate a b = (Banana p, Banana p) /\ agreed a b p) /\
  (~ ranges_meet a b -> exists w1 w2, negotiate a b = (Failed w1, Failed w2) /\ negotiation_error w1 /\ negotiation_error w2) /\
  (ranges_meet a b -> ~ compatible a b ->
     exists p, best_params a b p /\ decider_first a b (negotiate a b) = (SwitchedThenLost p, Failed "NegotiationError")).
Proof. exact agreement_exact. Qed.
Print Assumptions C13_agreement_exact.

(* the decider sends a decision exactly when both pairs of ranges meet *)
Theorem C13_decision_sent_iff : forall m s, (exists d, master_decide m s = Ok d) <-> ranges_meet m s.
Proof. exact decision_sent_iff. Qed.
Print Assumptions C13_decision_sent_iff.

(* "both abandon the connection with a negotiation error" happens exactly when the failure precedes the decision; "both switch"
   exactly when the two are compatible; in between lies the refused decision *)
Theorem C13_both_abandon_iff_no_decision : forall a b,
  ep_id a <> ep_id b -> implements_own_range a -> implements_own_range b ->
  ((exists w1 w2, negotiate a b = (Failed w1, Failed w2)) <-> ~ ranges_meet a b) /\
  ((exists p, negotiate a b = (Banana p, Banana p)) <-> compatible a b).
Proof. exact both_abandon_iff_no_decision. Qed.
Print Assumptions C13_both_abandon_iff_no_decision.

(* "the highest protocol version both support", against a decider that does NOT follow the protocol: the full statement
     forall s d p, implements_own_range s -> slave_accept s d = Ok p -> in_range (ep_vmin s) (ep_vmax s) (p_version p)
   is FALSE of the faithful model (and of the code: replayed on every run, reported as a note): the non-decider checks the
   decided version only against the accept methods its class has *)
Theorem C13_slave_checks_own_range_refuted :
  exists s d p, implements_own_range s /\ ~ in_range (ep_vmin s) (ep_vmax s) (d_version d) /\ slave_accept s d = Ok p /\ p_version p = d_version d.
Proof. exact slave_checks_own_range_refuted. Qed.
Print Assumptions C13_slave_checks_own_range_refuted.

(* ... whereas a decider that follows the protocol always decides inside the other side's ranges *)
Theorem C13_honest_decision_in_range : forall m s d,
  master_decide m s = Ok d -> in_range (ep_vmin s) (ep_vmax s) (d_version d) /\ in_range (ep_vocmin s) (ep_vocmax s) (d_vocab d).
Proof. exact honest_decision_in_range. Qed.
Print Assumptions C13_honest_decision_in_range.

(* the message codec, TRANSLATED from Negotiation.sendBlock / parseLines: every block the code can emit (keys lower-case
   without ':' / CR, values without CR and without leading blanks, valid UTF-8), followed by ANY bytes, is cut by the receiver
   at its own end -- the first terminator of the stream -- and parses back to exactly the block that was sent *)
Theorem C13_block_round_trip : forall d rest,
  d <> [] -> canonical d -> Forall wf_pair d ->
  exists wire, sendBlock d = Ok wire /\
    find_term (wire ++ rest) = Some (List.length (header_of d)) /\
    firstn (List.length (header_of d)) (wire ++ rest) = header_of d /\
    skipn (List.length (header_of d) + 4) (wire ++ rest) = rest /\
    parseLines (header_of d) = Ok d.
Proof. exact block_round_trip. Qed.
Print Assumptions C13_block_round_trip.

(* composed with the block splitter (bytes -> blocks -> dict), for EVERY packetisation of the stream: the phase handler is given
   exactly the header of the block, once, and the bytes behind it are left for the next phase *)
Theorem C13_deliver_any_chunking : forall (ok : list Z -> bool) d rest (cs : list (list Z)),
  d <> [] -> canonical d -> Forall wf_pair d -> (List.length (header_of d) <= cap)%nat ->
  List.concat cs = wire_of d ++ rest ->
  nfeed_all ok (NWait [] 1) cs = if ok (header_of d) then (NPass, [header_of d], rest) else (NDead, [header_of d], []).
Proof. exact deliver_any_chunking. Qed.
Print Assumptions C13_deliver_any_chunking.

Theorem C13_deliver_round_trip : forall d rest,
  d <> [] -> canonical d -> Forall wf_pair d -> (List.length (header_of d) <= cap)%nat -> deliver d rest = Ok (d, rest).
Proof. exact deliver_round_trip. Qed.
Print Assumptions C13_deliver_round_trip.

(* "Malformed ... negotiation input": on ARBITRARY bytes the translated parseLines returns a block or raises ValueError /
   UnicodeDecodeError, nothing else; both are caught by the catch-all of dataReceived *)
Theorem C13_parse_total : forall header,
  (exists d, parseLines header = Ok d) \/ parseLines header = Exc "ValueError" \/ parseLines header = Exc "UnicodeDecodeError".
Proof. exact parse_total. Qed.
Print Assumptions C13_parse_total.

(* every key the sender stores in a hello / decision / error block is one the receiving methods look up (all read from the source) *)
Theorem C13_keys_written_are_read :
  In hello_key_version_range_written hello_keys_read /\
  In hello_key_vocab_range_written hello_keys_read /\
  In hello_key_tubid_written hello_keys_read /\
  In error_key hello_keys_read /\
  In decision_key_version_written decision_keys_read /\
  In decision_key_vocab_written decision_keys_read /\
  In error_key decision_keys_read.
Proof. exact keys_written_are_read. Qed.
Print Assumptions C13_keys_written_are_read.

(* "out-of-order negotiation input", by content: a decision where a hello is expected, and a hello where the decision is
   expected, are refused with the negotiation error *)
Theorem C13_decision_where_hello_expected : forall hf me m offer ver dec,
  decide_wire hf m offer ver = Ok dec -> eval_hello_wire me (fst dec) = Exc "NegotiationError".
Proof. exact decision_where_hello_expected. Qed.
Print Assumptions C13_decision_where_hello_expected.

Theorem C13_hello_where_decision_expected : forall hf me e, accept_wire hf me (hello_block e) = Exc "NegotiationError".
Proof. exact hello_where_decision_expected. Qed.
Print Assumptions C13_hello_where_decision_expected.

(* a refusal reaches the other side as the remote negotiation error in both phases, for every receiver that has the accept method
   of the version stamped on error blocks -- and every class of this tree has it *)
Theorem C13_error_block_understood : forall hf me (msg : list Z),
  let blk := dset (dset [] decision_key_version_written (fmt_d error_block_version)) error_key msg in
  eval_hello_wire me blk = Exc "RemoteNegotiationError" /\
  (ep_accepts me error_block_version = true -> accept_wire hf me blk = Exc "RemoteNegotiationError").
Proof. exact error_block_understood. Qed.
Print Assumptions C13_error_block_understood.

Theorem C13_error_block_version_has_accept_method : In error_block_version class_accept_versions.
Proof. exact error_block_version_has_accept_method. Qed.
Print Assumptions C13_error_block_version_has_accept_method.

(* "Malformed, oversized or out-of-order negotiation input only ever ends that connection attempt": the phase machine whose
   dispatch, input guard and error report are TRANSLATED from Negotiation.dataReceived.  A header block in ANY legal state,
   whatever the handler makes of it, (a) is not looked at, or (b) advances along the legal order, or (c) ends the attempt:
   the object is dead, nothing else changes, and the peer is told in the way that fits the send phase reached *)
Theorem C13_block_advances_or_ends : forall s v, legal s ->
  let s' := on_block s v in
  s' = s \/
  (ns_dead s' = false /\ ns_recv s <= ns_recv s' /\ ns_send s <= ns_send s' /\ (ns_recv s < ns_recv s' \/ ns_switched s' = true)
   /\ ns_client s' = ns_client s) \/
  (ns_dead s' = true /\ ns_switched s' = ns_switched s /\ ns_recv s' = ns_recv s /\ ns_client s' = ns_client s /\
   ns_send s <= ns_send s' /\ ns_report s' = error_report (ns_send s')).
Proof. exact block_advances_or_ends. Qed.
Print Assumptions C13_block_advances_or_ends.

(* every state reached from a fresh client or server object by any sequence of blocks is legal ... *)
Theorem C13_legal_run : forall c vs, legal (run_blocks (init_state c) vs).
Proof. exact legal_run_from_init. Qed.
Print Assumptions C13_legal_run.

(* ... in legal states the `assert 0` arm of the dispatch is never taken ... *)
Theorem C13_dispatch_total_on_legal : forall s, legal s -> ns_dead s = false -> dispatch (ns_recv s) (ns_client s) <> 4.
Proof. exact dispatch_total_on_legal. Qed.
Print Assumptions C13_dispatch_total_on_legal.

(* ... and once the attempt has ended nothing that arrives later changes anything *)
Theorem C13_ended_stays_ended : forall s vs, ns_dead s = true -> run_blocks s vs = s.
Proof. exact ended_stays_ended. Qed.
Print Assumptions C13_ended_stays_ended.

(* every store to receive_phase / send_phase anywhere in the class is one the machine knows *)
Theorem C13_phase_stores_known :
  Forall (fun mv => In (snd mv) [ph_ENCRYPTED; ph_DECIDING; ph_ABANDONED]) receive_phase_stores /\
  Forall (fun mv => In (snd mv) [ph_ENCRYPTED; ph_DECIDING; ph_BANANA]) send_phase_stores.
Proof. exact phase_stores_known. Qed.
Print Assumptions C13_phase_stores_known.

(* ===================== round 5, follow-up ===================== *)

(* the size guard of the splitter model IS the verdict translated from Negotiation.dataReceived: one step of `drain` refuses, waits
   or splits exactly as header_verdict says for (buffer.find(terminator), len(buffer)); the chunk-independence theorems above are
   therefore about the translated guard *)
Theorem C13_drain_test_is_header_verdict : forall (ok : list Z -> bool) f buf k,
  drain ok (S f) buf (S k) =
    let v := header_verdict (eoh_of buf) (Z.of_nat (List.length buf)) in
    if (v =? 0)%Z then (NDead, [], [])
    else if (v =? 1)%Z then (NWait buf (S k), [], [])
    else let e := Z.to_nat (eoh_of buf) in
         let hdr := firstn e buf in
         if ok hdr then let '(s, bs, p) := drain ok f (skipn (e + 4) buf) k in (s, hdr :: bs, p)
         else (NDead, [hdr], []).
Proof. exact drain_test_is_header_verdict. Qed.
Print Assumptions C13_drain_test_is_header_verdict.

(* int("%d" % n) = n for every integer (the model of int() is tied to Python's by the correspondence) *)
Theorem C13_py_int_fmt_d : forall n, py_int (fmt_d n) = Ok n.
Proof. exact py_int_fmt_d. Qed.
Print Assumptions C13_py_int_fmt_d.

(* bytes -> blocks -> dict -> fields -> decision, end to end: for every rendering hf of table hashes as distinct blank-free ASCII
   tokens, and any two endpoints whose ids are well-formed block values and whose blocks fit the 4096-byte cap, the negotiation
   carried out over the wire -- sendBlock, the receiver's terminator search and cap, parseLines, str.split, int, the key look-ups --
   gives both ends exactly what the record-level model gives them *)
Theorem C13_wire_negotiate_eq : forall hf, token_fmt hf -> forall a b, wire_ok hf a b -> wire_ok hf b a ->
  wire_negotiate hf a b = negotiate a b.
Proof. exact wire_negotiate_eq. Qed.
Print Assumptions C13_wire_negotiate_eq.

(* ... so the exact three-way statement holds of the bytes: identical parameters (highest common version, highest common table, equal
   hash) exactly when the two are compatible; both abandon, each with a negotiation error, when the ranges do not meet (no decision
   block is written); when a decision block is written and refused, the decider has already switched and only loses the connection *)
Theorem C13_wire_agreement_exact : forall hf, token_fmt hf -> forall a b, wire_ok hf a b -> wire_ok hf b a ->
  ep_id a <> ep_id b -> implements_own_range a -> implements_own_range b ->
  (compatible a b -> exists p, wire_negotiate hf a b = (Banana p, Banana p) /\ agreed a b p) /\
  (~ ranges_meet a b -> exists w1 w2, wire_negotiate hf a b = (Failed w1, Failed w2) /\ negotiation_error w1 /\ negotiation_error w2) /\
  (ranges_meet a b -> ~ compatible a b ->
     exists p, best_params a b p /\ decider_first a b (wire_negotiate hf a b) = (SwitchedThenLost p, Failed "NegotiationError")).
Proof. exact wire_agreement_exact. Qed.
Print Assumptions C13_wire_agreement_exact.
