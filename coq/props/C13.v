(* C13 -- Both ends of a negotiation reach the same decision or both fail.
   Property theorems only; proofs live in lib/NegotiateProofs.v. *)
From Coq Require Import ZArith List String.
Require Import Verif.lib.PyLite Verif.gen.NegotiateGen Verif.lib.Negotiate Verif.lib.NegotiateProofs Verif.lib.NegSplit Verif.lib.NegSplitProofs.
Import ListNotations.
Local Open Scope Z_scope.

(* exactly one of two endpoints with distinct tub ids acts as decider *)
Theorem C13_one_decider : forall a b, ep_id a <> ep_id b -> masters a b = 1%nat.
Proof. exact one_decider. Qed.
Print Assumptions C13_one_decider.

(* either both switch to the RPC protocol with identical parameters -- the highest common
   version, the highest common vocabulary index, matching table hash -- or both fail *)
Theorem C13_agreement : forall a b oa ob,
  ep_id a <> ep_id b -> negotiate a b = (oa, ob) ->
  (exists p, oa = Banana p /\ ob = Banana p /\ agreed a b p) \/
  (exists w1 w2, oa = Failed w1 /\ ob = Failed w2).
Proof. exact agreement. Qed.
Print Assumptions C13_agreement.

(* ... and failure is not chosen when the two sides are compatible *)
Theorem C13_success_when_compatible : forall a b,
  ep_id a <> ep_id b ->
  (exists v, in_range (ep_vmin a) (ep_vmax a) v /\ in_range (ep_vmin b) (ep_vmax b) v) ->
  (exists i, in_range (ep_vocmin a) (ep_vocmax a) i /\ in_range (ep_vocmin b) (ep_vocmax b) i) ->
  (forall i, ep_hash a i = ep_hash b i) ->
  (forall v, ep_accepts a v = true) -> (forall v, ep_accepts b v = true) ->
  exists p, negotiate a b = (Banana p, Banana p).
Proof. exact success_when_compatible. Qed.
Print Assumptions C13_success_when_compatible.

(* the translated best_overlap returns the greatest common element or raises iff disjoint *)
Theorem C13_best_overlap_spec : forall a b c d,
  (forall v, best_overlap a b c d = Ok v <-> (v = Z.min b d /\ a <= v /\ c <= v)) /\
  ((exists t, best_overlap a b c d = Exc t) <-> (forall v, ~ (a <= v <= b /\ c <= v <= d))).
Proof. intros a b c d; split; [intros v; apply best_overlap_ok | apply best_overlap_exc]. Qed.
Print Assumptions C13_best_overlap_spec.

(* oversized negotiation input is refused: the cap read from dataReceived is 4096 *)
Theorem C13_header_cap : forall n, header_refused n = true <-> 4096 < n.
Proof. exact header_cap_4096. Qed.
Print Assumptions C13_header_cap.

(* "... for all chunkings of the negotiation bytes": the block splitter of Negotiation.dataReceived
   (limits translated from the source) extracts the same header blocks, reaches the same verdict and hands
   the same bytes to the RPC layer for every way of splitting the byte stream into packets, whatever the
   phase handlers accept *)
Theorem C13_split_chunk_independent : forall (ok : list Z -> bool) k (cs cs' : list (list Z)), List.concat cs = List.concat cs' ->
  nfeed_all ok (NWait [] (S k)) cs = nfeed_all ok (NWait [] (S k)) cs'.
Proof. exact split_chunk_independent. Qed.
Print Assumptions C13_split_chunk_independent.

(* feeding packet by packet equals feeding the whole stream at once *)
Theorem C13_split_incremental_is_whole : forall (ok : list Z -> bool) k (cs : list (list Z)),
  nfeed_all ok (NWait [] (S k)) cs = nfeed ok (NWait [] (S k)) (List.concat cs).
Proof. intros; apply nfeed_all_concat; apply init_stable. Qed.
Print Assumptions C13_split_incremental_is_whole.

(* "Malformed, oversized ... negotiation input only ever ends that connection attempt" -- the oversize verdict itself, read from
   Negotiation.dataReceived by symbolic execution of the statements between the terminator search and the split (any arrangement
   of the tests translates), is exactly: refuse iff the terminator lies beyond 4096 bytes or is absent with 4096 + 4 bytes buffered;
   wait iff it is absent; split otherwise.  It depends on nothing but the position of the terminator and the bytes buffered. *)
Theorem C13_header_verdict : forall eoh buflen, header_verdict eoh buflen = header_spec eoh buflen.
Proof. exact header_verdict_spec. Qed.

Print Assumptions C13_header_verdict.
