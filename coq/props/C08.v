(* C08 -- References keep their identity across the wire.
   Property theorems only; proofs live in lib/RefsProofs.v.  Model: lib/Refs.v (two parties, one connection).
   Third-party introductions: lib/Gifts.v (owners, giver B, recipient C), proofs in lib/GiftsProofs.v. *)
From Coq Require Import ZArith List Bool.
Import ListNotations.
Require Import Verif.lib.PyLite Verif.gen.RefsGen Verif.lib.Refs Verif.lib.RefsProofs Verif.lib.Gifts Verif.lib.GiftsProofs Verif.lib.GiftsCompose.
Local Open Scope Z_scope.

(* "while the receiving side still holds it, a pass-by-reference object sent any number of times over one connection
   ... always arrives as the very same proxy object": FULL statement, every history (repair of D16, ab72d65: the answer to a
   decref releases the import-table entry only if it still is the answered tracker -- read from freeYourReferenceTracker
   on every run; the proofs stop type-checking if the source deletes by anything else) *)
Theorem C08_same_proxy : forall ops,
  let s := run init ops in
  forall i t p w rest,
    lost s = false -> nth_error (h_trk (hd s)) i = Some t -> t_proxy t = Some p ->
    ch_oh s = MyRef (t_clid t) false w :: rest ->
    snd (step s RecvOH) = [EvDelivered p].
Proof. exact same_proxy. Qed.
Print Assumptions C08_same_proxy.

Theorem C08_one_proxy_per_clid : forall ops,
  let s := run init ops in
  forall i j ti tj, nth_error (h_trk (hd s)) i = Some ti -> nth_error (h_trk (hd s)) j = Some tj ->
                    t_proxy ti <> None -> t_proxy tj <> None -> t_clid ti = t_clid tj -> i = j.
Proof. exact one_proxy_per_clid. Qed.
Print Assumptions C08_one_proxy_per_clid.

(* documentation of the OLD rule (deletion by clid, before ab72d65), in the model with the rule as a parameter: under it the
   statement is refuted by the 15-step D16 history, and holds exactly for the histories that satisfy the guard safe_op *)
Theorem C08_same_proxy_refuted_under_clid_rule :
  exists ops, let s := run_k DelByClid init ops in
  exists i t p w rest,
    lost s = false /\ nth_error (h_trk (hd s)) i = Some t /\ t_proxy t = Some p /\
    ch_oh s = MyRef (t_clid t) false w :: rest /\ snd (step_k DelByClid s RecvOH) <> [EvDelivered p].
Proof. exact same_proxy_refuted_under_clid_rule. Qed.
Print Assumptions C08_same_proxy_refuted_under_clid_rule.

Theorem C08_same_proxy_guarded_any_rule : forall k ops,
  safe_run_k k init ops ->
  let s := run_k k init ops in
  forall i t p w rest,
    lost s = false -> nth_error (h_trk (hd s)) i = Some t -> t_proxy t = Some p ->
    ch_oh s = MyRef (t_clid t) false w :: rest ->
    snd (step_k k s RecvOH) = [EvDelivered p].
Proof. exact same_proxy_guarded. Qed.
Print Assumptions C08_same_proxy_guarded_any_rule.

(* the link between objects and clids: what the owner serialises for object x is a clid allocated for x, and a clid is
   allocated for exactly one object during the whole connection (so "the same object" = "the same clid") *)
Theorem C08_send_names_object : forall ops x d,
  let s := run init ops in lost s = false ->
  exists c w, ch_oh (fst (step s (Send x d))) = ch_oh s ++ [MyRef c d w] /\ In (c, x) (o_alloc (ow (fst (step s (Send x d))))).
Proof. exact send_names_object. Qed.
Print Assumptions C08_send_names_object.

Theorem C08_clid_names_one_object : forall ops,
  let s := run init ops in forall c x y, In (c, x) (o_alloc (ow s)) -> In (c, y) (o_alloc (ow s)) -> x = y.
Proof. exact alloc_functional. Qed.
Print Assumptions C08_clid_names_one_object.

(* "a proxy sent back to the side that owns the object arrives as the original object itself" and "method calls
   through any of these reach the original object": a your-reference (k = false) or a call addressed through the
   proxy (k = true) is resolved, in EVERY history, to the object its clid was allocated for *)
Theorem C08_home_and_calls_reach_original : forall ops,
  let s := run init ops in
  forall c k rest, lost s = false -> ch_ho s = ToOwner c k :: rest ->
  exists x, In (c, x) (o_alloc (ow s)) /\ snd (step s RecvHO) = [EvHome k (Some x)].
Proof. exact home_original. Qed.
Print Assumptions C08_home_and_calls_reach_original.

(* several connections to the same Tub (reconnection, loopback): a proxy is put on the wire as a bare clid only on the
   very connection it was received on -- where C08_home_and_calls_reach_original applies; on any other connection,
   even one to the same Tub, it travels as a gift carrying the object's FURL (resolution of gifts through the owning
   Tub: checked on real Tubs by the harness, not modelled) *)
Theorem C08_bare_clid_stays_on_its_connection : forall pc oc c u c',
  slice_proxy pc oc c u = WYourRef c' -> conn_id pc = conn_id oc /\ c' = c.
Proof. exact bare_clid_stays_on_its_connection. Qed.
Print Assumptions C08_bare_clid_stays_on_its_connection.

Theorem C08_other_connection_is_a_gift : forall pc oc c u,
  conn_id pc <> conn_id oc -> slice_proxy pc oc c u = WTheirRef u.
Proof. exact other_connection_is_a_gift. Qed.
Print Assumptions C08_other_connection_is_a_gift.

(* "directly or nested inside other data" for gifts: a container holding introduced references (any mixture of gifts whose
   introduction is already complete and gifts still pending when the container's CLOSE arrives) is handed to the
   application exactly when every pending introduction has completed -- never with a placeholder in place of a proxy *)
Theorem C08_container_waits_for_all_gifts : forall inputs j,
  (j <= npending inputs)%nat ->
  aa_fired (aand_complete (aand_new asyncand_init inputs) j) = Nat.eqb j (npending inputs).
Proof. exact container_waits_for_all_gifts. Qed.
Print Assumptions C08_container_waits_for_all_gifts.

(* "a proxy handed to a third party yields, after introduction, a proxy to the same original object" -- three-party model
   lib/Gifts.v, `trun tinit ops` ranges over ALL interleavings of: owners send objects to B, B gives proxies to C (any
   number of times, proxies of several owners with colliding clids), B's application drops proxies at any point, C drops
   proxies, their-references / lookups / answers / decgifts delivered (lookups and answers in any order).
   (1) what B puts on the wire for its proxy k: the proxy's FURL -- the EMPTY one (None) if the proxy's tracker carries none;
       the ghost `tr_want` is the object the proxy's (connection, clid) was allocated for (C08_clid_names_one_object on the
       owner<->B connection) *)
Theorem C08_gift_names_object : forall ops k b,
  let s := trun tinit ops in
  find_bp (bprox s) k = Some b ->
  exists id, ch_bc (fst (tstep s (TGive k))) = ch_bc s ++ [{| tr_id := id; tr_url := bp_url b; tr_want := (fst k, bp_obj b) |}].
Proof. exact give_names_object. Qed.
Print Assumptions C08_gift_names_object.

(* (2) PARTIAL (guard faithful_run: every proxy B hands on has a FURL, no owner registers a second object under a name in
       use; without it: C08_all_introductions_faithful_refuted, C08_introduction_refuted_by_name_takeover below).
       Whenever the owner processes the lookup of a gift's name -- however late, whatever B's application dropped in the
       meantime -- the name resolves, and to that very object (the answer is a my-reference for it: C08_send_names_object on
       the owner<->C connection) *)
Theorem C08_gift_lookup_finds_original_partial : forall ops i m,
  faithful_run tinit ops ->
  let s := trun tinit ops in
  nth_error (lookups s) i = Some m ->
  exists rest, answers (fst (tstep s (TLookup i))) = rest ++ [{| an_id := tr_id m; an_got := Some (tr_want m); an_want := tr_want m |}].
Proof. exact lookup_finds_original. Qed.
Print Assumptions C08_gift_lookup_finds_original_partial.

(* (3) PARTIAL (same guard): the introduction completes at C with a proxy for the object B's proxy designates (calls through
       it reach the original: C08_home_and_calls_reach_original on the owner<->C connection) *)
Theorem C08_gift_same_object_partial : forall ops i a,
  faithful_run tinit ops ->
  let s := trun tinit ops in
  nth_error (answers s) i = Some a ->
  snd (tstep s (TAnswer i)) = [EvIntro (an_id a) (Some (an_want a)) (an_want a)] /\
  In (an_want a) (cprox (fst (tstep s (TAnswer i)))).
Proof. exact intro_same_object. Qed.
Print Assumptions C08_gift_same_object_partial.

(* end to end.  FULL statement ("a proxy handed to a third party yields, after introduction, a proxy to the same original
   object", every history):
       forall ops, Forall (fun e => exists id w, e = EvIntro id (Some w) w) (trun_events tinit ops)
   PARTIAL: proved for the histories that satisfy faithful_run --
     (a) the gifted proxy's tracker has a FURL   (faithful_op (TGive k): bp_url <> None; exact: without it the gift FAILS)
     (b) no owner registers an object under a name that is in use for another object (faithful_op (TRegister ..))
   -- every event is an introduction that succeeded with the intended object (none failed, none yielded another object,
   remote_decgift never met an unknown gift). *)
Theorem C08_all_introductions_faithful_partial : forall ops,
  faithful_run tinit ops ->
  Forall (fun e => exists id w, e = EvIntro id (Some w) w) (trun_events tinit ops).
Proof. exact all_introductions_faithful_partial. Qed.
Print Assumptions C08_all_introductions_faithful_partial.

(* REFUTED without (a) -- known finding oracle/gift-not-delivered/tracker-recreated-without-url, replayed on real Tubs in every
   run.  Two-party model, connection owner <-> giver: the 12-op history (the decref window of D16: the holder forgets the
   tracker when the answer to its first decref arrives while the owner still counts the reference of a later one; the next
   my-reference is not a first one and carries no FURL) ends with a LIVE proxy p of the giver that designates object 5,
   through which calls reach 5, and whose tracker has no FURL ... *)
Theorem C08_live_proxy_without_url_refuted :
  exists ops p x, let s := run init ops in
    lost s = false /\ holds s p /\ denotes s p x /\ proxy_url s p = None /\
    ch_ho s = [Decref 1 1 2] /\
    snd (step (run s [SendHome p true; RecvHO]) RecvHO) = [EvHome true (Some x)].
Proof. exact live_proxy_without_url. Qed.
Print Assumptions C08_live_proxy_without_url_refuted.

(* ... three-party model: handed to a third party, that proxy travels as `their-reference <id> ""`; the introduction fails *)
Theorem C08_all_introductions_faithful_refuted :
  exists ops, ~ Forall (fun e => exists id w, e = EvIntro id (Some w) w) (trun_events tinit ops) /\
              trun_events tinit ops = [EvIntro 1 None (0, 5)].
Proof. exact all_introductions_faithful_refuted. Qed.
Print Assumptions C08_all_introductions_faithful_refuted.

(* ... and both composed: the export flag of the three-party history is computed from the two-party state *)
Theorem C08_gift_of_recreated_proxy_refuted :
  let s := run init urlless_ops in
  exists p, holds s p /\ denotes s p 5 /\ proxy_url s p = None /\
    trun_events tinit [TExport 0 5 1 (match proxy_url s p with Some _ => true | None => false end); TGive (0, 1); TRecvBC; TAnswer 0]
      = [EvIntro 1 None (0, 5)].
Proof. exact gift_of_recreated_proxy_refuted. Qed.
Print Assumptions C08_gift_of_recreated_proxy_refuted.

(* REFUTED without (b): _assignName takes a name over without a test; the older object's FURL then leads to the newer object *)
Theorem C08_introduction_refuted_by_name_takeover :
  trun_events tinit name_takeover_ops = [EvIntro 1 (Some (0, 20)) (0, 10)] /\ ~ faithful_run tinit name_takeover_ops.
Proof. exact introduction_refuted_by_name_takeover. Qed.
Print Assumptions C08_introduction_refuted_by_name_takeover.

(* the interface between the two models, explicit.  A `TExport o x c withurl` of lib/Gifts.v stands for a delivery on the
   connection owner <-> giver; what Gifts relies on is PROVED of lib/Refs.v for every reachable state: the giver's proxy
   designates x and keeps designating it while held (E1), a FURL its tracker carries is x's own (E2).  That there IS a FURL
   is not assumed: it is the input `withurl`, and the two-party model says exactly when a delivered proxy has one (E3). *)
Theorem C08_export_interface : forall ops c x w rest,
  let s := run init ops in
  lost s = false -> ch_oh s = MyRef c false w :: rest -> In (c, x) (o_alloc (ow s)) ->
  exists p, snd (step s RecvOH) = [EvDelivered p] /\
    let s' := fst (step s RecvOH) in
    denotes s' p x /\
    (forall ops2, lost (run s' ops2) = false -> holds (run s' ops2) p ->
       denotes (run s' ops2) p x /\ forall y, proxy_url (run s' ops2) p = Some y -> y = x).
Proof. exact export_interface. Qed.
Print Assumptions C08_export_interface.

Theorem C08_delivered_proxy_url : forall ops c w rest,
  let s := run init ops in lost s = false -> ch_oh s = MyRef c false w :: rest ->
  exists p, snd (step s RecvOH) = [EvDelivered p] /\
    proxy_url (fst (step s RecvOH)) p =
      match tab_get (h_tab (hd s)) c with
      | Some i => match nth_error (h_trk (hd s)) i with Some t => t_url t | None => None end
      | None => w
      end.
Proof. exact delivered_proxy_url. Qed.
Print Assumptions C08_delivered_proxy_url.

(* where FURLs come from: the first my-reference of an object carries it, a re-send of an object the owner still counts
   does not *)
Theorem C08_first_reference_carries_url : forall ops x d,
  let s := run init ops in lost s = false -> find_obj (o_tab (ow s)) x = None ->
  exists c, ch_oh (fst (step s (Send x d))) = ch_oh s ++ [MyRef c d (Some x)].
Proof. exact first_reference_carries_url. Qed.
Print Assumptions C08_first_reference_carries_url.

Theorem C08_resend_carries_no_url : forall ops x d e,
  let s := run init ops in lost s = false -> find_obj (o_tab (ow s)) x = Some e ->
  ch_oh (fst (step s (Send x d))) = ch_oh s ++ [MyRef (oe_clid e) d None].
Proof. exact resend_carries_no_url. Qed.
Print Assumptions C08_resend_carries_no_url.

(* "Method calls through any of these reach the original object", for the proxy a THIRD PARTY obtained by introduction: one
   theorem across the two models.  lib/Gifts.v decides which object the owner answers the recipient's lookup with (the one
   the giver's proxy designates); lib/Refs.v, as the model of the connection owner <-> recipient in any reachable state,
   carries it from the owner's slicer to the call: the answer is a my-reference whose clid is allocated for x; whenever it
   is delivered the recipient holds a proxy p; every call through p / every time p is sent home, for as long as p is held,
   is resolved by the owner to x itself.  The interface (what Gifts assumes of that connection = what Refs proves):
   RefsProofs.delivery_denotes, denotes_persists, call_names_object, call_reaches_object.  PARTIAL: the three-party half needs the
   guard faithful_run (see C08_all_introductions_faithful_partial); the two-party half holds for every history. *)
Theorem C08_gift_proxy_calls_reach_original_partial :
  forall gops i m,
    faithful_run tinit gops ->
    let g := trun tinit gops in
    nth_error (lookups g) i = Some m ->
    let x := snd (tr_want m) in
    resolve_opt g (tr_url m) = Some (tr_want m) /\
    forall rops, let s := run init rops in lost s = false ->
    exists c w, ch_oh (fst (step s (Send x false))) = ch_oh s ++ [MyRef c false w] /\
    forall ops2 w2 rest, let s2 := run (fst (step s (Send x false))) ops2 in
      lost s2 = false -> ch_oh s2 = MyRef c false w2 :: rest ->
      exists p, snd (step s2 RecvOH) = [EvDelivered p] /\
      forall ops3 k, let s3 := run (fst (step s2 RecvOH)) ops3 in
        lost s3 = false -> holds s3 p ->
        exists c', ch_ho (fst (step s3 (SendHome p k))) = ch_ho s3 ++ [ToOwner c' k] /\
        forall ops4 rest', let s4 := run (fst (step s3 (SendHome p k))) ops4 in
          lost s4 = false -> ch_ho s4 = ToOwner c' k :: rest' -> snd (step s4 RecvHO) = [EvHome k (Some x)].
Proof. exact gift_proxy_calls_reach_original_partial. Qed.
Print Assumptions C08_gift_proxy_calls_reach_original_partial.

(* the same chain inside one connection: a delivered proxy designates the object its clid was allocated for, keeps
   designating it while held, and calls through it are resolved to that object *)
Theorem C08_delivered_proxy_designates_object : forall ops c x w rest,
  let s := run init ops in
  lost s = false -> ch_oh s = MyRef c false w :: rest -> In (c, x) (o_alloc (ow s)) ->
  exists p, snd (step s RecvOH) = [EvDelivered p] /\ denotes (fst (step s RecvOH)) p x /\ lost (fst (step s RecvOH)) = false.
Proof. exact delivery_denotes. Qed.
Print Assumptions C08_delivered_proxy_designates_object.

Theorem C08_proxy_keeps_designating : forall ops ops2 p x,
  let s := run init ops in
  denotes s p x -> lost (run s ops2) = false -> holds (run s ops2) p -> denotes (run s ops2) p x.
Proof. exact denotes_persists. Qed.
Print Assumptions C08_proxy_keeps_designating.

(* "directly or nested inside other data, repeated within one call" for a value that holds a proxy handed to a third party:
   such a value (a tuple holding a gift) stands, until the introduction completes, in every place that contains it as ONE
   placeholder to which every place subscribes its update callback; when it completes, EVERY place -- any number of them, of
   any kind (argument, list item, tuple item, set member, dict value), in any order -- receives the completed value.  The
   five callbacks are re-read from the source on every run (gen: update_passes_list and its four siblings). *)
Theorem C08_shared_placeholder_reaches_every_place : forall v ps,
  fire (Some v) ps = map (fun _ => Some v) ps.
Proof. exact shared_placeholder_reaches_every_place. Qed.
Print Assumptions C08_shared_placeholder_reaches_every_place.

(* ... and that is exactly what it takes: under any table of callbacks, every place after the first one whose callback does
   not return its argument is left with nothing *)
Theorem C08_shared_placeholder_lost_after_nonpassing : forall passes ps1 k ps2 v,
  (forall x, In x ps1 -> passes x = true) -> passes k = false ->
  fire_with passes (Some v) (ps1 ++ k :: ps2) = map (fun _ => Some v) (ps1 ++ [k]) ++ map (fun _ => None) ps2.
Proof. exact shared_placeholder_lost_after_nonpassing. Qed.
Print Assumptions C08_shared_placeholder_lost_after_nonpassing.
