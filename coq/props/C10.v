(* C10 -- A failure in one call stays in that call and is reported faithfully.
   Property theorems only; proofs live in lib/FailureProofs.v and lib/SendProofs.v. *)
From Coq Require Import ZArith List String Bool.
Import ListNotations.
Require Import Verif.lib.PyLite Verif.lib.Utf8 Verif.gen.FailureGen Verif.lib.Failure Verif.lib.FailureProofs.
Require Import Verif.gen.SendGen Verif.lib.Send Verif.lib.SendProofs.
Local Open Scope Z_scope.

(* "an exception raised by the method (any type, any message text) ... fails exactly that call ... carries a prefix of
   its message ... never mistaken for a local schema problem":
   for EVERY exception -- any class name, any message text (including text that UTF-8 cannot encode, which is escaped
   \udXXX), a __str__ that raises (reflect.safe_str's text is used), any traceback text, any ancestry -- with or without
   unsafe tracebacks, getStateToCopy returns (it cannot raise inside the slicer); every field it sends satisfies the byte
   limits that the caller's FailureConstraint enforces (so the caller cannot raise a local Violation on it); and every
   field is the (escaped) original text, or -- when that is longer than the limit -- a prefix of whole characters of it
   followed by "..".  The limits on both sides, the truncate function, the error handler of the text encoding and the
   rendering of the exception value are read from the source.  No hypothesis: this is the full statement. *)
Theorem C10_failure_fits : forall unsafe e,
  exists s, get_state unsafe e = Ok s /\ failure_constraint_ok s = true /\
    field_of (escape (rendered e)) trunc_limit_value (s_value s) /\
    field_of (escape (e_type e)) trunc_limit_type (s_type s) /\
    field_of (escape (elide (if unsafe then e_stack e else default_traceback))) trunc_limit_traceback (s_traceback s) /\
    Forall2 (fun p b => field_of (escape p) trunc_limit_parents b) (e_parents e) (s_parents s).
Proof. exact failure_fits. Qed.
Print Assumptions C10_failure_fits.

(* escaping never fails and changes nothing in text that UTF-8 can encode *)
Theorem C10_escape : forall t, wf_text (escape t) /\ (wf_text t -> escape t = t).
Proof. intros t. split; [apply escape_wf|apply escape_id]. Qed.
Print Assumptions C10_escape.

(* the translated truncate obeys its limit on EVERY byte string, and cuts well-formed text at a character boundary *)
Theorem C10_truncate_fits : forall s lim, 3 < lim -> exists r, truncate s lim = Ok r /\ blen r <= lim.
Proof. exact truncate_fits. Qed.
Print Assumptions C10_truncate_fits.

Theorem C10_truncate_text : forall cps lim, 3 < lim -> forallb scalarb cps = true ->
  (blen (utf8 cps) <= lim /\ truncate (utf8 cps) lim = Ok (utf8 cps)) \/
  (lim < blen (utf8 cps) /\ exists p rest, cps = p ++ rest /\ rest <> [] /\
     truncate (utf8 cps) lim = Ok (utf8 (p ++ dots)) /\ p = take_fit (Z.to_nat (lim - 3)) cps).
Proof. exact truncate_text. Qed.
Print Assumptions C10_truncate_text.

(* every field sent is itself well-formed UTF-8 (the receiver's six.ensure_str cannot fail on it) *)
Theorem C10_field_is_utf8 : forall orig lim b, wf_text orig -> field_of orig lim b -> exists t, wf_text t /\ b = utf8 t.
Proof. exact field_is_utf8. Qed.
Print Assumptions C10_field_is_utf8.

(* "or is uniformly wrapped when the Tub is configured to hide remote exception types": for EVERY transmitted failure,
   including one whose own remote class is RemoteException (raised by the callee, or relayed by a middle party that hides
   types too); that wrap_remote_failure has no exception for such failures is read from the source *)
Theorem C10_faithful_delivery : forall expose s,
  (expose = true -> deliver expose s = Copied s) /\ (expose = false -> deliver expose s = Wrapped s).
Proof. exact deliver_spec. Qed.
Print Assumptions C10_faithful_delivery.

(* what a non-Violation exception inside a slicer does (the remaining known finding: an argument nested deeper than
   the interpreter's recursion limit raises RecursionError in slicerForObject): the connection goes down, nothing more
   is written, the siblings are lost *)
Theorem C10_crash_drops_connection : forall c pre post, up (run (init c) pre) = true ->
  let s := run (init c) (pre ++ ECrash :: post) in
  up s = false /\ out s = out (run (init c) pre) /\ log s = log (run (init c) pre).
Proof. exact crash_drops_connection. Qed.
Print Assumptions C10_crash_drops_connection.

(* "an argument or result that cannot be serialized ... fails exactly that call":
   a Violation at ANY nesting depth, of either kind (unsendable child / slicer raising), writes ABORT n; CLOSE n for
   every open sequence, innermost first, returns control to the RootSlicer, and fails that object's Deferred only *)
Theorem C10_send_abort_shape : forall s e, up s = true -> stack s <> [] -> (e = EUnsendable \/ e = ERaise) ->
  let s' := step s e in
  out s' = out s ++ unwind_all (stack s) /\ stack s' = [] /\ up s' = true /\ cnt s' = cnt s /\
  log s' = log s ++ [OAborted].
Proof. exact violation_shape. Qed.
Print Assumptions C10_send_abort_shape.

(* for EVERY sequence of slicer behaviours (all trees, all fault positions, any number of faulty objects) the stream is
   well nested: a receiver that checks every CLOSE / ABORT number against its own stack never loses sync, holds exactly
   the sender's open sequences, and has been handed exactly the objects the sender finished -- aborted ones dropped whole *)
Theorem C10_send_abort_wellformed : forall c evs,
  let s := run (init c) evs in
  let r := rrun rinit (out s) in
  rsync r = true /\ rstack r = stack s /\ rlog r = visible (log s).
Proof. exact wire_wellformed. Qed.
Print Assumptions C10_send_abort_wellformed.

(* "the connection stays up": only a non-Violation exception takes it down *)
Theorem C10_connection_stays_up : forall evs s, all_ok s evs = true -> up (run s evs) = up s.
Proof. exact stays_up. Qed.
Print Assumptions C10_connection_stays_up.

(* "every other outstanding or later call is unaffected": a fault-free object of any shape sent after ANY history
   (with any number of aborted objects in it) is written and delivered in full ... *)
Theorem C10_isolation : forall c pre b d, bal b d ->
  let s := run (init c) pre in
  up s = true -> stack s = [] ->
  let s' := run (init c) (pre ++ EPush :: b ++ [EEnd]) in
  up s' = true /\ stack s' = [] /\ log s' = log s ++ [OSent d] /\
  rlog (rrun rinit (out s')) = rlog (rrun rinit (out s)) ++ [Delivered d].
Proof. exact sibling_delivered. Qed.
Print Assumptions C10_isolation.

(* ... and the only trace a history leaves in what is written afterwards is the OPEN numbering *)
Theorem C10_isolation_numbering_only : forall c d evs,
  out (run (init (c + d)) evs) = map (shift_tok d) (out (run (init c) evs)) /\
  log (run (init (c + d)) evs) = log (run (init c) evs) /\ up (run (init (c + d)) evs) = up (run (init c) evs).
Proof. exact numbering_only. Qed.
Print Assumptions C10_isolation_numbering_only.

(* "every other outstanding or later call is unaffected", reference numbers: the sender numbers every OPEN it writes
   (and uses those numbers in `reference` sequences); a receiver that counts every OPEN -- including the ones it is
   discarding, for whatever reason and from whatever token on (`flags` is an arbitrary choice of the tokens at which one
   of its unslicers raises Violation) -- gives every OPEN the sender's number, for every sequence of slicer behaviours.
   That handleData advances objectCounter for discarded OPENs too is read from the source. *)
Theorem C10_open_numbers_in_step : forall c evs flags,
  let s := run (init c) evs in
  List.length flags = List.length (out s) ->
  let r := crun (cinit c) (combine (out s) flags) in
  cagree r = true /\ ccount r = cnt s.
Proof. exact open_numbers_in_step. Qed.
Print Assumptions C10_open_numbers_in_step.

(* "an argument ... violates a schema on either side ... fails exactly that call ... every other outstanding or later call
   is unaffected", receive side: for every sequence of slicer behaviours and EVERY choice of the tokens at which unslicers of
   the receiving side raise Violation (schema violations, unknown method/object, an `error`/`answer` for a request that was
   already retired ...), no unslicer is left on the stack, the nesting follows the sender's, and once the sender is back at
   its RootSlicer the receiver discards nothing.  That Call/Answer/ErrorUnslicer.reportViolation give their sequence up is
   read from the source. *)
Theorem C10_receiver_rejections_contained : forall c evs flags,
  let s := run (init c) evs in
  List.length flags = List.length (out s) ->
  let r := crun (cinit c) (combine (out s) flags) in
  cdown r = false /\ cdepth r = List.length (stack s) /\ (stack s = [] -> cdiscard r = false).
Proof. exact receiver_rejections_contained. Qed.
Print Assumptions C10_receiver_rejections_contained.

(* "the caller's failure identifies the remote exception's type (by class name ...)": the class object in f.type is built
   from the transmitted name alone; its __module__ + "." + __name__ (reflect.qual) is that name again *)
Theorem C10_type_name_identified : forall t, In type_name_separator t -> requal type_name_separator t = t.
Proof. intros t. apply type_name_identified. Qed.
Print Assumptions C10_type_name_identified.

(* "an argument ... that cannot be [de]serialized ... on either side ... fails exactly that call ... every other outstanding
   or later call is unaffected", arguments that become ready (or fail) asynchronously on the callee: whatever the readiness
   outcome of each delivery in the callee's inbound queue, every delivery is handled exactly once and in order -- run if its
   arguments resolved, answered with an error if they did not.  That the waiting flag is cleared on failure too is read
   from Broker.doNextCall. *)
Theorem C10_deliveries_all_handled : forall q, drain false q = map expected_handling q.
Proof. exact deliveries_all_handled. Qed.
Print Assumptions C10_deliveries_all_handled.

(* "never mistaken for a local schema problem", token level: the fields of EVERY failure satisfy the caller's
   FailureConstraint whichever of them travel as VOCAB tokens (a connection with a negotiated vocabulary table sends a field
   that is exactly a table word -- an exception message "error", "list", "none" ... -- as VOCAB).  The taster of a bounded
   ByteStringConstraint is read from the source. *)
Theorem C10_failure_fits_any_encoding : forall unsafe e vocab,
  exists s, get_state unsafe e = Ok s /\ failure_constraint_ok_enc vocab s = true.
Proof. exact failure_fits_any_encoding. Qed.
Print Assumptions C10_failure_fits_any_encoding.

(* "fails exactly that call", caller side: under every setting of the Tub's logging options, for targets with and without a
   RemoteInterface, failing a pending request fires its Deferred exactly once and raises nothing (so nothing escapes into
   dataReceived).  That the logged method name cannot raise for a missing interface name is read from the source. *)
Theorem C10_fail_fires_once : forall logging known r, p_active r = true ->
  fail_request logging known r = FailDone {| p_active := false; p_fired := S (p_fired r) |}.
Proof. exact fail_fires_once. Qed.
Print Assumptions C10_fail_fires_once.
