(* C10 -- A failure in one call stays in that call and is reported faithfully.
   Property theorems only; proofs live in lib/FailureProofs.v, lib/SendProofs.v, lib/SendRecvProofs.v, lib/RelayProofs.v, lib/CalleeProofs.v.
   How each model is tied to the source is said above each theorem: [T] translated from the source on every run, [C] hand-written
   and compared with the real code by a vm_compute correspondence on every run, [S] its deciding boolean / constant is a shape
   fact read from the source. *)
From Coq Require Import ZArith List String Bool.
Import ListNotations.
Require Import Verif.lib.PyLite Verif.lib.Utf8 Verif.gen.FailureGen Verif.lib.Failure Verif.lib.FailureProofs.
Require Import Verif.gen.SendGen Verif.lib.Send Verif.lib.SendProofs.
Require Import Verif.gen.BananaGen Verif.lib.SendRecv Verif.lib.SendRecvProofs Verif.lib.Relay Verif.lib.RelayProofs.
Require Import Verif.gen.CalleeGen Verif.lib.Callee Verif.lib.CalleeProofs.
Require Verif.lib.Recv Verif.lib.BananaRecv.
Module BR := Verif.lib.BananaRecv.
Local Open Scope Z_scope.

(* "an exception raised by the method (any type, any message text) ... fails exactly that call ... carries a prefix of
   its message ... never mistaken for a local schema problem":
   [T get_state = get_state_src, FailureSlicer.getStateToCopy executed symbolically statement by statement (gen/FailureGen.v: the order of
   rendering, truncations, elision, the unsafeTracebacks branch, the parents loop), on the translated truncate and the limits read at the
   call sites; C byte for byte against the real FailureSlicer]  for EVERY exception raised on the callee (FailureSlicer; a CopiedFailure that a
   middle party sends on goes through CopiedFailureSlicer instead: C10_relay_end_to_end) WHOSE CLASS CAN BE NAMED -- any class name, any
   message text (including text that UTF-8 cannot encode, which is escaped \udXXX), a __str__ that raises (reflect.safe_str's text is
   used), any traceback text, any ancestry -- with or without unsafe tracebacks, getStateToCopy returns (it does not raise inside the
   slicer); every field it sends satisfies the byte limits that the caller's FailureConstraint enforces (so the caller cannot raise a
   local Violation on it); and every field is the (escaped) original text, or -- when that is longer than the limit -- a prefix of
   whole characters of it followed by "..".  The limits on both sides, the truncate function, the error handler of the text encoding
   and the rendering of the exception value are read from the source.
   WEAKER THAN THE PROPERTY ("exceptions of any class"), and said so: the hypothesis `e_type e = Ok ty` / `e_parents e = Ok pa` --
   reflect.qual(obj.type) and obj.parents (reflect.qual of every class of the MRO) return -- is NOT discharged by the code:
   getStateToCopy calls them unguarded, and reflect.qual is `clazz.__module__ + "." + clazz.__name__`, a TypeError for
   type("NoMod", (Exception,), {"__module__": None}).  (Until review 2 the model took both as ready-made texts and this theorem
   claimed "no hypothesis".)  The excluded region is C10_failure_unnameable_refuted; the guard is exact: C10_failure_returns_iff. *)
Theorem C10_failure_fits : forall unsafe e ty pa, e_type e = Ok ty -> e_parents e = Ok pa ->
  exists s, get_state unsafe e = Ok s /\ failure_constraint_ok s = true /\
    field_of (escape (rendered e)) trunc_limit_value (s_value s) /\
    field_of (escape ty) trunc_limit_type (s_type s) /\
    field_of (escape (elide (if unsafe then e_stack e else default_traceback))) trunc_limit_traceback (s_traceback s) /\
    Forall2 (fun p b => field_of (escape p) trunc_limit_parents b) pa (s_parents s).
Proof. exact failure_fits. Qed.
Print Assumptions C10_failure_fits.

(* the region the hypothesis of C10_failure_fits excludes, where the property's statement is FALSE of the faithful model and of
   the code (known finding oracle/sibling-affected/exception-class-without-module, replayed on real Brokers by harness/c10.py: both
   Brokers disconnected, siblings and later calls get DeadReferenceError): for a class that cannot be named -- its own __module__, or
   that of any class of its MRO, is not a string -- getStateToCopy raises, inside Banana.produce ...  (nameable e = the two
   hypotheses above as one boolean; inside the guard: FailureProofs.ex_surrogate_and_badstr, ex_ancestry; outside: ex_unnameable) *)
Theorem C10_failure_unnameable_refuted : forall unsafe e, nameable e = false -> exists t, get_state unsafe e = Exc t.
Proof. exact failure_unnameable_raises. Qed.
Print Assumptions C10_failure_unnameable_refuted.

(* ... and for no other exception: getStateToCopy returns if and only if the class and every ancestor can be named *)
Theorem C10_failure_returns_iff : forall unsafe e, (exists s, get_state unsafe e = Ok s) <-> nameable e = true.
Proof. exact get_state_returns_iff. Qed.
Print Assumptions C10_failure_returns_iff.

(* escaping never fails and changes nothing in text that UTF-8 can encode *)
Theorem C10_escape : forall t, wf_text (escape t) /\ (wf_text t -> escape t = t).
Proof. exact escape_spec. Qed.
Print Assumptions C10_escape.

(* the translated truncate obeys its limit on EVERY byte string, and cuts well-formed text at a character boundary *)
Theorem C10_truncate_fits : forall s lim, 3 < lim -> exists r, truncate s lim = Ok r /\ blen r <= lim.
Proof. exact truncate_fits. Qed.
Print Assumptions C10_truncate_fits.

Theorem C10_truncate_text : forall cps lim, 3 < lim -> forallb scalarb cps = true ->
  (blen (utf8 cps) <= lim /\ truncate (utf8 cps) lim = Ok (utf8 cps)) \/
  (lim < blen (utf8 cps) /\ exists p rest, cps = p ++ rest /\ rest <> [] /\
     truncate (utf8 cps) lim = Ok (utf8 (p ++ dots)) /\ p = take_fit (Z.to_nat (lim - 3)) cps).
Proof. exact truncate_text. Qed.
Print Assumptions C10_truncate_text.

(* every field sent is itself well-formed UTF-8 (the receiver's six.ensure_str cannot fail on it) *)
Theorem C10_field_is_utf8 : forall orig lim b, wf_text orig -> field_of orig lim b -> exists t, wf_text t /\ b = utf8 t.
Proof. exact field_is_utf8. Qed.
Print Assumptions C10_field_is_utf8.

(* [S wrap_is_unconditional, wrap_when_expose_is; C deliver against ErrorUnslicer.receiveClose + wrap_remote_failure]  By itself this
   is the two shape facts restated (deliver is a two-line function); the observable statement is C10_hidden_is_uniform.
   "or is uniformly wrapped when the Tub is configured to hide remote exception types": for EVERY transmitted failure,
   including one whose own remote class is RemoteException (raised by the callee, or relayed by a middle party that hides
   types too); that wrap_remote_failure has no exception for such failures is read from the source *)
Theorem C10_faithful_delivery : forall expose s,
  (expose = true -> deliver expose s = Copied s) /\ (expose = false -> deliver expose s = Wrapped s).
Proof. exact deliver_spec. Qed.
Print Assumptions C10_faithful_delivery.

(* what a non-Violation exception inside a slicer does (the remaining known finding: an argument nested deeper than
   the interpreter's recursion limit raises RecursionError in slicerForObject): the connection goes down, nothing more
   is written, the siblings are lost *)
Theorem C10_crash_drops_connection : forall c pre post, up (run (init c) pre) = true ->
  let s := run (init c) (pre ++ ECrash :: post) in
  up s = false /\ out s = out (run (init c) pre) /\ log s = log (run (init c) pre).
Proof. exact crash_drops_connection. Qed.
Print Assumptions C10_crash_drops_connection.

(* "an argument or result that cannot be serialized ... fails exactly that call":
   a Violation at ANY nesting depth, of either kind (unsendable child / slicer raising), writes ABORT n; CLOSE n for
   every open sequence, innermost first, returns control to the RootSlicer, and fails that object's Deferred only *)
Theorem C10_send_abort_shape : forall s e, up s = true -> stack s <> [] -> (e = EUnsendable \/ e = ERaise) ->
  let s' := step s e in
  out s' = out s ++ unwind_all (stack s) /\ stack s' = [] /\ up s' = true /\ cnt s' = cnt s /\
  log s' = log s ++ [OAborted].
Proof. exact violation_shape. Qed.
Print Assumptions C10_send_abort_shape.

(* for EVERY sequence of slicer behaviours (all trees, all fault positions, any number of faulty objects) the stream is
   well nested: a receiver that checks every CLOSE / ABORT number against its own stack never loses sync, holds exactly
   the sender's open sequences, and has been handed exactly the objects the sender finished -- aborted ones dropped whole *)
Theorem C10_send_abort_wellformed : forall c evs,
  let s := run (init c) evs in
  let r := rrun rinit (out s) in
  rsync r = true /\ rstack r = stack s /\ rlog r = visible (log s).
Proof. exact wire_wellformed. Qed.
Print Assumptions C10_send_abort_wellformed.

(* [S the handlers of Banana.produce; C `up` of run against Broker.disconnected in the send correspondence of every batch]
   "the connection stays up": only a non-Violation exception takes it down.  (By construction of `step`: the content is which
   events exist and which of them are Violations, i.e. the shape facts of produce's two `except Violation` sites and its catch-all.) *)
Theorem C10_connection_stays_up : forall evs s, all_ok s evs = true -> up (run s evs) = up s.
Proof. exact stays_up. Qed.
Print Assumptions C10_connection_stays_up.

(* "every other outstanding or later call is unaffected": a fault-free object of any shape sent after ANY history
   (with any number of aborted objects in it) is written and delivered in full ... *)
Theorem C10_isolation : forall c pre b d, bal b d ->
  let s := run (init c) pre in
  up s = true -> stack s = [] ->
  let s' := run (init c) (pre ++ EPush :: b ++ [EEnd]) in
  up s' = true /\ stack s' = [] /\ log s' = log s ++ [OSent d] /\
  rlog (rrun rinit (out s')) = rlog (rrun rinit (out s)) ++ [Delivered d].
Proof. exact sibling_delivered. Qed.
Print Assumptions C10_isolation.

(* ... and the only trace a history leaves in what is written afterwards is the OPEN numbering *)
Theorem C10_isolation_numbering_only : forall c d evs,
  out (run (init (c + d)) evs) = map (shift_tok d) (out (run (init c) evs)) /\
  log (run (init (c + d)) evs) = log (run (init c) evs) /\ up (run (init (c + d)) evs) = up (run (init c) evs).
Proof. exact numbering_only. Qed.
Print Assumptions C10_isolation_numbering_only.

(* "every other outstanding or later call is unaffected", reference numbers: the sender numbers every OPEN it writes
   (and uses those numbers in `reference` sequences); a receiver that counts every OPEN -- including the ones it is
   discarding, for whatever reason and from whatever token on (`flags` is an arbitrary choice of the tokens at which one
   of its unslicers raises Violation) -- gives every OPEN the sender's number, for every sequence of slicer behaviours.
   That handleData advances objectCounter for discarded OPENs too is read from the source. *)
Theorem C10_open_numbers_in_step : forall c evs flags,
  let s := run (init c) evs in
  List.length flags = List.length (out s) ->
  let r := crun (cinit c) (combine (out s) flags) in
  cagree r = true /\ ccount r = cnt s.
Proof. exact open_numbers_in_step. Qed.
Print Assumptions C10_open_numbers_in_step.

(* [S pb_unslicers_propagate; C cstep against the real Banana.handleData + PB unslicers, token by token, both directions of every
   batch, with the real handleViolation calls as flags]  The counting receiver is an ABSTRACTION of handleData under the shape fact
   "every PB unslicer's reportViolation returns the failure": its `cdown` is constant and its `cdepth` counts OPEN/CLOSE only, so
   of the three conclusions only the third (discarding ends with the top-level object) says something about rejections, and it is
   coded into cstep's CLOSE clause.  By itself it does not say that discarding ever STARTS (review 2: a receiver that ignored ABORT
   satisfies it): that is C10_abort_discards_whole_object below.  What constrains the discardCount arithmetic of handleViolation is
   the correspondence, and -- as a theorem -- C10_real_receiver_in_step_partial below, stated on C07's statement-by-statement
   transcription of handleData.
   "an argument ... violates a schema on either side ... fails exactly that call ... every other outstanding or later call
   is unaffected", receive side: for every sequence of slicer behaviours and EVERY choice of the tokens at which unslicers of
   the receiving side raise Violation (schema violations, unknown method/object, an `error`/`answer` for a request that was
   already retired ...), no unslicer is left on the stack, the nesting follows the sender's, and once the sender is back at
   its RootSlicer the receiver discards nothing.  That Call/Answer/ErrorUnslicer.reportViolation give their sequence up is
   read from the source. *)
Theorem C10_receiver_rejections_contained : forall c evs flags,
  let s := run (init c) evs in
  List.length flags = List.length (out s) ->
  let r := crun (cinit c) (combine (out s) flags) in
  cdown r = false /\ cdepth r = List.length (stack s) /\ (stack s = [] -> cdiscard r = false).
Proof. exact receiver_rejections_contained. Qed.
Print Assumptions C10_receiver_rejections_contained.

(* "an argument ... that cannot be serialized ... fails exactly that call", what the receiver does with the sender's ABORT [C as above]:
   an ABORT inside a sequence (handleSendViolation writes one for every open sequence of the failed object) starts discarding, and
   for EVERY continuation that stays inside that top-level object (`inside`: the nesting never returns to 0) -- any tokens, any
   choice of tokens at which the receiver's own unslicers raise -- the receiver goes on discarding: nothing of an aborted call is
   handed on after the ABORT.  Together with the third conclusion above: discarding lasts exactly to the end of that object.
   (Non-vacuity on the sender's own stream: SendProofs.ex_abort_discards.) *)
Theorem C10_abort_discards_whole_object : forall c n v ts flags, (1 <= cdepth c)%nat -> List.length flags = List.length ts ->
  inside (cdepth c) ts = true ->
  let r := crun (cstep c (TAbort n, v)) (combine ts flags) in
  cdiscard r = true /\ cdepth r = dep (cdepth c) ts.
Proof. exact abort_discards_whole_object. Qed.
Print Assumptions C10_abort_discards_whole_object.

(* "the caller's failure identifies the remote exception's type (by class name ...)": the class object in f.type is built
   from the transmitted name alone; its __module__ + "." + __name__ (reflect.qual) is that name again *)
Theorem C10_type_name_identified : forall t, In type_name_separator t -> requal type_name_separator t = t.
Proof. exact (type_name_identified type_name_separator). Qed.
Print Assumptions C10_type_name_identified.

(* [S ready_flag_cleared_on_failure; C drain against the instrumented Broker.scheduleCall / _doCall / callFailed of every batch]
   With the flag read as true `drain false` IS `map expected_handling`: the theorem restates the shape fact; the content is the
   correspondence (real arrival order and real readiness outcomes in, real handling out).
   "an argument ... that cannot be [de]serialized ... on either side ... fails exactly that call ... every other outstanding
   or later call is unaffected", arguments that become ready (or fail) asynchronously on the callee: whatever the readiness
   outcome of each delivery in the callee's inbound queue, every delivery is handled exactly once and in order -- run if its
   arguments resolved, answered with an error if they did not.  That the waiting flag is cleared on failure too is read
   from Broker.doNextCall. *)
Theorem C10_deliveries_all_handled : forall q, drain false q = map expected_handling q.
Proof. exact deliveries_all_handled. Qed.
Print Assumptions C10_deliveries_all_handled.

(* "never mistaken for a local schema problem", token level: the fields of EVERY failure satisfy the caller's
   FailureConstraint whichever of them travel as VOCAB tokens (a connection with a negotiated vocabulary table sends a field
   that is exactly a table word -- an exception message "error", "list", "none" ... -- as VOCAB).  The taster of a bounded
   ByteStringConstraint is read from the source. *)
Theorem C10_failure_fits_any_encoding : forall unsafe e vocab, nameable e = true ->
  exists s, get_state unsafe e = Ok s /\ failure_constraint_ok_enc vocab s = true.
Proof. exact failure_fits_any_encoding. Qed.
Print Assumptions C10_failure_fits_any_encoding.

(* [S log_name_has_fallback; C fail_request against the real PendingRequest.fail, all 8 settings]  (C03 translates PendingRequest.fail
   statement by statement for "exactly once"; this theorem only adds that the optional logging block cannot raise.)
   "fails exactly that call", caller side: under every setting of the Tub's logging options, for targets with and without a
   RemoteInterface, failing a pending request fires its Deferred exactly once and raises nothing (so nothing escapes into
   dataReceived).  That the logged method name cannot raise for a missing interface name is read from the source. *)
Theorem C10_fail_fires_once : forall logging known r, p_active r = true ->
  fail_request logging known r = FailDone {| p_active := false; p_fired := S (p_fired r) |}.
Proof. exact fail_fires_once. Qed.
Print Assumptions C10_fail_fires_once.

(* "The caller's failure identifies the remote exception's type (by class name ...) and carries a prefix of its message":
   a class name / a message that UTF-8 can encode and that fits the limit (200 / 1000 bytes) arrives byte for byte
   (C10_failure_fits covers the rest: escaped, or a whole-character prefix + "..") *)
Theorem C10_type_and_message_exact : forall unsafe e s ty, get_state unsafe e = Ok s -> e_type e = Ok ty ->
  (wf_text ty -> blen (utf8 ty) <= trunc_limit_type -> s_type s = utf8 ty) /\
  (wf_text (rendered e) -> blen (utf8 (rendered e)) <= trunc_limit_value -> s_value s = utf8 (rendered e)).
Proof. exact type_and_message_exact. Qed.
Print Assumptions C10_type_and_message_exact.

(* "(... and ancestry)": the transmitted ancestry has the length (and, by C10_failure_fits' Forall2, the order) of the
   original one; check()/trap() on the caller -- a membership test on these strings -- finds every ancestor whose name
   fits, whatever was truncated around it; and every transmitted entry is the field of an original ancestor *)
Theorem C10_ancestry_preserved : forall unsafe e s pa, get_state unsafe e = Ok s -> e_parents e = Ok pa ->
  List.length (s_parents s) = List.length pa /\
  (forall n, In n pa -> wf_text n -> blen (utf8 n) <= trunc_limit_parents ->
             delivered_check (Copied s) (utf8 n) = true) /\
  (forall b, delivered_check (Copied s) b = true ->
             exists p, In p pa /\ field_of (escape p) trunc_limit_parents b).
Proof. exact ancestry_preserved. Qed.
Print Assumptions C10_ancestry_preserved.

(* the ancestry is transmitted entry by entry: every prefix of the original ancestry gives the same prefix of the
   transmitted one and leaves the other fields alone (no entry, and no limit, depends on another entry) *)
Theorem C10_ancestry_prefix_closed : forall unsafe e s k pa, get_state unsafe e = Ok s -> e_parents e = Ok pa ->
  exists s', get_state unsafe {| e_type := e_type e; e_str := e_str e; e_fallback := e_fallback e; e_stack := e_stack e;
                                 e_parents := Ok (firstn k pa) |} = Ok s' /\
             s_parents s' = firstn k (s_parents s) /\ s_type s' = s_type s /\ s_value s' = s_value s /\
             s_traceback s' = s_traceback s.
Proof. exact ancestry_prefix_closed. Qed.
Print Assumptions C10_ancestry_prefix_closed.

(* "or is uniformly wrapped when the Tub is configured to hide remote exception types": what the caller can learn from
   f.type and from check()/trap() is the same for EVERY transmitted failure (a Violation, a RemoteException raised or
   relayed by the far side, anything): RemoteException and its own ancestry (read from tokens.py) *)
Theorem C10_hidden_is_uniform : forall s1 s2 n,
  delivered_check (deliver false s1) n = delivered_check (deliver false s2) n /\
  delivered_type (deliver false s1) = delivered_type (deliver false s2) /\
  delivered_check (deliver false s1) remote_exception_name = true /\
  delivered_type (deliver false s1) = remote_exception_name.
Proof. exact hidden_is_uniform. Qed.
Print Assumptions C10_hidden_is_uniform.

(* the second sentence of the property, end to end, by composition of the theorems above: for EVERY exception whose class can be
   named (the hypothesis of C10_failure_fits, not discharged by the code: C10_failure_unnameable_refuted) and both
   settings of both options the report reaches the caller's Deferred -- getStateToCopy does not raise, the caller's
   FailureConstraint accepts ("never mistaken for a local schema problem") -- wrapped iff types are hidden; exposed: the type
   name and every ancestor that fit are identified; hidden: RemoteException, uniformly *)
Theorem C10_report_end_to_end : forall unsafe expose e ty pa, e_type e = Ok ty -> e_parents e = Ok pa ->
  exists s, get_state unsafe e = Ok s /\
    report unsafe expose e = Ok (if expose then Copied s else Wrapped s) /\
    (expose = true -> wf_text ty -> blen (utf8 ty) <= trunc_limit_type ->
       delivered_type (deliver expose s) = utf8 ty) /\
    (expose = true -> forall n, In n pa -> wf_text n -> blen (utf8 n) <= trunc_limit_parents ->
       delivered_check (deliver expose s) (utf8 n) = true) /\
    (expose = false -> delivered_type (deliver expose s) = remote_exception_name /\
       forall n, delivered_check (deliver expose s) n = existsb (list_eqb n) remote_exception_parents).
Proof. exact report_end_to_end. Qed.
Print Assumptions C10_report_end_to_end.

(* "the connection stays up and every other outstanding or later call is unaffected", on the receive model of C07
   (lib/BananaRecv.v: Banana.handleData / handleOpen / handleToken / handleClose / handleViolation transcribed -- discardCount,
   inOpen, receiveStack, objectCounter -- not the stricter framing checker of lib/Send.v).  For EVERY sequence of slicer
   behaviours of the sender, every wire form `pay` of its primitive tokens, every policy of the receiving root and every
   vocabulary (hence every pattern of Violations raised by the receiving unslicers), as long as the receiving Banana has not
   dropped the connection: its nesting is the sender's slicer stack depth, its objectCounter advanced by the sender's
   openCount advance, and whenever the sender is back at its RootSlicer the receiver is back at top level (discardCount 0,
   only the root unslicer, no index phase).
   _partial: the hypothesis `received .. = Ok' ..` (the receiving Banana did not drop the connection) is NOT discharged.  It cannot
   be dropped outright: BananaRecv ends the connection (Fatal') in these cases, and the first four depend on the CONTENT of the
   primitive tokens and on the receiving policy, which `pay` / `mode` / `voc` leave arbitrary -- they are the receiver's own
   BananaErrors, not framing faults: (1) checkToken of a kind-B policy unslicer raises BananaError for whatever it is offered
   (incl. OPEN); (2) a VOCAB token whose index is not in the table (KeyError); (3) a LIST / ERROR / invalid type byte as payload;
   (4) an index token that is not ASCII (the model abstains); and the three framing cases (5) CLOSE whose number differs from
   the top unslicer's openCount ("lost sync"), (6) CLOSE with only the root on the stack, (7) OPEN while the index phase of the
   previous OPEN is still running.  For (5)-(7) what is missing is an invariant proof over tok_apply: "the f_open numbers of the
   unslicers above the root are the sender's stack below its top (discardCount + pending index phase) entries, and inboundOpenCount
   is the number of the pending OPEN", together with two hypotheses that the event language of lib/Send.v does not carry: every
   EPush is followed by at least one primitive token before the next EPush / EEnd (every real Slicer yields its opentype first),
   and that token completes the opentype for the receiver (no OWait).  The same facts ARE established for the number-checking
   receiver of lib/Send.v (C10_send_abort_wellformed: never out of sync, for every event list) and compared token by token with
   the real Banana.handleData by the correspondence. *)
Theorem C10_real_receiver_in_step_partial : forall c evs mode voc pay c' es,
  (forall z, is_payload (pay z) = true) ->
  let s := run (init c) evs in
  received mode voc pay s = BR.Ok' c' es ->
  BR.open_depth c' = Z.of_nat (List.length (stack s)) /\
  open_counter_step * BR.objctr c' = cnt s - c /\
  (stack s = [] -> BR.at_top c') /\
  BR.rootmode c' = mode /\ BR.vocab c' = voc.
Proof. exact real_receiver_in_step. Qed.
Print Assumptions C10_real_receiver_in_step_partial.

(* ... so a further object written after ANY history that left the RootSlicer in charge meets a C07 receiver that is at
   top level, and leaves it at top level: the history reaches the sibling only through the counters *)
Theorem C10_sibling_after_any_history_partial : forall c pre more mode voc pay c2 es2,
  (forall z, is_payload (pay z) = true) ->
  stack (run (init c) pre) = [] -> stack (run (init c) (pre ++ more)) = [] ->
  received mode voc pay (run (init c) (pre ++ more)) = BR.Ok' c2 es2 ->
  BR.at_top c2 /\
  exists c1 es1 es', received mode voc pay (run (init c) pre) = BR.Ok' c1 es1 /\ BR.at_top c1 /\
                     es2 = es1 ++ es' /\
                     open_counter_step * (BR.objctr c2 - BR.objctr c1) = cnt (run (init c) (pre ++ more)) - cnt (run (init c) pre).
Proof. exact sibling_after_any_history. Qed.
Print Assumptions C10_sibling_after_any_history_partial.

(* the RELAY path (A calls B, B calls C, C fails; B sends its CopiedFailure on through CopiedFailureSlicer.getStateToCopy, which
   does not truncate and rebuilds the type name with reflect.qual of the stand-in class).  [S the statement list of that function;
   C relay_state against the real CopiedFailureSlicer]  For EVERY exception of a class that can be named (C10_failure_fits'
   hypothesis) and whose qualified name has a dot (reflect.qual: module + "." + name, always), every tracebacks setting at C and at B and both expose settings at A: the relayed report reaches
   A's Deferred -- B's slicer does not raise, A's FailureConstraint accepts -- with the type name, message and ancestry C sent *)
Theorem C10_relay_end_to_end : forall unsafe_c unsafe_b expose_a e ty pa, e_type e = Ok ty -> e_parents e = Ok pa -> In 46 ty ->
  exists s, get_state unsafe_c e = Ok s /\
    relayed_report unsafe_c unsafe_b expose_a e = Ok (deliver expose_a (relay_state unsafe_b s)) /\
    s_type (relay_state unsafe_b s) = s_type s /\ s_value (relay_state unsafe_b s) = s_value s /\
    s_parents (relay_state unsafe_b s) = s_parents s.
Proof. exact relay_end_to_end. Qed.
Print Assumptions C10_relay_end_to_end.

(* without the dot the statement is false of the model: qual() of the stand-in class prepends "." to a dotless name, one
   byte more than was received, and a 200-byte name no longer fits A's FailureConstraint.  Not reachable from foolscap's own
   FailureSlicer (reflect.qual always contains a dot); a peer that writes its own `copyable` could send such a name to B. *)
Theorem C10_relay_dotless_refuted : exists s, failure_constraint_ok s = true /\ failure_constraint_ok (relay_state true s) = false.
Proof. exact relay_dotless_refuted. Qed.
Print Assumptions C10_relay_dotless_refuted.

(* "A problem that belongs to a single call ... fails exactly that call", the CALLEE's side: from the moment the request id of an
   inbound `call` is known to the `answer` / `error` handed to Broker.send.  [T Broker.callFailed, Broker._callFinished, the Deferred
   chain of Broker.doNextCall and CallUnslicer.reportViolation are translated statement by statement (gen/CalleeGen.v) and
   interpreted by lib/Callee.v; C: the interpreted programs against the instrumented callee Broker of every batch]
   For EVERY history of inbound calls with distinct request ids -- rejected by the CallUnslicer (unknown object, unknown method,
   argument the schema rejects, the caller's ABORT) or delivered; arguments ready or not (gifts); the method returning, raising
   anything, or not existing; the result accepted or not by the callee's schema; the answer serializable or not; any logging setting
   -- every call gets exactly the replies the property promises: one `answer` or `error`, none for a call the caller itself
   aborted; nothing is swallowed; the connection stays up.  WHICH reply, with what in it: C10_history_replies below.
   inbound_ok = non-zero id and, per call, the EXACT guard (C10_delivery_guard_exact / C10_rejected_guard_exact: the connection
   survives the call if and only if it holds): the message that is due can be serialized without a non-Violation exception --
   when an `error` is due (must_fail, or a rejection that is not the caller's ABORT) the exception's class can be named (FailureSlicer
   returns exactly then: C10_failure_returns_iff; until review 2 the model took FailureSlicer to be total), when an `answer` is due
   the AnswerSlicer does not crash.  Both excluded regions break the statement on the faithful model and on the code:
   C10_unnameable_error_drops_connection_refuted (known finding exception-class-without-module) and
   C10_answer_crash_drops_connection (C10_crash_drops_connection's case).  The former third
   exclusion -- local-failure log on while the target / arguments cannot be formatted -- is gone since foolscap guards the log
   entry (fix eec6df0; the guard is read from the source: CLogFailureGuarded): C10_unrenderable_delivery_answered. *)
Theorem C10_every_call_answered_once : forall ins s, cup s = true -> Forall inbound_ok ins -> NoDup (map reqid_of ins) ->
  let s' := handle_all ins s in
  cup s' = true /\ swallowed s' = swallowed s /\
  (forall i, In i ins -> replies (reqid_of i) (sent s') = (replies (reqid_of i) (sent s) + expected_replies i)%nat) /\
  (forall r, ~ In r (map reqid_of ins) -> replies r (sent s') = replies r (sent s)).
Proof. exact every_call_answered_once. Qed.
Print Assumptions C10_every_call_answered_once.

(* "... fails exactly that call; the connection stays up and every other outstanding or later call is unaffected", for FIRE-AND-FORGET
   calls (callRemoteOnly: request id 0, which CallUnslicer.receiveChild registers nowhere and nobody answers) [T the same translated
   programs; CallUnslicer.reportViolation may do any of the known statements under its ABORT / stage tests, e.g. retire the table entry:
   the interpreter decides what that does for an id that was never registered; C the same correspondence, one-way calls of every kind in
   the batches]: whatever goes wrong with a one-way call -- the caller's ABORT, a rejection by the callee, arguments not ready, the method
   raising, a result that cannot be serialized (never sent) -- it leaves no message, no table entry, nothing swallowed, and the
   connection up.  No hypothesis besides the request id. *)
Theorem C10_one_way_contained : forall i s, cup s = true -> d_reqid (in_env i) = 0 ->
  let s' := handle i s in
  cup s' = true /\ sent s' = sent s /\ active s' = active s /\ swallowed s' = swallowed s.
Proof. exact one_way_contained. Qed.
Print Assumptions C10_one_way_contained.

(* C10_every_call_answered_once for histories in which any number of one-way calls (all with request id 0) occur anywhere among the
   ordinary ones (distinct non-zero ids; inbound_ok1 = one-way, or inbound_ok): every ordinary call gets exactly its replies, every
   one-way call none, no message is ever addressed to request 0, nothing is swallowed, the connection stays up *)
Theorem C10_every_call_answered_once_with_one_way : forall ins s, cup s = true -> Forall inbound_ok1 ins -> NoDup (nonzero_ids ins) ->
  let s' := handle_all ins s in
  cup s' = true /\ swallowed s' = swallowed s /\
  (forall i, In i ins -> replies (reqid_of i) (sent s') = (replies (reqid_of i) (sent s) + expected_replies i)%nat) /\
  (forall r, ~ In r (nonzero_ids ins) -> replies r (sent s') = replies r (sent s)).
Proof. exact every_call_answered_once_with_one_way. Qed.
Print Assumptions C10_every_call_answered_once_with_one_way.

(* WHICH replies (review 2: outcome_ok / `replies` only count messages per request id; a model that answered a raising method
   with an `answer`, whose checkResults always accepted, or whose _doCall failed only when the log could not render, passed every
   universal theorem above).  For EVERY history (one-way calls anywhere, ids need not even be distinct) whose calls are inside
   the exact guard: what is handed to Broker.send is, call by call in the order of the history (the order in which the callee concludes the calls), exactly reply_of -- an `error` carrying
   FailureSlicer's state of the call's exception (the_state: C10_failure_fits applies to it) exactly when the arguments did not become
   ready, the method raised, or the callee's schema rejects the result (must_fail), or the call was rejected while being received and
   not by the caller's ABORT; otherwise the `answer` (seen aborted by the caller when an AnswerSlicer raised Violation); nothing for
   one-way calls and for the caller's ABORT; nothing else -- and the connection is up.  (Non-vacuity: CalleeProofs.ex_history.) *)
Theorem C10_history_replies : forall ins s, cup s = true -> Forall inbound_ok1 ins ->
  sent (handle_all ins s) = sent s ++ flat_map reply_of ins /\ cup (handle_all ins s) = true.
Proof. exact history_replies. Qed.
Print Assumptions C10_history_replies.

(* one delivery: WHICH reply *)
Theorem C10_reply_kind : forall e s, cup s = true -> d_reqid e <> 0 -> delivery_ok e ->
  sent (handle (InDelivered e) s) = sent s ++
    [if must_fail e then MError (d_reqid e) (the_state e)
     else match d_answer e with SViolation => MAnswerAborted (d_reqid e) | _ => MAnswer (d_reqid e) end].
Proof. exact reply_kind. Qed.
Print Assumptions C10_reply_kind.

(* the guards are exact: the connection survives a delivery / a rejected call IF AND ONLY IF delivery_ok / rejected_ok ... *)
Theorem C10_delivery_guard_exact : forall e s, cup s = true -> d_reqid e <> 0 ->
  (cup (handle (InDelivered e) s) = true <-> delivery_ok e).
Proof. exact delivery_guard_exact. Qed.
Print Assumptions C10_delivery_guard_exact.

Theorem C10_rejected_guard_exact : forall abort e s, cup s = true -> d_reqid e <> 0 ->
  (cup (handle (InRejected abort e) s) = true <-> rejected_ok abort e).
Proof. exact rejected_guard_exact. Qed.
Print Assumptions C10_rejected_guard_exact.

(* ... and the first delivery outside the guard ends the history: the calls before it got their replies, it gets none, the
   connection is down and nothing that follows reaches the wire (siblings and later calls are lost; the real callee may still RUN calls
   that had already arrived -- their answers go nowhere, which is what the crash-path correspondence compares).
   Non-vacuity: CalleeProofs.ex_history_outside_guard *)
Theorem C10_history_guard_exact : forall pre e post s, cup s = true -> Forall inbound_ok1 pre -> d_reqid e <> 0 -> ~ delivery_ok e ->
  let s' := handle_all (pre ++ InDelivered e :: post) s in
  cup s' = false /\ sent s' = sent s ++ flat_map reply_of pre.
Proof. exact history_guard_exact. Qed.
Print Assumptions C10_history_guard_exact.

(* the region excluded when an `error` is due: "an exception raised by the method (any type ...) fails exactly that call" is FALSE
   of the faithful model and of the code for an exception whose class cannot be named (known finding
   oracle/sibling-affected/exception-class-without-module; witness CalleeProofs.ex_unnameable_drops = the oracle's input
   type("NoMod", (Exception,), {"__module__": None}) raised between two fault-free calls, replayed on real Brokers on every run) *)
Theorem C10_unnameable_error_drops_connection_refuted : forall e s, cup s = true -> d_reqid e <> 0 -> must_fail e = true ->
  nameable (d_exc e) = false -> cup (handle (InDelivered e) s) = false.
Proof. exact unnameable_error_drops_connection. Qed.
Print Assumptions C10_unnameable_error_drops_connection_refuted.

(* one delivery, with everything it leaves behind: one message for its request id, its activeLocalCalls entry gone *)
Theorem C10_delivery_answered_once : forall e s, cup s = true -> d_reqid e <> 0 -> delivery_ok e ->
  outcome_ok (d_reqid e) 1 (active s) s (handle (InDelivered e) s).
Proof. exact delivery_answered_once. Qed.
Print Assumptions C10_delivery_answered_once.

(* a call rejected while it is received: one `error` (callFailed gets no delivery, nothing is formatted; the one condition: the class
   of the failure can be named -- on the real callee it is foolscap's Violation);
   none if it was the caller's ABORT -- and then the activeLocalCalls entry stays (observed on the real Broker too) *)
Theorem C10_rejected_answered_once : forall abort e s, cup s = true -> d_reqid e <> 0 -> rejected_ok abort e ->
  outcome_ok (d_reqid e) (expected_replies (InRejected abort e)) (if abort then d_reqid e :: active s else active s)
             s (handle (InRejected abort e) s).
Proof. exact rejected_answered_once. Qed.
Print Assumptions C10_rejected_answered_once.

(* formerly C10_unrenderable_delivery_refuted (finding oracle/call-not-failed/local-failure-log-renders-target, repaired in foolscap
   by guarding the log entry; the input stays a regression witness under the same signature): with the local-failure log on, a
   failing call on a target -- or with arguments -- whose "%s" formatting raises is answered by its `error` like any other;
   nothing is swallowed, the activeLocalCalls entry is gone *)
Theorem C10_unrenderable_delivery_answered : forall e s, cup s = true -> d_reqid e <> 0 -> nameable (d_exc e) = true ->
  d_log_local e = true -> d_repr_raises e = true -> d_raises e = true ->
  let s' := handle (InDelivered e) s in
  sent s' = sent s ++ [MError (d_reqid e) (the_state e)] /\ active s' = active s /\ swallowed s' = swallowed s /\ cup s' = true.
Proof. exact unrenderable_delivery_answered. Qed.
Print Assumptions C10_unrenderable_delivery_answered.

(* the region excluded when an `answer` is due: a non-Violation exception while the answer is serialized drops the connection (known finding) *)
Theorem C10_answer_crash_drops_connection : forall e s, cup s = true -> d_ready e = true -> d_raises e = false ->
  (d_schema e = false \/ d_result_ok e = true) -> d_reqid e <> 0 -> d_answer e = SCrash ->
  cup (handle (InDelivered e) s) = false.
Proof. exact answer_crash_drops_connection. Qed.
Print Assumptions C10_answer_crash_drops_connection.
