(* C02 -- Declared schemas are enforced on all data crossing into user code.
   Property theorems only; proofs live in lib/SchemaProofs.v. *)
From Coq Require Import ZArith List String Bool.
Import ListNotations.
Require Import Verif.lib.PyLite Verif.gen.BananaGen Verif.gen.SchemaGen Verif.lib.Schema Verif.lib.SchemaProofs.
Local Open Scope Z_scope.

(* "every argument satisfies its declared constraint": the executable object-level check of every constraint class
   decides exactly the declarative meaning of the constraint tree *)
Theorem C02_checkObject_sound : forall c o, checkObject c o = true <-> satisfies c o.
Proof. exact checkObject_sound. Qed.
Print Assumptions C02_checkObject_sound.

(* "... all required arguments are present and no undeclared argument is present": meaning of checkAllArgs *)
Theorem C02_checkAllArgs_spec : forall ms a kw,
  checkAllArgs ms a kw = Ok tt <->
  (zlen a <= zlen (ms_args ms) /\
   kw_fresh (map fst (combine (names ms) a)) (map fst kw) /\
   (forall n v, In (n, v) (combine (names ms) a ++ kw) ->
      exists sp, lookup n (ms_args ms) = Some sp /\ satisfies (a_ctr sp) v) /\
   (forall sp, In sp (ms_args ms) -> a_opt sp = false -> In (a_name sp) (map fst (combine (names ms) a ++ kw)))).
Proof. exact checkAllArgs_spec. Qed.
Print Assumptions C02_checkAllArgs_spec.

(* "for every inbound message -- including hand-crafted token streams -- the method body runs only if ...":
   pos / kws are ARBITRARY wire trees (any type bytes, sizes, arities, forged back-references WRef);
   the dominance of the check over the invocation is the shape fact doCall_shape translated from Broker._doCall *)
Theorem C02_args : forall ms pos kws a kw,
  recv_call ms pos kws = CInvoke a kw -> checkAllArgs ms a kw = Ok tt.
Proof. exact recv_call_checked. Qed.
Print Assumptions C02_args.

Theorem C02_args_values_satisfy : forall ms pos kws a kw,
  recv_call ms pos kws = CInvoke a kw ->
  (forall n v, In (n, v) (combine (names ms) a ++ kw) ->
     exists sp, In sp (ms_args ms) /\ a_name sp = n /\ satisfies (a_ctr sp) v) /\
  (forall sp, In sp (ms_args ms) -> a_opt sp = false -> In (a_name sp) (map fst (combine (names ms) a ++ kw))) /\
  kw_fresh (map fst (combine (names ms) a)) (map fst kw) /\ zlen a <= zlen (ms_args ms).
Proof. exact C02_args_main. Qed.
Print Assumptions C02_args_values_satisfy.

(* "streams that use back-references to smuggle an earlier object of the wrong shape": a reference -- to an earlier
   complete object o, or (o = OPending k) to an enclosing tuple that is still open and only known as a Deferred -- gets
   into a constrained slot only if checkObject of that slot's constraint accepts the referenced object.  On the answer
   path this is the ONLY enforcement for references (shape fact reference_rechecks_object: the check is reached on every
   path of ReferenceUnslicer.receiveChild). *)
Theorem C02_reference_checked : forall c o v,
  recvw (Some c) (WRef o) = RDeliver v -> v = o /\ checkObject c o = true.
Proof. exact reference_checked. Qed.
Print Assumptions C02_reference_checked.

(* "likewise the value handed to a callRemote callback always satisfies the result constraint":
     forall c w v, recv_answer (Some c) w = Callback v -> checkObject c v = true
   is FALSE on the current tree (known finding D6, oracle/result-unchecked): AnswerUnslicer hands the value to
   request.complete without an object-level check (answer_checks_object = false, read from call.py). *)
Theorem C02_result_refuted :
  (exists c w v, recv_answer (Some c) w = Callback v /\ checkObject c v = false /\
                 c = CTuple [CInt (Some 1024); CInt (Some 1024)] /\ w = WOpen OtTuple [WInt 129 7 7]) /\
  (exists c w v, recv_answer (Some c) w = Callback v /\ checkObject c v = false /\
                 c = CText (Some 3) 0 /\ w = slice [] (OText [116; 111; 111; 108; 111; 110; 103])) /\
  (exists c w v, recv_answer (Some c) w = Callback v /\ checkObject c v = false /\
                 c = CInt (Some (-1)) /\ w = WInt 129 (2 ^ 40) (2 ^ 40)) /\
  (exists c w v, recv_answer (Some c) w = Callback v /\ checkObject c v = false /\
                 c = CBool None /\ w = WOpen OtBool []).
Proof. exact SchemaProofs.C02_result_refuted. Qed.
Print Assumptions C02_result_refuted.

(* ... a further refuted instance of the result side, and the reason the argument side survives it: a reference to the
   enclosing, still open list is judged on the list's members so far; the finished value is its own member *)
Theorem C02_result_refuted_open_reference :
  let c := CList (CList (CInt (Some 1024)) None 0) None 0 in
  let w := WOpen OtList [WRefOpen 0 (OList []); WOpen OtList [WInt 129 1 1; WInt 129 2 2]] in
  recv_answer (Some c) w = Callback (OList [OPending 0; OList [OInt 1; OInt 2]]) /\
  checkObject c (OList [OPending 0; OList [OInt 1; OInt 2]]) = false /\
  recv_call (ms1 c) [w] [] = CViol.
Proof. exact result_refuted_open_reference. Qed.
Print Assumptions C02_result_refuted_open_reference.

(* ... what remains true of the result side: for constraints whose token-level enforcement is complete (Any, None,
   unbounded Int/Number, ByteString without maxLength/minLength, unbounded ListOf/SetOf of those) the value given to
   the callback satisfies the result constraint, for EVERY well-formed wire tree w (forged references included).
   Missing w.r.t. the full statement: every bounded constraint, tuples, dicts, text, bool, ChoiceOf (see refuted). *)
Theorem C02_result_partial : forall c w v,
  complete c = true -> wwf w = true -> recv_answer (Some c) w = Callback v -> checkObject c v = true.
Proof. exact C02_result_partial_main. Qed.
Print Assumptions C02_result_partial.

(* "a non-conforming message makes that one call fail with a Violation": FALSE for strictTaster constraints
   (known finding oracle/strict-taster-drops-connection): a wrong token type under str/bool/None is a BananaError *)
Theorem C02_one_call_refuted :
  exists ms pos, recv_call ms pos [] = CAbort /\ ms = ms1 (CText None 0) /\ pos = [WInt 129 5 5].
Proof. exact SchemaProofs.C02_one_call_refuted. Qed.
Print Assumptions C02_one_call_refuted.
