(* C02 -- Declared schemas are enforced on all data crossing into user code.
   Property theorems only; proofs live in lib/SchemaProofs.v. *)
From Coq Require Import ZArith List String Bool.
Import ListNotations.
Require Import Verif.lib.PyLite Verif.gen.BananaGen Verif.gen.SchemaGen Verif.lib.Schema Verif.lib.SchemaProofs.
Local Open Scope Z_scope.

(* "every argument satisfies its declared constraint": the executable object-level check of every constraint class
   decides exactly the declarative meaning of the constraint tree *)
Theorem C02_checkObject_sound : forall c o, checkObject c o = true <-> satisfies c o.
Proof. exact checkObject_sound. Qed.
Print Assumptions C02_checkObject_sound.

(* "... all required arguments are present and no undeclared argument is present": meaning of checkAllArgs *)
Theorem C02_checkAllArgs_spec : forall ms a kw,
  checkAllArgs ms a kw = Ok tt <->
  (zlen a <= zlen (ms_args ms) /\
   kw_fresh (map fst (combine (names ms) a)) (map fst kw) /\
   (forall n v, In (n, v) (combine (names ms) a ++ kw) ->
      exists sp, lookup n (ms_args ms) = Some sp /\ satisfies (a_ctr sp) v) /\
   (forall sp, In sp (ms_args ms) -> a_opt sp = false -> In (a_name sp) (map fst (combine (names ms) a ++ kw)))).
Proof. exact checkAllArgs_spec. Qed.
Print Assumptions C02_checkAllArgs_spec.

(* "for every inbound message -- including hand-crafted token streams -- the method body runs only if ...":
   pos / kws are ARBITRARY wire trees (any type bytes, sizes, arities, forged back-references WRef);
   the dominance of the check over the invocation is the shape fact doCall_shape translated from Broker._doCall *)
(* NOTE on what carries this theorem and the next three: they follow from doCall_checked alone, i.e. from the shape fact
   "checkAllArgs(args, kwargs, True) dominates both invocations in Broker._doCall, on the very objects that are passed"
   (read from the AST by translate/g_schema.py) plus checkAllArgs_spec / checkObject_sound.  The token-level part of the
   model (tasters, setConstraint hand-down, child slots) does not enter their proofs -- whatever the unslicers let
   through, the final check refuses.  Where the token-level model DOES carry the statement: C02_one_call_violation (below),
   C02_result_partial, C02_reference_checked, and all of C12. *)
Theorem C02_args : forall ms pos kws a kw,
  recv_call ms pos kws = CInvoke a kw -> checkAllArgs ms a kw = Ok tt.
Proof. exact recv_call_checked. Qed.
Print Assumptions C02_args.

Theorem C02_args_values_satisfy : forall ms pos kws a kw,
  recv_call ms pos kws = CInvoke a kw ->
  (forall n v, In (n, v) (combine (names ms) a ++ kw) ->
     exists sp, In sp (ms_args ms) /\ a_name sp = n /\ satisfies (a_ctr sp) v) /\
  (forall sp, In sp (ms_args ms) -> a_opt sp = false -> In (a_name sp) (map fst (combine (names ms) a ++ kw))) /\
  kw_fresh (map fst (combine (names ms) a)) (map fst kw) /\ zlen a <= zlen (ms_args ms).
Proof. exact C02_args_main. Qed.
Print Assumptions C02_args_values_satisfy.

(* ... the same for the `arguments` sequence as the state machine ArgumentUnslicer is: items are ARBITRARY children -- the
   positional-argument COUNT token is chosen by the peer like everything else (too large, too small, not an INT, missing),
   values may stand where names are expected and vice versa, the sequence may end anywhere; ms is ANY method schema,
   including the __ignoreUnknown__ / __acceptUnknown__ flags of RemoteMethodSchema *)
Theorem C02_args_any_stream : forall ms items a kw,
  recv_arguments ms items = CInvoke a kw -> checkAllArgs ms a kw = Ok tt.
Proof. exact recv_arguments_checked. Qed.
Print Assumptions C02_args_any_stream.

Theorem C02_args_any_stream_values_satisfy : forall ms items a kw,
  recv_arguments ms items = CInvoke a kw ->
  (forall n v, In (n, v) (combine (names ms) a ++ kw) ->
     exists sp, In sp (ms_args ms) /\ a_name sp = n /\ satisfies (a_ctr sp) v) /\
  (forall sp, In sp (ms_args ms) -> a_opt sp = false -> In (a_name sp) (map fst (combine (names ms) a ++ kw))) /\
  kw_fresh (map fst (combine (names ms) a)) (map fst kw) /\ zlen a <= zlen (ms_args ms).
Proof. exact recv_arguments_main. Qed.
Print Assumptions C02_args_any_stream_values_satisfy.

(* "no undeclared argument is present" also when the schema says __ignoreUnknown__ or __acceptUnknown__ *)
Theorem C02_unknown_flags_never_accept : forall ms items a kw,
  recv_arguments ms items = CInvoke a kw -> forall n, In n (map fst kw) -> In n (names ms).
Proof. exact unknown_flags_never_accept. Qed.
Print Assumptions C02_unknown_flags_never_accept.

(* recv_call (used above and by C12) is not a separate model with an assumption about the count: it IS the machine on the
   streams whose count token equals the number of positional trees *)
Theorem C02_counted_streams : forall ms pos kwsb, names_text kwsb = true ->
  recv_arguments ms (enc_args pos kwsb) = recv_call ms pos (code_kws kwsb).
Proof. exact recv_arguments_refines. Qed.
Print Assumptions C02_counted_streams.

(* "streams that use back-references to smuggle an earlier object of the wrong shape": a reference -- to an earlier
   complete object o, or (o = OPending k) to an enclosing tuple that is still open and only known as a Deferred -- gets
   into a constrained slot only if checkObject of that slot's constraint accepts the referenced object.  On the answer
   path this is the ONLY enforcement for references (shape fact reference_rechecks_object: the check is reached on every
   path of ReferenceUnslicer.receiveChild). *)
Theorem C02_reference_checked : forall c o v,
  recvw (Some c) (WRef o) = RDeliver v -> v = o /\ checkObject c o = true.
Proof. exact reference_checked. Qed.
Print Assumptions C02_reference_checked.

(* "likewise the value handed to a callRemote callback always satisfies the result constraint":
     forall c w v, recv_answer (Some c) w = Callback v -> checkObject c v = true
   is FALSE on the current tree (known finding D6, oracle/result-unchecked): AnswerUnslicer hands the value to
   request.complete without an object-level check (answer_checks_object = false, read from call.py). *)
Theorem C02_result_refuted :
  (exists c w v, recv_answer (Some c) w = Callback v /\ checkObject c v = false /\
                 c = CTuple [CInt (Some 1024); CInt (Some 1024)] /\ w = WOpen OtTuple [WInt 129 7 7]) /\
  (exists c w v, recv_answer (Some c) w = Callback v /\ checkObject c v = false /\
                 c = CText (Some 3) 0 /\ w = slice [] (OText [116; 111; 111; 108; 111; 110; 103])) /\
  (exists c w v, recv_answer (Some c) w = Callback v /\ checkObject c v = false /\
                 c = CInt (Some (-1)) /\ w = WInt 129 (2 ^ 40) (2 ^ 40)) /\
  (exists c w v, recv_answer (Some c) w = Callback v /\ checkObject c v = false /\
                 c = CBool None /\ w = WOpen OtBool []).
Proof. exact SchemaProofs.C02_result_refuted. Qed.
Print Assumptions C02_result_refuted.

(* ... a further refuted instance of the result side, and the reason the argument side survives it: a reference to the
   enclosing, still open list is judged on the list's members so far; the finished value is its own member *)
Theorem C02_result_refuted_open_reference :
  let c := CList (CList (CInt (Some 1024)) None 0) None 0 in
  let w := WOpen OtList [WRefOpen 0 (OList []); WOpen OtList [WInt 129 1 1; WInt 129 2 2]] in
  recv_answer (Some c) w = Callback (OList [OPending 0; OList [OInt 1; OInt 2]]) /\
  checkObject c (OList [OPending 0; OList [OInt 1; OInt 2]]) = false /\
  recv_call (ms1 c) [w] [] = CViol.
Proof. exact result_refuted_open_reference. Qed.
Print Assumptions C02_result_refuted_open_reference.

(* ... what remains true of the result side: for constraints whose token-level enforcement is complete -- Any, None,
   Optional, RemoteInterfaceConstraint(None), unbounded Int/Number, ByteString without maxLength/minLength, and ListOf /
   SetOf(mutable=None) / DictOf of those with ANY maxLength / maxKeys >= 0 and no minLength (the unslicers' "the list /
   set / dict is full" tests ARE the size check) -- the value given to the callback satisfies the result constraint, for
   EVERY well-formed wire tree w (forged references included).
   Missing w.r.t. the full statement, each FALSE on the current tree (D6): Int/Number(maxBytes) (an INT token carries any
   value: refuted witness 3), ByteString(maxLength) (a VOCAB token is not measured), minLength, tuples (arity, witness 1),
   text (witness 2), bool (witness 4), SetOf(mutable=..) (both opentypes pass), ChoiceOf (an OPEN `none` passes any
   alternative that accepts OPEN); negative maxLength (the empty list is delivered). *)
Theorem C02_result_partial : forall c w v,
  complete c = true -> wwf w = true -> recv_answer (Some c) w = Callback v -> checkObject c v = true.
Proof. exact C02_result_partial_main. Qed.
Print Assumptions C02_result_partial.

Theorem C02_result_refuted_more :
  recv_answer (Some (CBytes (Some 3) 0)) (WStr true 21 [99; 108; 97; 115; 115]) = Callback (OBytes [99; 108; 97; 115; 115]) /\
  checkObject (CBytes (Some 3) 0) (OBytes [99; 108; 97; 115; 115]) = false /\
  recv_answer (Some (CInt (Some 4))) (WInt 129 (2 ^ 40) (2 ^ 40)) = Callback (OInt (2 ^ 40)) /\ checkObject (CInt (Some 4)) (OInt (2 ^ 40)) = false /\
  recv_answer (Some (CChoice [CList CAny None 0])) (WOpen OtNone []) = Callback ONone /\ checkObject (CChoice [CList CAny None 0]) ONone = false /\
  recv_answer (Some (CSet (CInt None) None (Some true))) (WOpen OtFset []) = Callback (OFset []) /\
  checkObject (CSet (CInt None) None (Some true)) (OFset []) = false /\
  recv_answer (Some (CList (CInt None) (Some (-1)) 0)) (WOpen OtList []) = Callback (OList []) /\
  recv_answer (Some (CList (CInt None) None 1)) (WOpen OtList []) = Callback (OList []).
Proof. exact result_refuted_more. Qed.
Print Assumptions C02_result_refuted_more.

(* "a non-conforming message makes that one call fail with a Violation", POSITIVELY, where it holds: for method schemas
   whose arguments are declared with the token-level constraints that are not strictTaster (Int / Number / ByteString, any
   bounds) and carry neither unknown-argument flag, EVERY counted stream -- whatever wire trees stand in the argument
   slots: wrong types, oversized tokens, containers, forged references, unknown / duplicate / missing names -- either
   runs the method with arguments that pass checkAllArgs, or fails exactly this call with a Violation: the connection is
   never lost and the failure is never another exception.  Proved through the token-level model (taster tables of the
   three classes, their strictTaster flags, Constraint.checkToken, the refusal of OPEN), not through _doCall.
   Missing w.r.t. the full sentence: every OPEN-sequence constraint (str/bool/None are strictTaster: refuted below;
   containers hand constraints to children whose mismatch is an assertion: C12's D7a), uncounted streams (a sequence that
   ends early is a BananaError by design) and "other calls are untouched" (no broker queue in the model; oracle). *)
Theorem C02_one_call_violation : forall ms pos kws, leaf_schema ms ->
  recv_call ms pos kws = CViol \/ exists a kw, recv_call ms pos kws = CInvoke a kw /\ checkAllArgs ms a kw = Ok tt.
Proof. exact one_call_violation. Qed.
Print Assumptions C02_one_call_violation.

Theorem C02_one_call_violation_stream : forall ms pos kwsb, leaf_schema ms -> names_text kwsb = true ->
  recv_arguments ms (enc_args pos kwsb) = CViol \/
  exists a kw, recv_arguments ms (enc_args pos kwsb) = CInvoke a kw /\ checkAllArgs ms a kw = Ok tt.
Proof. exact one_call_violation_stream. Qed.
Print Assumptions C02_one_call_violation_stream.

(* ... and a keyword NAME that is not text (bytes that are not UTF-8; names_text excludes them above) fails that one call
   with a Violation, for every schema and whatever follows: the repaired defect oracle/non-utf8-keyword-name-drops-connection
   (commit 0c0affc; au_nontext_name_violation is read from call.py: without the handler this proof breaks and the model
   says "connection lost") *)
Theorem C02_nontext_name_violation : forall ms na args kws c vb sz bs rest, na <= zlen args -> utf8_valid bs = false ->
  au_run ms (aust na args kws None c) (WStr vb sz bs :: rest) = CViol.
Proof. exact nontext_name_violation. Qed.
Print Assumptions C02_nontext_name_violation.

(* ... the BODY of a unicode sequence is any byte string the peer chooses (the wire tree carries the bytes).  What
   UnicodeUnslicer hands on is the text the strict decoder (Schema.utf8_valid / utf8_decode, both compared with Python's
   decoder on every run) makes of a body it accepts: the delivered text is encodable and the body was its UTF-8 form --
   user code never sees text that no honest UnicodeSlicer could have sent *)
Theorem C02_text_body_decoded : forall mx kids v, recv_text mx kids = RDeliver v ->
  (kids = [] /\ v = ONone) \/
  exists vocab size bs, kids = [WStr vocab size bs] /\ utf8_valid bs = true /\ v = OText (utf8_decode bs).
Proof. exact recv_text_delivers_decoded. Qed.
Print Assumptions C02_text_body_decoded.

Theorem C02_text_delivered_is_sent_form : forall mx kids t, recv_text mx kids = RDeliver (OText t) ->
  text_encodable t = true /\ exists vocab size, kids = [WStr vocab size (utf8_encode t)].
Proof. exact recv_text_delivers_sent_form. Qed.
Print Assumptions C02_text_delivered_is_sent_form.

(* ... and a body that is NOT UTF-8 (stray continuation byte, overlong form, surrogate, 0xFF, truncated sequence ...) fails
   that one object with a Violation, in every slot that admits a unicode sequence (no constraint, Any, any
   UnicodeConstraint), whatever follows it: the repaired defect oracle/non-utf8-text-body-drops-connection (commit 66cc69a;
   unicode_unslicer_undecodable_violation is read from slicers/unicode.py: without the handler this proof breaks and the
   model says "connection lost").  As an argument, nested in a list, and as an answer: *)
Theorem C02_nontext_body_violation : forall oc vocab size bs rest, utf8_valid bs = false ->
  (oc = None \/ oc = Some CAny \/ exists mx mn, oc = Some (CText mx mn)) ->
  recvw oc (WOpen OtUnicode (WStr vocab size bs :: rest)) = RViol.
Proof. exact nontext_body_violation_slot. Qed.
Print Assumptions C02_nontext_body_violation.

Theorem C02_nontext_body_call_violation : forall mx mn vocab size bs rest, utf8_valid bs = false ->
  recv_call (ms1 (CText mx mn)) [WOpen OtUnicode (WStr vocab size bs :: rest)] [] = CViol /\
  recv_call (ms1 (CList (CText mx mn) None 0)) [WOpen OtList [WOpen OtUnicode (WStr vocab size bs :: rest)]] [] = CViol /\
  recv_answer (Some (CText mx mn)) (WOpen OtUnicode (WStr vocab size bs :: rest)) = Errback.
Proof. exact nontext_body_call_violation. Qed.
Print Assumptions C02_nontext_body_call_violation.

Theorem C02_nontext_body_examples :
  utf8_valid [255] = false /\ utf8_valid [192; 128] = false /\ utf8_valid [237; 160; 128] = false /\ utf8_valid [195; 169] = true /\
  recv_call (ms1 (CText None 0)) [WOpen OtUnicode [WStr false 1 [255]]] [] = CViol /\
  recv_call (ms1 CAny) [WOpen OtList [WOpen OtUnicode [WStr false 2 [192; 128]]]] [] = CViol /\
  recv_answer (Some (CText (Some 3) 0)) (WOpen OtUnicode [WStr false 3 [237; 160; 128]]) = Errback /\
  recv_call (ms1 (CText None 0)) [WOpen OtUnicode [WStr false 2 [195; 169]]] [] = CInvoke [OText [233]] [] /\
  recv_answer (Some (CText (Some 1) 0)) (WOpen OtUnicode [WStr false 4 [240; 159; 152; 128]]) = Callback (OText [128512]).
Proof. exact nontext_body_examples. Qed.
Print Assumptions C02_nontext_body_examples.

(* ---- my-reference sequences (RemoteInterface arguments, and any slot without constraint / under Any): the interface NAME
   and the URL are byte strings that ReferenceUnslicer.receiveChild passes to six.ensure_str.  GUARD: the name is text.
   Inside it a reference without URL is delivered (and the claimed name is then judged by checkAllArgs like every other
   value); a name / URL that is not UTF-8 gets the outcome the translated flags myref_nontext_{name,url}_violation say.
   (A URL that is text is checked against the peer's Tub identity -- C05; not modelled here: Schema.recv_myref answers
   "connection lost" for every text URL and no theorem claims anything about them.) *)
Theorem C02_reference_text_delivered : forall tb s v vb sz name,
  (tb =? tok_INT) || (tb =? tok_NEG) = true -> utf8_valid name = true ->
  recv_myref [WInt tb s v; WStr vb sz name] = RDeliver (ORemote name).
Proof. exact myref_text_delivered. Qed.
Print Assumptions C02_reference_text_delivered.

Theorem C02_reference_nontext_name_outcome : forall tb s v vb sz name rest,
  (tb =? tok_INT) || (tb =? tok_NEG) = true -> utf8_valid name = false ->
  recv_myref (WInt tb s v :: WStr vb sz name :: rest) = (if myref_nontext_name_violation then RViol else RAbort).
Proof. exact myref_nontext_name_outcome. Qed.
Print Assumptions C02_reference_nontext_name_outcome.

Theorem C02_reference_nontext_url_outcome : forall tb s v vb sz name vb2 sz2 url,
  (tb =? tok_INT) || (tb =? tok_NEG) = true -> utf8_valid name = true -> utf8_valid url = false ->
  recv_myref [WInt tb s v; WStr vb sz name; WStr vb2 sz2 url] = (if myref_nontext_url_violation then RViol else RAbort).
Proof. exact myref_nontext_url_outcome. Qed.
Print Assumptions C02_reference_nontext_url_outcome.

(* ... outside the guard "a non-conforming message makes that one call fail with a Violation" is FALSE on the current tree
   (known finding oracle/non-utf8-reference-name-drops-connection): a my-reference whose interface name is b"\xa8a", or
   whose URL is b"\xff", loses the whole connection -- as an argument under Any / RemoteInterfaceConstraint, nested in a
   list, and in an answer.  Lines 5-6: inside the guard (a negative clid, a non-ASCII text name) the reference is delivered.
   (The their-reference URL, referenceable.py TheirReferenceUnslicer, is the same statement; gifts are outside the model,
   its flag theirref_nontext_url_violation is translated and the oracle drives the site.) *)
Theorem C02_reference_name_refuted :
  recv_call (ms1 CAny) [WOpen OtMyRef [WInt 129 5 5; WStr false 2 [168; 97]]] [] = CAbort /\
  recv_call (ms1 (CRemote None)) [WOpen OtMyRef [WInt 129 5 5; WStr false 2 [82; 73]; WStr false 1 [255]]] [] = CAbort /\
  recv_call (ms1 (CList CAny None 0)) [WOpen OtList [WOpen OtMyRef [WInt 129 5 5; WStr false 2 [168; 97]]]] [] = CAbort /\
  recv_answer (Some CAny) (WOpen OtMyRef [WInt 129 5 5; WStr false 2 [168; 97]]) = ConnLost /\
  recv_call (ms1 CAny) [WOpen OtMyRef [WInt 131 5 (-5); WStr false 2 [82; 73]]] [] = CInvoke [ORemote [82; 73]] [] /\
  recv_call (ms1 CAny) [WOpen OtMyRef [WInt 129 5 5; WStr false 2 [195; 169]]] [] = CInvoke [ORemote [195; 169]] [].
Proof. exact reference_name_refuted. Qed.
Print Assumptions C02_reference_name_refuted.

(* "a non-conforming message makes that one call fail with a Violation": FALSE for strictTaster constraints
   (known finding oracle/strict-taster-drops-connection): a wrong token type under str/bool/None is a BananaError *)
Theorem C02_one_call_refuted :
  exists ms pos, recv_call ms pos [] = CAbort /\ ms = ms1 (CText None 0) /\ pos = [WInt 129 5 5].
Proof. exact SchemaProofs.C02_one_call_refuted. Qed.
Print Assumptions C02_one_call_refuted.

(* ... and under the two unknown-argument flags (findings oracle/ignore-unknown-drops-connection,
   oracle/unknown-flag-attributeerror): an unknown keyword name under __ignoreUnknown__ trips `assert accept` (connection
   lost); under either flag checkAllArgs ends in None.checkObject, an AttributeError instead of a Violation *)
Theorem C02_unknown_flags_refuted :
  recv_arguments (ms3 true false) [WInt 129 1 1; i5; kname 122; i5] = CAbort /\
  recv_arguments (ms3 false true) [WInt 129 1 1; i5; kname 122; i5] = CFail /\
  checkAllArgs (ms3 true false) [OInt 5] [(nZ, OInt 5)] = Exc "AttributeError" /\
  checkAllArgs (ms3 false true) [OInt 5] [(nZ, OInt 5)] = Exc "AttributeError" /\
  checkAllArgs (ms3 false false) [OInt 5] [(nZ, OInt 5)] = Exc "Violation" /\
  recv_arguments (ms3 true true) [WInt 129 1 1; i5] = CInvoke [OInt 5] [].
Proof. exact unknown_flags_refuted. Qed.
Print Assumptions C02_unknown_flags_refuted.

(* ---- RemoteCopy objects whose class declares a stateSchema (AttributeDictConstraint): "declared schemas are enforced on
   all data crossing into user code" for the state handed to setCopyableState.  items: ARBITRARY children of the copyable
   sequence (names and values in turn).  What holds: every collected value was received under the constraint declared
   for its name, so it satisfies it when that constraint's token-level enforcement is complete; an undeclared name is
   collected only under acceptUnknown. *)
Theorem C02_remotecopy_values_partial : forall s items d', forallb wwf items = true -> rc_run (Some s) [] items = ADeliver d' ->
  forall n v a, In (n, v) d' -> lookup n (as_keys s) = Some a -> complete (a_ctr a) = true -> checkObject (a_ctr a) v = true.
Proof. exact rc_values_partial. Qed.
Print Assumptions C02_remotecopy_values_partial.

Theorem C02_remotecopy_names_declared : forall s items d', forallb wwf items = true -> rc_run (Some s) [] items = ADeliver d' ->
  forall n v, In (n, v) d' -> lookup n (as_keys s) <> None \/ as_accept s = true.
Proof. exact rc_names_declared. Qed.
Print Assumptions C02_remotecopy_names_declared.

(* ... the full statement is FALSE on the current tree: receiveClose does not apply the stateSchema to the collected state
   (required attributes missing, a 1-tuple for TupleOf(int, int): finding oracle/remotecopy-state-unchecked); an unknown
   name under ignoreUnknown trips `assert accept`: connection lost (finding oracle/attrdict-ignore-unknown-drops-connection).
   A name that is not UTF-8 fails the call with a Violation (line 6) since commit bc46263 -- the repaired defect
   oracle/non-utf8-attribute-name-drops-connection; without the handler the generated rc_nontext_name_violation is false,
   this theorem no longer builds and the model says "connection lost" *)
Theorem C02_remotecopy_state_refuted :
  rc_run (Some (asP false false)) [] [] = ADeliver [] /\ attr_state_ok (asP false false) [] = false /\
  rc_run (Some (asP false false)) [] [kname 97; i5; kname 98; WOpen OtTuple [i5]] = ADeliver [(nA, OInt 5); (nB, OTuple [OInt 5])] /\
  attr_state_ok (asP false false) [(nA, OInt 5); (nB, OTuple [OInt 5])] = false /\
  rc_run (Some (asP true false)) [] [kname 97; i5; kname 122; i5] = AAbort /\
  rc_run (Some (asP false false)) [] [WStr false 2 [168; 97]; i5] = AViol /\
  rc_run (Some (asP false false)) [] [kname 97; i5; kname 122; i5] = AViol /\
  rc_run (Some (asP false true)) [] [kname 97; i5; kname 122; WOpen OtList [i5]] = ADeliver [(nA, OInt 5); (nZ, OList [OInt 5])] /\
  rc_run (Some (asP false false)) [] [kname 99; WOpen OtList [i5; i5; i5]] = AViol.
Proof. exact rc_state_refuted. Qed.
Print Assumptions C02_remotecopy_state_refuted.

(* ---- the whole `call` sequence (CallUnslicer composed with ArgumentUnslicer): kids are ARBITRARY children of OPEN call --
   any tokens / sequences in any number and order, an `arguments` sequence with arbitrary children wherever the peer puts
   it; env is what the Broker knows (objects by connection-local id with their RemoteInterface's method table, bound
   methods under negative ids with their .methodSchema, requireSchema, request ids still being answered).  If the method
   body runs, it is the method the Broker's tables DESIGNATE for the addressed object and name, and the arguments passed
   that method's checkAllArgs.  (Which type bytes a stage accepts and when the sequence may close are tables obtained by
   executing CallUnslicer.checkToken / receiveClose; the stage bodies are tied by fragments + the correspondence.) *)
Theorem C02_call_sequence_checked : forall env kids clid meth ms a kw,
  recv_call_stream env kids = QInvoke clid meth ms a kw -> designated env clid meth ms /\ checkAllArgs ms a kw = Ok tt.
Proof. exact call_stream_checked. Qed.
Print Assumptions C02_call_sequence_checked.

(* ... when the RemoteInterface of the addressed object DERIVES from other RemoteInterfaces (layers: the methods each
   interface of its __iro__ declares itself, the interface first, then its bases in resolution order): the table in force
   is iface_table layers, and the schema that governs a call is the declaration of the MOST DERIVED interface that declares
   the name -- an override in a sub-interface wins over the declaration it overrides, an inherited method keeps the
   schema of the base that declares it.  (CallUnslicer: self.interface.get(methodname), translated; zope's resolution
   order is compared with the model on inheritance chains on every run.) *)
Theorem C02_call_sequence_checked_inherited : forall env kids clid n ms a kw t layers,
  0 <= clid -> assocZ clid (be_objs env) = Some t -> t_iface t = Some (iface_table layers) ->
  recv_call_stream env kids = QInvoke clid (Some n) ms a kw ->
  most_derived layers n = Some ms /\ checkAllArgs ms a kw = Ok tt.
Proof. exact call_stream_checked_inherited. Qed.
Print Assumptions C02_call_sequence_checked_inherited.

Theorem C02_override_wins : forall pre l post n ms,
  (forall l', In l' pre -> assocZ n l' = None) -> assocZ n l = Some ms -> most_derived (pre ++ l :: post) n = Some ms.
Proof. exact most_derived_override. Qed.
Print Assumptions C02_override_wins.

(* C02_one_call_violation for complete call sequences addressed to a method of non-strict token constraints *)
Theorem C02_call_sequence_one_violation : forall env r c mname pos kwsb t tbl ms,
  (negb (r =? 0) && memZ r (be_active env)) = false -> 0 <= c -> utf8_valid mname = true ->
  assocZ c (be_objs env) = Some t -> t_iface t = Some tbl -> assocZ (name_code mname) tbl = Some ms ->
  leaf_schema ms -> names_text kwsb = true ->
  recv_call_stream env (call_kids r c mname (enc_args pos kwsb)) = QViol \/
  exists a kw, recv_call_stream env (call_kids r c mname (enc_args pos kwsb)) = QInvoke c (Some (name_code mname)) ms a kw /\
               checkAllArgs ms a kw = Ok tt.
Proof. exact call_one_violation. Qed.
Print Assumptions C02_call_sequence_one_violation.
