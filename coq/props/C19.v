(* C19 -- File-accepting services stay inside their directory and publish atomically.
   Property theorems only; models in lib/Paths.v, lib/Upload.v (+ gen/UploadGen.v translated from the source),
   proofs in lib/PathsProofs.v, lib/UploadProofs.v. *)
From Coq Require Import NArith List Bool.
Import ListNotations.
Require Import Verif.lib.UploadShape Verif.gen.UploadGen Verif.lib.Paths Verif.lib.PathsProofs
               Verif.lib.Upload Verif.lib.UploadProofs.

(* "whatever file or incident name the remote peer supplies": what FilePath.child followed by the parent() test
   lets through is exactly base/<one component>, the component being normpath(name): non-empty, without
   separator, neither "." nor ".." *)
Theorem C19_accepted_names : forall cwd base name p, wf_base base ->
  guarded GuardParentEq cwd base name = Some p ->
  goodb (normpath name) = true /\ p = base ++ sep :: normpath name /\
  dirname p = base /\ basename p = normpath name.
Proof. exact guarded_spec. Qed.
Print Assumptions C19_accepted_names.

(* ... and FilePath.child alone is not enough: the empty name denotes the directory itself (D13 and its twins in
   the gatherer and the publisher), which is why each of the three call sites carries the guard *)
Theorem C19_child_alone_refuted : forall cwd base, wf_base base -> guarded NoGuard cwd base [] = Some base.
Proof. exact unguarded_lets_directory_through. Qed.
Print Assumptions C19_child_alone_refuted.

(* honest names are served, under their own name *)
Theorem C19_plain_names_accepted : forall g cwd base c, wf_base base -> goodb c = true ->
  guarded g cwd base c = Some (base ++ sep :: c).
Proof. exact guarded_accepts_good. Qed.
Print Assumptions C19_plain_names_accepted.

(* "the upload service only ever creates or replaces files directly inside its configured directory": every path
   named by any operation (hence by any prefix) of a served putfile, complete or interrupted *)
Theorem C19_upload_contained : forall cwd base name blocks oc ops o p, wf_base base ->
  putfile cwd base name blocks oc = Some ops -> In o ops -> In p (touched o) -> inside base p.
Proof. exact putfile_contained. Qed.
Print Assumptions C19_upload_contained.

(* "an uploaded file appears under its final name only when complete": after ANY prefix of the operations (crash at
   any point, any pre-existing entries incl. symlinks at the final or the temporary name) the final name shows its
   old entry or the complete file; no operation went through a symlink; no other entry changed *)
Theorem C19_atomic_publish : forall s0 final blocks k, no_dir_at s0 final ->
  wf_st s0 -> unshared s0 (final ++ putfile_tmp_ext) -> clean s0 -> no_dir_at s0 (final ++ putfile_tmp_ext) ->
  let s := run s0 (firstn k (upload_ops final blocks Done)) in
  (look s final = look s0 final \/ look s final = VFile (concat blocks)) /\
  followed s = false /\ failed s = false /\
  (forall q, q <> final ++ putfile_tmp_ext -> q <> final -> look s q = look s0 q).
Proof. exact upload_atomic. Qed.
Print Assumptions C19_atomic_publish.

(* the guard in front of open() must be the lstat-based islink(): an exists() guard lets a dangling symlink at the
   temporary name through and the file is then created through it, outside the directory (seeded change C19-s1) *)
Theorem C19_exists_guard_refuted :
  let tmp := ex_final ++ putfile_tmp_ext in
  wf_st ex_dangling /\ unshared ex_dangling tmp /\ clean ex_dangling /\ no_dir_at ex_dangling tmp /\
  followed (run ex_dangling [UnlinkIfExists tmp; Open tmp]) = true /\
  followed (run ex_dangling [UnlinkIfLink tmp; Open tmp]) = false.
Proof. exact exists_guard_insufficient. Qed.
Print Assumptions C19_exists_guard_refuted.

(* ... and a run that is not interrupted does publish the complete file and leaves no temporary *)
Theorem C19_upload_completes : forall s0 final blocks, no_dir_at s0 final ->
  wf_st s0 -> unshared s0 (final ++ putfile_tmp_ext) -> clean s0 -> no_dir_at s0 (final ++ putfile_tmp_ext) ->
  let s := run s0 (upload_ops final blocks Done) in
  look s final = VFile (concat blocks) /\ names s (final ++ putfile_tmp_ext) = None /\ failed s = false.
Proof. exact upload_completes. Qed.
Print Assumptions C19_upload_completes.

(* the upload arrived completely but cannot be published (the final name is an existing directory, rename(2) fails):
   after any prefix nothing but the temporary differs from the initial state -- in particular no file appears under the
   final name --, no symlink is followed, and once the failure path has run the temporary is gone and the call fails *)
Theorem C19_publish_failure : forall s0 final blocks k, names s0 final = Some D ->
  wf_st s0 -> unshared s0 (final ++ putfile_tmp_ext) -> clean s0 -> no_dir_at s0 (final ++ putfile_tmp_ext) ->
  let s := run s0 (firstn k (upload_ops final blocks Done)) in
  (forall q, q <> final ++ putfile_tmp_ext -> look s q = look s0 q) /\ followed s = false /\
  ((List.length (upload_ops final blocks Done) <= k)%nat -> names s (final ++ putfile_tmp_ext) = None /\ failed s = true).
Proof. exact upload_publish_failure. Qed.
Print Assumptions C19_publish_failure.

(* "an interrupted upload leaves neither a partial file under the final name nor a leftover temporary": source
   error, disconnect, or a block that cannot be written (oc = SrcError | BadBlock) after any number of blocks, and a
   crash anywhere inside that path *)
Theorem C19_interrupted_upload : forall oc s0 final blocks k, oc <> Done ->
  wf_st s0 -> unshared s0 (final ++ putfile_tmp_ext) -> clean s0 -> no_dir_at s0 (final ++ putfile_tmp_ext) ->
  let s := run s0 (firstn k (upload_ops final blocks oc)) in
  (forall q, q <> final ++ putfile_tmp_ext -> look s q = look s0 q) /\ followed s = false /\ failed s = false /\
  ((List.length (upload_ops final blocks oc) <= k)%nat -> names s (final ++ putfile_tmp_ext) = None).
Proof. exact upload_interrupted. Qed.
Print Assumptions C19_interrupted_upload.

(* "the incident gatherer only ever creates files directly inside its configured directory" *)
Theorem C19_gatherer_contained : forall cwd base name q, wf_base base ->
  gatherer_path cwd base name = Some q -> inside base q.
Proof. exact gatherer_contained. Qed.
Print Assumptions C19_gatherer_contained.

(* "... or reads": the publisher's get_incident *)
Theorem C19_publisher_contained : forall cwd base name l q, wf_base base ->
  publisher_paths cwd base name = Some l -> In q l -> inside base q.
Proof. exact publisher_contained. Qed.
Print Assumptions C19_publisher_contained.

(* "the service registry on disk is at every instant either the complete old version or the complete new
   version": every prefix of save_service_data's operations *)
Theorem C19_registry_atomic : forall s0 basedir chunks k,
  let final := registry_final basedir in
  let tmp := final ++ registry_tmp_ext in
  wf_st s0 -> unshared s0 tmp -> clean s0 -> no_link_at s0 tmp -> no_dir_at s0 tmp -> no_dir_at s0 final ->
  let s := run s0 (firstn k (registry_ops basedir chunks)) in
  (look s final = look s0 final \/ look s final = VFile (concat chunks)) /\ failed s = false /\
  (forall q, q <> tmp -> q <> final -> look s q = look s0 q) /\
  ((List.length (registry_ops basedir chunks) <= k)%nat -> look s final = VFile (concat chunks) /\ names s tmp = None).
Proof. exact registry_atomic. Qed.
Print Assumptions C19_registry_atomic.

(* ... and the same when an operation of the rewrite FAILS (EACCES, EROFS, ENOSPC, EIO, ENOENT: the k-th system call raises
   instead of being performed) rather than the process dying: still the complete old or the complete new version *)
Theorem C19_registry_fault_atomic : forall s0 basedir chunks k,
  let final := registry_final basedir in
  let tmp := final ++ registry_tmp_ext in
  wf_st s0 -> unshared s0 tmp -> clean s0 -> no_link_at s0 tmp -> no_dir_at s0 tmp -> no_dir_at s0 final ->
  let s := run_fault k s0 (registry_ops basedir chunks) in
  look s final = look s0 final \/ look s final = VFile (concat chunks).
Proof. exact registry_fault_atomic. Qed.
Print Assumptions C19_registry_fault_atomic.

(* a "remove the destination and rename again" fallback in move_into_place would break it (seeded change C19-r4s1) *)
Theorem C19_rename_retry_refuted :
  let s0 := mk_st [([47; 114]%N, F 0%nat); ([47; 116]%N, F 1%nat)] [[111]%N; [110]%N] in
  look (step_fault s0 (RenameRetry [47; 116]%N [47; 114]%N)) [47; 114]%N = VNone /\
  look (step_fault s0 (Rename [47; 116]%N [47; 114]%N)) [47; 114]%N = VFile [111]%N.
Proof. exact rename_retry_loses_registry. Qed.
Print Assumptions C19_rename_retry_refuted.
