(* C19 placeholder while the proofs are being written *)
Require Import Verif.lib.Upload.
