(* C19 -- File-accepting services stay inside their directory and publish atomically.
   Property theorems only; models in lib/Paths.v, lib/Upload.v, lib/UploadHist.v, lib/UploadConc.v (+ gen/UploadGen.v translated
   from the source), proofs in lib/PathsProofs.v, lib/UploadProofs.v, lib/UploadHistProofs.v, lib/UploadConcProofs.v. *)
From Coq Require Import NArith List Bool.
Import ListNotations.
Require Import Verif.lib.UploadShape Verif.gen.UploadGen Verif.lib.Paths Verif.lib.PathsProofs
               Verif.lib.Upload Verif.lib.UploadProofs Verif.lib.UploadHist Verif.lib.UploadHistProofs
               Verif.lib.UploadConc Verif.lib.UploadConcProofs.

(* "whatever file or incident name the remote peer supplies": what FilePath.child followed by the parent() test
   lets through is exactly base/<one component>, the component being normpath(name): non-empty, without
   separator, neither "." nor ".." *)
Theorem C19_accepted_names : forall cwd base name p, wf_base base ->
  guarded GuardParentEq cwd base name = Some p ->
  goodb (normpath name) = true /\ p = base ++ sep :: normpath name /\
  dirname p = base /\ basename p = normpath name.
Proof. exact guarded_spec. Qed.
Print Assumptions C19_accepted_names.

(* ... and FilePath.child alone is not enough: the empty name denotes the directory itself (D13 and its twins in
   the gatherer and the publisher), which is why each of the three call sites carries the guard *)
Theorem C19_child_alone_refuted : forall cwd base, wf_base base -> guarded NoGuard cwd base [] = Some base.
Proof. exact unguarded_lets_directory_through. Qed.
Print Assumptions C19_child_alone_refuted.

(* honest names are served, under their own name *)
Theorem C19_plain_names_accepted : forall g cwd base c, wf_base base -> goodb c = true ->
  guarded g cwd base c = Some (base ++ sep :: c).
Proof. exact guarded_accepts_good. Qed.
Print Assumptions C19_plain_names_accepted.

(* ... by the whole entry point remote_putfile (a literal up-front refusal, where the code has one, refuses no honest name) *)
Theorem C19_putfile_serves_good : forall cwd base c, wf_base base -> goodb c = true ->
  putfile_final cwd base c = Some (base ++ sep :: c).
Proof. exact putfile_serves_good. Qed.
Print Assumptions C19_putfile_serves_good.

(* "the upload service only ever creates or replaces files directly inside its configured directory": every path
   named by any operation (hence by any prefix) of a served putfile, complete or interrupted *)
Theorem C19_upload_contained : forall cwd base name blocks oc ops o p, wf_base base ->
  putfile cwd base name blocks oc = Some ops -> In o ops -> In p (touched o) -> inside base p.
Proof. exact putfile_contained. Qed.
Print Assumptions C19_upload_contained.

(* "an uploaded file appears under its final name only when complete": after ANY prefix of the operations (crash at
   any point, any pre-existing entries incl. symlinks at the final or the temporary name) the final name shows its
   old entry or the complete file; no operation went through a symlink; no other entry changed -- EXCEPT the temporary
   `final.partial` (the frame below says q <> final ++ ext): whatever is there is truncated and, in the end, gone.  A stale
   leftover is meant to go; but the service also accepts `x.partial` as a final name of its own, and then this is a published
   file: C19_upload_name_is_temporary_refuted below (known finding oracle/upload-name-is-another-uploads-temporary) *)
Theorem C19_atomic_publish : forall s0 final blocks k, no_dir_at s0 final ->
  wf_st s0 -> unshared s0 (final ++ putfile_tmp_ext) -> clean s0 -> no_dir_at s0 (final ++ putfile_tmp_ext) ->
  let s := run s0 (firstn k (upload_ops final blocks Done)) in
  (look s final = look s0 final \/ look s final = VFile (concat blocks)) /\
  followed s = false /\ failed s = false /\
  (forall q, q <> final ++ putfile_tmp_ext -> q <> final -> look s q = look s0 q).
Proof. exact upload_atomic. Qed.
Print Assumptions C19_atomic_publish.

(* the guard in front of open() must be the lstat-based islink(): an exists() guard lets a dangling symlink at the
   temporary name through and the file is then created through it, outside the directory (seeded change C19-s1) *)
Theorem C19_exists_guard_refuted :
  let tmp := ex_final ++ putfile_tmp_ext in
  wf_st ex_dangling /\ unshared ex_dangling tmp /\ clean ex_dangling /\ no_dir_at ex_dangling tmp /\
  followed (run ex_dangling [UnlinkIfExists tmp; Open tmp]) = true /\
  followed (run ex_dangling [UnlinkIfLink tmp; Open tmp]) = false.
Proof. exact exists_guard_insufficient. Qed.
Print Assumptions C19_exists_guard_refuted.

(* ... and a run that is not interrupted does publish the complete file and leaves no temporary *)
Theorem C19_upload_completes : forall s0 final blocks, no_dir_at s0 final ->
  wf_st s0 -> unshared s0 (final ++ putfile_tmp_ext) -> clean s0 -> no_dir_at s0 (final ++ putfile_tmp_ext) ->
  let s := run s0 (upload_ops final blocks Done) in
  look s final = VFile (concat blocks) /\ names s (final ++ putfile_tmp_ext) = None /\ failed s = false.
Proof. exact upload_completes. Qed.
Print Assumptions C19_upload_completes.

(* the upload arrived completely but cannot be published (the final name is an existing directory, rename(2) fails):
   after any prefix nothing but the temporary differs from the initial state -- in particular no file appears under the
   final name --, no symlink is followed, and once the failure path has run the temporary is gone and the call fails *)
Theorem C19_publish_failure : forall s0 final blocks k, names s0 final = Some D ->
  wf_st s0 -> unshared s0 (final ++ putfile_tmp_ext) -> clean s0 -> no_dir_at s0 (final ++ putfile_tmp_ext) ->
  let s := run s0 (firstn k (upload_ops final blocks Done)) in
  (forall q, q <> final ++ putfile_tmp_ext -> look s q = look s0 q) /\ followed s = false /\
  ((List.length (upload_ops final blocks Done) <= k)%nat -> names s (final ++ putfile_tmp_ext) = None /\ failed s = true).
Proof. exact upload_publish_failure. Qed.
Print Assumptions C19_publish_failure.

(* "an interrupted upload leaves neither a partial file under the final name nor a leftover temporary": source
   error, disconnect, or a block that cannot be written (oc = SrcError | BadBlock) after any number of blocks, and a
   crash anywhere inside that path *)
Theorem C19_interrupted_upload : forall oc s0 final blocks k, oc <> Done ->
  wf_st s0 -> unshared s0 (final ++ putfile_tmp_ext) -> clean s0 -> no_dir_at s0 (final ++ putfile_tmp_ext) ->
  let s := run s0 (firstn k (upload_ops final blocks oc)) in
  (forall q, q <> final ++ putfile_tmp_ext -> look s q = look s0 q) /\ followed s = false /\ failed s = false /\
  ((List.length (upload_ops final blocks oc) <= k)%nat -> names s (final ++ putfile_tmp_ext) = None).
Proof. exact upload_interrupted. Qed.
Print Assumptions C19_interrupted_upload.

(* "the incident gatherer only ever creates files directly inside its configured directory" *)
Theorem C19_gatherer_contained : forall cwd base name q, wf_base base ->
  gatherer_path cwd base name = Some q -> inside base q.
Proof. exact gatherer_contained. Qed.
Print Assumptions C19_gatherer_contained.

(* "... or reads": the publisher's get_incident *)
Theorem C19_publisher_contained : forall cwd base name l q, wf_base base ->
  publisher_paths cwd base name = Some l -> In q l -> inside base q.
Proof. exact publisher_contained. Qed.
Print Assumptions C19_publisher_contained.

(* "the service registry on disk is at every instant either the complete old version or the complete new
   version": every prefix of save_service_data's operations *)
Theorem C19_registry_atomic : forall s0 basedir chunks k,
  let final := registry_final basedir in
  let tmp := final ++ registry_tmp_ext in
  wf_st s0 -> unshared s0 tmp -> clean s0 -> no_link_at s0 tmp -> no_dir_at s0 tmp -> no_dir_at s0 final ->
  let s := run s0 (firstn k (registry_ops basedir chunks)) in
  (look s final = look s0 final \/ look s final = VFile (concat chunks)) /\ failed s = false /\
  (forall q, q <> tmp -> q <> final -> look s q = look s0 q) /\
  ((List.length (registry_ops basedir chunks) <= k)%nat -> look s final = VFile (concat chunks) /\ names s tmp = None).
Proof. exact registry_atomic. Qed.
Print Assumptions C19_registry_atomic.

(* ... and the same when an operation of the rewrite FAILS (EACCES, EROFS, ENOSPC, EIO, ENOENT: the k-th system call raises
   instead of being performed) rather than the process dying: still the complete old or the complete new version *)
Theorem C19_registry_fault_atomic : forall s0 basedir chunks k,
  let final := registry_final basedir in
  let tmp := final ++ registry_tmp_ext in
  wf_st s0 -> unshared s0 tmp -> clean s0 -> no_link_at s0 tmp -> no_dir_at s0 tmp -> no_dir_at s0 final ->
  let s := run_fault k s0 (registry_ops basedir chunks) in
  look s final = look s0 final \/ look s final = VFile (concat chunks).
Proof. exact registry_fault_atomic. Qed.
Print Assumptions C19_registry_fault_atomic.

(* a "remove the destination and rename again" fallback in move_into_place would break it (seeded change C19-r4s1) *)
Theorem C19_rename_retry_refuted :
  let s0 := mk_st [([47; 114]%N, F 0%nat); ([47; 116]%N, F 1%nat)] [[111]%N; [110]%N] in
  look (step_fault s0 (RenameRetry [47; 116]%N [47; 114]%N)) [47; 114]%N = VNone /\
  look (step_fault s0 (Rename [47; 116]%N [47; 114]%N)) [47; 114]%N = VFile [111]%N.
Proof. exact rename_retry_loses_registry. Qed.
Print Assumptions C19_rename_retry_refuted.

(* ======================= histories: crash, restart on the leftovers, links planted in between ======================= *)

(* the temporary name is an existing DIRECTORY (the one initial state the theorems above exclude): open() raises, the
   state after any prefix is the initial one (possibly marked failed), for every ending of the block stream *)
Theorem C19_tmp_is_directory : forall s0 final blocks oc k,
  failed s0 = false -> names s0 (final ++ putfile_tmp_ext) = Some D ->
  (run s0 (firstn k (upload_ops final blocks oc)) = s0 \/ run s0 (firstn k (upload_ops final blocks oc)) = fail s0) /\
  ((2 <= k)%nat -> failed (run s0 (firstn k (upload_ops final blocks oc))) = true).
Proof. exact upload_tmp_is_directory. Qed.
Print Assumptions C19_tmp_is_directory.

(* the file-system invariant (inode numbers below `next`, no second name for an inode) is kept by EVERY operation of the
   model, performed or failing -- which is what lets the per-call theorems be applied again after a restart *)
Theorem C19_fs_invariant : forall s o, Inv s -> Inv (step s o) /\ Inv (step_fault s o) /\ Inv (reboot s).
Proof. exact fs_invariant. Qed.
Print Assumptions C19_fs_invariant.

(* ... but Inv forbids EVERY hard link in the directory, which is more than is needed: only a TEMPORARY that is truncated and
   written must not be a second name of another entry's inode.  The weaker invariant InvT T (inode numbers below `next`; a name
   in T shares its inode with no other name) is kept by every operation that does not rename an entry from outside T to a name in
   T, performed or failing, and by a restart; the operations of an upload never do (they rename `final.partial`, which is in
   T = is_utmp = "ends in the temporary extension").  The upload-history theorems below are stated under InvT is_utmp: hard links
   among the other entries are allowed (lib: ex_hardlinks_ok is such a directory; Inv implies InvT T for every T: Inv_InvT).
   Likewise the registry theorems (rstate_ok: InvT with T = the one name services.json.tmp) and C19_gatherer_symlinks (T = the two
   names it opens).  STILL UNDER THE STRONGER Inv (honest label: not weakened in this round): C19_concurrent_symlink_refuted's
   witness and C19_concurrent_distinct_names (two uploads at once) -- Inv is sufficient there, not shown necessary. *)
Theorem C19_fs_invariant_temporaries : forall T s o, InvT T s ->
  (keepsT T o -> InvT T (step s o)) /\ InvT T (step_fault s o) /\ InvT T (reboot s).
Proof. exact fs_invariant_T. Qed.
Print Assumptions C19_fs_invariant_temporaries.

Theorem C19_upload_ops_keep_temporaries : forall final blocks oc o, In o (upload_ops final blocks oc) -> keepsT is_utmp o.
Proof. exact upload_ops_keepsT. Qed.
Print Assumptions C19_upload_ops_keep_temporaries.

(* "only ever ... directly inside", "only when complete", "neither a partial file under the final name ...", for ALL
   HISTORIES: any sequence of uploads (any accepted names, any block lists, each completed, interrupted by the source,
   or killed before any of its operations), every one starting on the directory its predecessors left behind (stale
   `.partial` files included), with symlinks planted at arbitrary names between the calls: no operation ever goes
   through a symlink, directories stay, and every name that is not the temporary of one of the uploads shows its
   initial entry, a planted link, or the COMPLETE content of an upload sent under that name.  No hypothesis on the
   initial directory beyond the (weaker) invariant InvT is_utmp: no `*.partial` name is a hard link of another entry.  THE LAST CONJUNCT SAYS NOTHING ABOUT A NAME THAT IS THE TEMPORARY OF ONE OF THE
   UPLOADS (~ In q (utmps es)) -- also when that name is the FINAL name of another upload of the history: the statement at every
   final name, with that exclusion as its explicit guard, is C19_upload_history_final_names; that the guard cannot be dropped is
   C19_upload_name_is_temporary_refuted.  SEQUENTIAL: one upload at a time touches a given name; two OVERLAPPING uploads
   of the same name share `<name>.partial` (one inode) and are outside every theorem of this file -- the harness replays
   them on the code (oracle/overlapping-uploads-same-name-tear-file). *)
Theorem C19_upload_history_sequential : forall s0 es,
  InvT is_utmp s0 -> failed s0 = false -> followed s0 = false ->
  InvT is_utmp (uhistory s0 es) /\ failed (uhistory s0 es) = false /\ followed (uhistory s0 es) = false /\
  dsame s0 (uhistory s0 es) /\
  (forall q, ~ In q (utmps es) -> uallowed s0 es q (look (uhistory s0 es) q)).
Proof. exact (uhistory_safe_gen (InvT is_utmp) good_inv_InvT). Qed.
Print Assumptions C19_upload_history_sequential.

(* the same at EVERY FINAL NAME of the history, under the exact guard `no final name of the history is the temporary of an upload
   of the history` (no_name_collision: nobody uploads both `x` and `x.partial`): each single event leaves each final name as it
   was, or plants a link there, or publishes the complete content of an upload sent under that very name -- a published file
   stays until something is sent under its own name --, and at the end each final name shows its initial entry, a planted link or
   the complete content of one of its uploads.  (Inside the guard: lib ex_hist_no_collision.) *)
Theorem C19_upload_history_final_names : forall s0 es1 e es2,
  InvT is_utmp s0 -> failed s0 = false -> followed s0 = false -> no_name_collision (es1 ++ e :: es2) ->
  forall f, In f (ufinals (es1 ++ e :: es2)) ->
    (look (uhistory s0 (es1 ++ [e])) f = look (uhistory s0 es1) f \/
     (exists t, e = UPlant f t /\ look (uhistory s0 (es1 ++ [e])) f = VLink t) \/
     (exists blocks k, e = UUpload f blocks Done k /\ look (uhistory s0 (es1 ++ [e])) f = VFile (concat blocks))) /\
    uallowed s0 (es1 ++ e :: es2) f (look (uhistory s0 (es1 ++ e :: es2)) f).
Proof. exact (uhistory_final_names (InvT is_utmp) good_inv_InvT). Qed.
Print Assumptions C19_upload_history_final_names.

(* ... and the guard cannot be dropped, the service does not enforce it (FINDING, known:
   oracle/upload-name-is-another-uploads-temporary): putfile("x.partial", COMPLETE) succeeds and publishes x.partial; then
   putfile("x", ..) -- (a) the source fails after a block: the error path unlinks x.partial, the published file is gone, the
   directory is EMPTY; (b) the process is killed after its first write: x.partial, a published final name, holds a prefix of
   ANOTHER upload (in the model the empty prefix: the block is still in the dead process's buffer).  Sequential, names only.
   Replayed on the code by the harness (collision histories) and compared with this model. *)
Theorem C19_upload_name_is_temporary_refuted :
  let xp := ex_final ++ putfile_tmp_ext in
  let s0 := mk_st [] [] in
  let up1 := UUpload xp [ex_complete] Done 99%nat in
  let err := UUpload ex_final [[97; 97]]%N SrcError 99%nat in
  let kill := UUpload ex_final [[97; 97]; [98; 98]]%N Done 3%nat in
  Inv s0 /\ clean s0 /\
  look (uhistory s0 [up1]) xp = VFile ex_complete /\ names (uhistory s0 [up1]) (xp ++ putfile_tmp_ext) = None /\
  In xp (ufinals [up1; err]) /\ In xp (utmps [up1; err]) /\ ~ no_name_collision [up1; err] /\ ~ no_name_collision [up1; kill] /\
  look (uhistory s0 [up1; err]) xp = VNone /\ look (uhistory s0 [up1; err]) ex_final = VNone /\
  look (uhistory s0 [up1; kill]) xp = VFile [] /\
  ~ uallowed s0 [up1; kill] xp (look (uhistory s0 [up1; kill]) xp).
Proof. exact upload_name_is_temporary_refuted. Qed.
Print Assumptions C19_upload_name_is_temporary_refuted.

(* recovery: after any such history an upload that runs to completion publishes the complete file, leaves no temporary *)
Theorem C19_upload_recovery_sequential : forall s0 es final blocks,
  InvT is_utmp s0 -> failed s0 = false -> followed s0 = false ->
  names s0 (final ++ putfile_tmp_ext) <> Some D -> names s0 final <> Some D ->
  look (run (uhistory s0 es) (upload_ops final blocks Done)) final = VFile (concat blocks) /\
  names (run (uhistory s0 es) (upload_ops final blocks Done)) (final ++ putfile_tmp_ext) = None /\
  failed (run (uhistory s0 es) (upload_ops final blocks Done)) = false.
Proof. exact (uhistory_recovers (InvT is_utmp) good_inv_InvT). Qed.
Print Assumptions C19_upload_recovery_sequential.

(* a link planted WHILE a call runs (between the islink() test and open()) IS followed: containment does not hold against
   a concurrent local actor with write access to the directory; planted before the call it is removed.  The property
   quantifies over what the REMOTE peer supplies: recorded as outside it (harness: note `toctou`, replayed on the code) *)
Theorem C19_concurrent_symlink_refuted :
  let tmp := ex_final ++ putfile_tmp_ext in
  let s0 := mk_st [] [] in
  Inv s0 /\ clean s0 /\
  followed (run (plant (run s0 [UnlinkIfLink tmp]) tmp [47; 101; 116; 99; 47; 110; 101; 119]%N) [Open tmp]) = true /\
  followed (run (plant s0 tmp [47; 101; 116; 99; 47; 110; 101; 119]%N) [UnlinkIfLink tmp; Open tmp]) = false.
Proof. exact concurrent_symlink_refuted. Qed.
Print Assumptions C19_concurrent_symlink_refuted.

(* "the service registry on disk is at every instant either the complete old or the complete new version", for ALL
   HISTORIES of rewrites: each killed before any operation, or with any system call failing, or completing; every one
   starting on what its predecessors left (a stale services.json.tmp included); links planted anywhere except at the
   temporary name (save_service_data opens it without looking: a local actor who plants a link THERE wins) *)
Theorem C19_registry_history : forall basedir s0 es, rstate_ok basedir s0 ->
  (forall p t, In (RPlant p t) es -> p <> registry_final basedir ++ registry_tmp_ext) ->
  rstate_ok basedir (rhistory basedir s0 es) /\
  (forall q, q <> registry_final basedir ++ registry_tmp_ext -> rallowed s0 es q (look (rhistory basedir s0 es) q)).
Proof. exact rhistory_safe. Qed.
Print Assumptions C19_registry_history.

(* save_service_data / load_service_data as a pair (they name the same file: translated from both functions): after any
   prefix or any failing system call of a rewrite, what load reads is what it read before or the complete new text *)
Theorem C19_registry_save_load : forall s0 basedir chunks k f, rstate_ok basedir s0 ->
  registry_load (do_revent basedir s0 (RSave chunks k f)) basedir = registry_load s0 basedir \/
  registry_load (do_revent basedir s0 (RSave chunks k f)) basedir = LoadedJson (concat chunks).
Proof. exact registry_save_load. Qed.
Print Assumptions C19_registry_save_load.

(* recovery: after any history a rewrite that runs to completion is what load reads, and no services.json.tmp is left *)
Theorem C19_registry_recovery : forall basedir s0 es chunks, rstate_ok basedir s0 ->
  (forall p t, In (RPlant p t) es -> p <> registry_final basedir ++ registry_tmp_ext) ->
  registry_load (run (rhistory basedir s0 es) (registry_ops basedir chunks)) basedir = LoadedJson (concat chunks) /\
  names (run (rhistory basedir s0 es) (registry_ops basedir chunks)) (registry_final basedir ++ registry_tmp_ext) = None.
Proof. exact rhistory_recovers. Qed.
Print Assumptions C19_registry_recovery.

(* ======================= the remaining read / write paths ======================= *)

(* "... or read": list_incident_names (remote_list_incidents, catch_up) ON A DIRECTORY STATE: every file reported -- and then
   opened by get_incident_trigger -- is an entry of the log directory itself that carries the prefix (lexically) AND is not a
   symbolic link (physically), whatever `since` the peer sends.  The second half needs the `if os.path.islink(fullname): continue`
   of the source (fix 81004d7; finding oracle/publisher-listing-follows-symlink before it): the flag is translated from the
   source and the proof is applied to it with eq_refl -- without the test this theorem does not build. *)
Theorem C19_listing_contained : forall s base listing since n p, wf_base base ->
  (forall fn, In fn listing -> goodb fn = true) ->
  In (n, p) (list_incidents_at s base listing since) ->
  inside base p /\ is_link s p = false /\
  exists fn, In fn listing /\ p = base ++ sep :: fn /\ prefixb listing_prefix fn = true.
Proof. exact (listing_contained_at eq_refl). Qed.
Print Assumptions C19_listing_contained.

(* ... so EVERY sequence of reads of reported files (remote_list_incidents reads all of them in listing order, catch_up one per
   basename in sorted order) goes through no symbolic link, on every directory state *)
Theorem C19_listing_reads_no_link : forall s base listing since ops, followed s = false ->
  (forall o, In o ops -> exists n p, o = ROpen p /\ In (n, p) (list_incidents_at s base listing since)) ->
  followed (rrun s ops) = false.
Proof. exact (listing_reads_contained eq_refl). Qed.
Print Assumptions C19_listing_reads_no_link.

(* "... or read", the gatherer's side: IncidentObserver.connect reads `latest` of its own directory (and sends the content to the
   publisher as since=); a symbolic link there is not read through (fix f12f98a; finding
   oracle/gatherer-state-read-follows-symlink before it; eq_refl on the translated flag as above) *)
Theorem C19_gatherer_state_read : forall s base, wf_base base ->
  followed (rrun s (connect_read_ops base)) = followed s /\
  (forall o, In o (connect_read_ops base) -> exists p, (o = ROpen p \/ o = ROpenUnlessLink p) /\ inside base p).
Proof. intros s base Hb. split; [exact (connect_read_safe eq_refl s base)|intros o Ho; exact (connect_read_contained base o Hb Ho)]. Qed.
Print Assumptions C19_gatherer_state_read.

(* the lstat test in front of a read is NECESSARY: a bare open() of a name that is a symbolic link goes through it, the
   guarded one does not (this is what the code did before the two fixes; lib: listing_unguarded_follows,
   connect_read_unguarded_follows say so for the unguarded translation) *)
Theorem C19_unguarded_read_refuted : forall s p t, failed s = false -> names s p = Some (L t) ->
  followed (rstep s (ROpen p)) = true /\ followed (rstep s (ROpenUnlessLink p)) = followed s.
Proof. exact read_link_follows. Qed.
Print Assumptions C19_unguarded_read_refuted.

(* both files written per incident (savefile and `latest`) *)
Theorem C19_gatherer_writes_contained : forall cwd base name l q, wf_base base ->
  gatherer_writes cwd base name = Some l -> In q l -> inside base q.
Proof. exact gatherer_writes_contained. Qed.
Print Assumptions C19_gatherer_writes_contained.

(* ======================= symbolic links AT the names the gatherer writes / the publisher reads ======================= *)

(* "only ever create, replace ... directly inside ... (names of existing symlinks)", PHYSICALLY, for the gatherer's two writes
   (`<name>.flog.bz2`, `latest`): no prefix of the call goes through a symbolic link, whatever is at the two names beforehand.
   UNCONDITIONAL: whether save_incident / update_latest remove a pre-existing link before opening is read off the source
   (gatherer_save_guarded, gatherer_latest_guarded in gen/UploadGen.v; both guards are there since fix 34db49e, finding
   oracle/gatherer-follows-preexisting-symlink before it) and the lemma is applied to the translated flags with eq_refl: if
   either guard goes away the flag translates to false and THIS PROOF NO LONGER BUILDS.
   (lib/UploadHistProofs.gatherer_symlinks keeps the flag-keyed form: with a guard missing the link IS followed.) *)
Theorem C19_gatherer_symlinks : forall s q latest chunks ltext k,
  InvT (fun x => x = q \/ x = latest) s -> failed s = false -> followed s = false -> names s q <> Some D -> names s latest <> Some D ->
  followed (run s (firstn k (gatherer_ops q latest chunks ltext))) = false.
Proof. exact (proj1 gatherer_symlinks eq_refl). Qed.
Print Assumptions C19_gatherer_symlinks.

(* ... and the guard is NECESSARY: the same write without `if islink(p): unlink(p)` in front of the open goes through a link
   at p (what save_incident / update_latest did before the fix), with it (file_write_ops true) it does not *)
Theorem C19_unguarded_write_refuted : forall s p t chunks, failed s = false -> names s p = Some (L t) ->
  followed (run s (file_write_ops false p chunks)) = true /\
  (InvT (eq p) s -> followed s = false -> followed (run s (file_write_ops true p chunks)) = false).
Proof.
  intros s p t chunks Hf E. split; [exact (proj1 (write_unguarded_follows s p t chunks Hf E))|].
  intros HI Hfl. assert (Hnd : names s p <> Some D) by (rewrite E; discriminate).
  pose proof (write_guarded_safe (eq p) s p chunks (List.length (file_write_ops true p chunks)) eq_refl HI Hf Hfl Hnd) as (A & _).
  rewrite firstn_all in A. exact A.
Qed.
Print Assumptions C19_unguarded_write_refuted.

(* "... or read": remote_get_incident opens the selected file behind `if os.path.islink(fn): raise KeyError` (fix 6af30bc; finding
   oracle/publisher-follows-preexisting-symlink before it): on every directory state, for every name, the read goes through no
   symbolic link.  UNCONDITIONAL, eq_refl on the translated flag publisher_link_refused as above; the read is an operation list
   (publisher_read_ops: ROpenUnlessLink | ROpen) run by the read semantics rstep -- necessity of the test:
   C19_unguarded_read_refuted *)
Theorem C19_publisher_symlinks : forall s cwd base name,
  publisher_reads_through_link s cwd base name = false /\
  (forall o, In o (publisher_read_ops s cwd base name) -> exists p, o = ROpenUnlessLink p).
Proof.
  intros s cwd base name. split; [exact (proj1 publisher_symlinks eq_refl s cwd base name)|].
  exact (publisher_read_ops_guarded eq_refl s cwd base name).
Qed.
Print Assumptions C19_publisher_symlinks.

(* ======================= a system call of an upload FAILS (errno instead of death) ======================= *)

(* whichever operation of an upload fails -- a failing write takes the _got_error/_err path, any other one raises out of its
   statement, the handler of the publishing rename still runs --: the final name shows its old entry or the complete file,
   nothing goes through a link, no other entry changes *)
Theorem C19_upload_fault_atomic : forall s0 final blocks oc k,
  InvT is_utmp s0 -> failed s0 = false -> followed s0 = false ->
  followed (upload_fault k s0 final blocks oc) = false /\
  (forall q, q <> final ++ putfile_tmp_ext -> q <> final -> look (upload_fault k s0 final blocks oc) q = look s0 q) /\
  (look (upload_fault k s0 final blocks oc) final = look s0 final \/
   (oc = Done /\ look (upload_fault k s0 final blocks oc) final = VFile (concat blocks))).
Proof. exact (upload_fault_atomic (InvT is_utmp) good_inv_InvT). Qed.
Print Assumptions C19_upload_fault_atomic.

(* ... but "nor a leftover temporary" does not survive a failing f.close() (ENOSPC at flush) in _done or _err: the unlink after
   it is skipped.  Outside the property's quantifier (source error / disconnect / crash); replayed on the code as an observation *)
Theorem C19_upload_fault_leftover_refuted :
  let s0 := mk_st [] [] in
  let tmp := ex_final ++ putfile_tmp_ext in
  Inv s0 /\ clean s0 /\
  nth_error (upload_ops ex_final [[97]]%N SrcError) 3 = Some (Close tmp) /\
  names (upload_fault 3 s0 ex_final [[97]]%N SrcError) tmp = Some (F 0%nat) /\
  nth_error (upload_ops ex_final [[97]]%N Done) 3 = Some (Close tmp) /\
  names (upload_fault 3 s0 ex_final [[97]]%N Done) tmp = Some (F 0%nat) /\
  names (run s0 (upload_ops ex_final [[97]]%N SrcError)) tmp = None.
Proof. exact upload_fault_leftover_refuted. Qed.
Print Assumptions C19_upload_fault_leftover_refuted.

(* ======================= two uploads at the same time (one file system, two file objects) ======================= *)

(* ONE name: A delivers AAAA (buffered), B uploads BBBBBBBB completely and publishes, A finishes: its flush lands in the
   published inode -- the final name shows AAAABBBB, neither upload's content; A fails (ENOENT), B succeeds.  Known finding
   oracle/overlapping-uploads-same-name-tear-file; the schedule is replayed on the code and compared with this model. *)
Theorem C19_concurrent_same_name_refuted :
  let s := run2 (lift2 (mk_st [] [])) (tear_schedule ex_final [ex_A] [ex_B]) in
  look2 s ex_final = VFile [65; 65; 65; 65; 66; 66; 66; 66]%N /\
  look2 s ex_final <> VFile ex_A /\ look2 s ex_final <> VFile ex_B /\
  fA s = true /\ fB s = false /\ fo2 s = false /\
  sched (upload_ops ex_final [ex_A] Done) (upload_ops ex_final [ex_B] Done) 6 6 (tear_schedule ex_final [ex_A] [ex_B]).
Proof. exact concurrent_same_name_refuted. Qed.
Print Assumptions C19_concurrent_same_name_refuted.

(* DISTINCT names -- the exact guard: final_A, final_A.partial, final_B, final_B.partial pairwise distinct --: for EVERY
   schedule (each call's operations in order, interleaved arbitrarily, each call cut anywhere, any ending of either block
   stream) nothing goes through a link, each final name shows its old entry or that call's complete file, and no name
   outside the four changes.  (lib: concurrent_simulation -- on each call's names the shared file system agrees with that
   call run ALONE, so all single-upload theorems lift.) *)
Theorem C19_concurrent_distinct_names : forall s0 fa ba oca fb bb ocb kA kB l,
  Inv s0 -> failed s0 = false -> followed s0 = false -> handle s0 = None ->
  fa <> fb -> fa <> fb ++ putfile_tmp_ext -> fb <> fa ++ putfile_tmp_ext ->
  sched (upload_ops fa ba oca) (upload_ops fb bb ocb) kA kB l ->
  fo2 (run2 (lift2 s0) l) = false /\
  (look2 (run2 (lift2 s0) l) fa = look s0 fa \/ (oca = Done /\ look2 (run2 (lift2 s0) l) fa = VFile (concat ba))) /\
  (look2 (run2 (lift2 s0) l) fb = look s0 fb \/ (ocb = Done /\ look2 (run2 (lift2 s0) l) fb = VFile (concat bb))) /\
  (forall q, q <> fa -> q <> fa ++ putfile_tmp_ext -> q <> fb -> q <> fb ++ putfile_tmp_ext ->
     look2 (run2 (lift2 s0) l) q = look s0 q).
Proof. exact concurrent_distinct_names. Qed.
Print Assumptions C19_concurrent_distinct_names.
