(* C04 -- Calls execute in the order issued, each at most once.
   Property theorems only; model in lib/Order.v (driven by the queue disciplines that gen/OrderGen.v reads from
   slicers/root.py, broker.py, eventual.py), proofs in lib/OrderProofs.v.

   `run ops` is the state after an arbitrary sequence of
     Issue stalls fate | StallRelease | Deliver | GiftReady k ok | Turn | Disconnect | EarlyGift k ok | SenderLost | GiftReady0 k ok
   i.e. calls issued at any time (also while the sender is paused inside a streaming argument), stalls released at
   any time, bytes arriving at any time, each of the n third-party references of a call (fate FGift n) resolved or
   failed at any time and in any order -- also while the call is still being received (EarlyGift) --, eventual-queue turns at
   any time, the receiver or the sender losing the connection at any time, and references that the peer sent with giftID 0.
   Call k is the k-th call handed to Broker.send (C04_ids_are_issue_order). *)
From Coq Require Import List Arith ZArith Sorted.
Import ListNotations.
Require Import Verif.lib.PyLite Verif.lib.Token Verif.lib.Recv Verif.lib.ObjChunks.
Require Import Verif.gen.EventualGen Verif.lib.Eventual.
Require Import Verif.gen.OrderGen Verif.lib.Order Verif.lib.OrderProofs Verif.lib.OrderHooksProofs Verif.lib.OrderBytes Verif.lib.OrderBytesProofs
        Verif.lib.OrderEventual.

(* ids are issue indices: the issue order of a history is 0, 1, ..., (number of Issue ops) - 1 *)
Theorem C04_ids_are_issue_order : forall ops, issued (run ops) = seq 0 (count_issues ops).
Proof. exact issued_is_issue_count. Qed.
Print Assumptions C04_ids_are_issue_order.

(* "remote methods are entered in exactly the order in which the caller invoked callRemote": for every history,
   the sequence of entered calls is a subsequence of the issue order, in that order ... *)
Theorem C04_order : forall ops, sublist (entered (run ops)) (issued (run ops)).
Proof. exact entered_in_issue_order. Qed.
Print Assumptions C04_order.

(* ... equivalently the ids of the entered calls are strictly increasing ... *)
Theorem C04_order_increasing : forall ops, StronglySorted lt (entered (run ops)).
Proof. exact entered_increasing. Qed.
Print Assumptions C04_order_increasing.

(* "... and each call is entered at most once" *)
Theorem C04_at_most_once : forall ops, NoDup (entered (run ops)).
Proof. exact entered_at_most_once. Qed.
Print Assumptions C04_at_most_once.

(* "regardless of calls that stall while a gift is being resolved, of calls rejected by the schema": head-of-line
   blocking -- when call c is entered, every earlier call that has been completely received (queued) has already
   been entered or has failed *)
Theorem C04_head_of_line : forall ops before c after c',
  history (run ops) = before ++ Entered c :: after ->
  c' < c -> In (Queued c') (history (run ops)) ->
  In (Entered c') before \/ In (Failed c') before.
Proof. exact head_of_line. Qed.
Print Assumptions C04_head_of_line.

(* at most one dequeued call is waiting for its arguments at any time *)
Theorem C04_one_waiting : forall ops, List.length (waiting (run ops)) <= 1.
Proof. exact one_waiting. Qed.
Print Assumptions C04_one_waiting.

(* no call disappears: an issued call is entered, still on its way (sender queue, being serialized, wire, inbound
   queue, waiting), was explicitly refused, or was queued on the receiver when it lost the connection *)
Theorem C04_no_silent_loss : forall ops c,
  c < next_id (run ops) ->
  In c (entered (run ops)) \/ In c (pipeline (run ops)) \/
  In (Failed c) (history (run ops)) \/ In (Rejected c) (history (run ops)) \/ In c (ids (dropped (run ops))).
Proof. exact no_silent_loss. Qed.
Print Assumptions C04_no_silent_loss.

(* "calls issued while the sender is paused in the middle of streaming a large argument" are not left behind:
   whenever nothing is being serialized the send queue is empty *)
Theorem C04_sender_never_idle_with_work : forall ops, cur (run ops) = None -> sendq (run ops) = [].
Proof. exact sender_never_idle_with_work. Qed.
Print Assumptions C04_sender_never_idle_with_work.

(* ... also when the later calls are issued from the sender's OWN stack, in the middle of the serialization of a call
   (application code that a slicer runs -- Copyable.getStateToCopy, the body of a streaming slicer before / between / after its
   chunks and pauses -- invokes callRemote; RootSlicer.send then only enqueues).  lib/Order.v models this with a HOOK TABLE H: an
   entry ((k, left), inner) makes the serialization of call k issue the calls `inner` at the control point at which it still has
   `left` Deferreds to wait for.  `nrun H ops` is the history in which only the calls of ordinary code are ops and the others come
   out of H when their moment comes -- inside the issuing send() on an idle sender, out of a later StallRelease when the hooked call
   was only QUEUED on a busy sender (pump_h), recursively for calls issued by hooks.  For EVERY table, EVERY history and therefore
   every state of the sender (no hypothesis on `cur`; round 6 had cur = None and a model that dropped the hooks of a queued call)
   the connection is in exactly the state of the flat history n_flat -- the same ops with an Issue op for each call issued from
   inside, at the point where it was issued.  So a history with such calls IS a history `run ops`, and every theorem of this
   file applies to it.  (That the hooks fire at the control points where the real slicers run them is the correspondence:
   harness/c04.py evaluates observe_steps_h on the real scenarios and compares with the real sender after every step.) *)
Theorem C04_reentrant_history_is_flat_history : forall H ops, n_state (nrun H ops) = run (n_flat (nrun H ops)).
Proof. exact hooks_run_is_history. Qed.
Print Assumptions C04_reentrant_history_is_flat_history.

(* the two single steps on top of any such history: callRemote from ordinary code (idle or busy sender), and the end of a pause *)
Theorem C04_reentrant_issue_is_history : forall H ops st f,
  let n := nrun H ops in
  fst (fst (issue_h st f (n_hooks n) (n_state n))) =
  run (n_flat n ++ Issue st f :: issue_ops (snd (issue_h st f (n_hooks n) (n_state n)))).
Proof. exact reentrant_issue_is_history. Qed.
Print Assumptions C04_reentrant_issue_is_history.

Theorem C04_reentrant_issue_after_pause_is_history : forall H ops,
  let n := nrun H ops in
  fst (fst (release_h (n_hooks n) (n_state n))) =
  run (n_flat n ++ StallRelease :: issue_ops (snd (release_h (n_hooks n) (n_state n)))).
Proof. exact reentrant_issue_after_pause_is_history. Qed.
Print Assumptions C04_reentrant_issue_after_pause_is_history.

(* ... and the hooks of a call that was queued behind a paused one are not lost: when that pause ends (last Deferred, no hook of
   its own at that point) the queued call c is taken off the queue, ITS hook runs -- the calls are put at the end of the queue,
   numbered after everything issued meanwhile --, the entry is used up, and c pauses *)
Theorem C04_hooks_of_a_queued_call_run_when_it_is_dequeued : forall H s c0 c rest,
  cur s = Some (c0, 1) -> h_find (cid c0) 0 H = [] -> sendq s = c :: rest -> stalls c = S (pred (stalls c)) ->
  let H' := h_drop (cid c0) 0 H in
  release_h H s =
    (with_cur (Some (c, stalls c)) (fold_left enqueue1 (h_find (cid c) (stalls c) H') (wrote c0
        (mk (next_id s) rest None (wire s) (inq s) (waiting s) (evq s) (trace s) (lost s) (dropped s) (early s) (cut s)))),
     h_drop (cid c) (stalls c) H', h_find (cid c) (stalls c) H').
Proof. exact hooks_of_a_queued_call_run_when_it_is_dequeued. Qed.
Print Assumptions C04_hooks_of_a_queued_call_run_when_it_is_dequeued.

(* progress of the receiver: a turn of the eventual queue that holds a doNextCall enters the ready head *)
Theorem C04_turn_enters_ready_head : forall s c rest,
  lost s = false -> waiting s = [] -> inq s = (c, Ready) :: rest -> evq s <> [] -> is_late c = false ->
  In (cid c) (entered (turn s)).
Proof. exact turn_enters_ready_head. Qed.
Print Assumptions C04_turn_enters_ready_head.

(* ... and the receiver is never stuck: a queued call with nothing waiting always has a doNextCall scheduled *)
Theorem C04_receiver_never_stuck : forall ops,
  lost (run ops) = false -> inq (run ops) <> [] -> waiting (run ops) = [] -> evq (run ops) <> [].
Proof. exact receiver_never_stuck. Qed.
Print Assumptions C04_receiver_never_stuck.

(* from every reachable state of a live connection, releasing the stalls, delivering the bytes, resolving the gifts and
   running turns (no new calls, no failing gifts, no loss) empties the whole pipeline ... *)
Theorem C04_can_always_settle : forall ops, lost (run ops) = false -> cut (run ops) = None ->
  exists more, Forall settle_op more /\ pipeline (run (ops ++ more)) = [].
Proof. exact can_always_settle. Qed.
Print Assumptions C04_can_always_settle.

(* ... so every issued call can still be brought to a conclusion: it is entered (exactly once, by C04_at_most_once)
   or explicitly refused -- none is lost, whatever was stalled, blocked or rejected before *)
Theorem C04_eventually_entered_or_refused : forall ops, lost (run ops) = false -> cut (run ops) = None ->
  exists more, Forall settle_op more /\
    forall c, c < count_issues ops ->
      In c (entered (run (ops ++ more))) \/ In (Failed c) (history (run (ops ++ more))) \/
      In (Rejected c) (history (run (ops ++ more))).
Proof. exact eventually_entered_or_refused. Qed.
Print Assumptions C04_eventually_entered_or_refused.

(* "calls issued while the sender is paused in the middle of streaming a large argument", end to end: at every moment
   what has been entered, the delivery waiting for its gifts, the deliveries dropped by a loss, the inbound queue, the
   wire, the call being serialized (paused or not) and the calls queued behind it on the sender form ONE strictly
   increasing sequence of issue indices -- so a call issued during a pause can neither overtake the paused call nor any
   earlier one, anywhere on the path *)
Theorem C04_whole_path_in_issue_order : forall ops,
  StronglySorted lt (entered (run ops) ++ wait_ids (run ops) ++ ids (dropped (run ops)) ++ inq_ids (run ops) ++
                     ids (wire (run ops)) ++ cur_ids (run ops) ++ ids (sendq (run ops))).
Proof. exact whole_path_in_issue_order. Qed.
Print Assumptions C04_whole_path_in_issue_order.

(* "regardless of calls that stall while a third-party reference (gift) is being resolved": a delivery with n >= 1
   unresolved references becomes runnable exactly when all of them have resolved -- after the results rs of the first
   |rs| <= n of them its ready_deferred has fired with a failure iff one failed, with success iff all n have resolved, and
   not at all otherwise.  gnet_init / gifts_run are built from and_cb, and_init, update_child, args_close_*, which
   gen/OrderGen.v translates statement by statement from util.AsyncAND and call.ArgumentUnslicer *)
Theorem C04_runnable_iff_all_gifts_resolved : forall n rs, 1 <= n -> List.length rs <= n ->
  g_out (gifts_run rs (gnet_init n)) =
    if forallb (fun b => b) rs then (if List.length rs =? n then Some true else None) else Some false.
Proof. intros n rs Hn Hl. exact (gifts_all_or_first_failure rs n (gnet_init n) (live_init n Hn) Hl). Qed.
Print Assumptions C04_runnable_iff_all_gifts_resolved.

(* the same when some references resolved or failed EARLY, i.e. before their call was completely received (`pre`), m are
   unresolved when the call is complete and rs are the results of the first |rs| of those: failure iff one failed (early
   or late), success iff all have resolved, nothing otherwise.  Still excluded: references nested in containers (list /
   dict / tuple arguments), whose unslicers put one more util.AsyncAND -- the same translated and_cb -- between the
   reference and the arguments' AsyncAND (direct oracle only) *)
Theorem C04_runnable_iff_all_gifts_resolved_any_time_partial : forall pre m rs,
  1 <= List.length pre + m -> List.length rs <= m ->
  g_out (gifts_run rs (gnet_close pre m)) =
    if all_ok (pre ++ rs) then (if List.length rs =? m then Some true else None) else Some false.
Proof. exact gifts_any_time. Qed.
Print Assumptions C04_runnable_iff_all_gifts_resolved_any_time_partial.

(* connection loss (Broker.finish on the receiver): from then on no call is entered, whatever happens next -- calls
   issued, stalls released, bytes, gifts resolving (the delivery that was waiting for one is refused, not entered), turns *)
(* EXTRA THEOREMS, BEYOND THE PROPERTY TEXT (C04 says nothing about connection loss): robustness observation.
   FULL STATEMENT (false, see below): forall ops more, lost (run ops) = true -> entered (run (ops ++ more)) = entered (run ops).
   Proved: the same for every continuation that does not contain the successful resolution of a reference the PEER sent with
   giftID 0 (honest senders never do: Broker.makeGift counts from 1) -- and for EVERY continuation as soon as Broker._doCall
   refuses to run on a finished Broker (docall_checks_disconnected, read from the source: false on the current tree) *)
Theorem C04_nothing_entered_after_loss_partial : forall ops more,
  lost (run ops) = true -> Forall acked_op more \/ docall_checks_disconnected = true ->
  entered (run (ops ++ more)) = entered (run ops).
Proof. exact nothing_entered_after_loss. Qed.
Print Assumptions C04_nothing_entered_after_loss_partial.

(* (beyond the property text: robustness observation) ... and with such a reference it fails: the call is entered after the
   receiver has lost the connection -- once, and in order, so C04 itself holds.  The witness is replayed on the real Broker
   pair by the check (corpus r5b_giftid0_after_loss.json), which records a note, not a violation *)
Theorem C04_nothing_entered_after_loss_refuted : docall_checks_disconnected = false ->
  exists ops more, lost (run ops) = true /\ entered (run ops) = [] /\ entered (run (ops ++ more)) = [0].
Proof. exact nothing_entered_after_loss_refuted. Qed.
Print Assumptions C04_nothing_entered_after_loss_refuted.

(* the SENDER loses the connection (possibly paused in the middle of a call, with calls queued): it goes on serializing
   into a dead transport; at most the calls that were completely on the wire at that moment can still arrive, whatever
   happens next.  (Order and at-most-once hold as for every history: C04_order, C04_at_most_once.) *)
Theorem C04_after_sender_loss_only_in_flight_arrive : forall ops more k, cut (run ops) = Some k ->
  arrived (run (ops ++ more)) <= arrived (run ops) + k.
Proof. exact after_sender_loss_only_in_flight_arrive. Qed.
Print Assumptions C04_after_sender_loss_only_in_flight_arrive.

Theorem C04_sender_loss_cuts_at_wire : forall ops, cut (run ops) = None ->
  cut (run (ops ++ [SenderLost])) = Some (List.length (wire (run ops))).
Proof. exact sender_loss_cuts_at_wire. Qed.
Print Assumptions C04_sender_loss_cuts_at_wire.

Theorem C04_loss_is_final : forall ops more, lost (run ops) = true -> lost (run (ops ++ more)) = true.
Proof. exact loss_is_final. Qed.
Print Assumptions C04_loss_is_final.

(* deliveries are dropped only by a loss *)
Theorem C04_dropped_only_after_loss : forall ops, lost (run ops) = false -> dropped (run ops) = [].
Proof. exact dropped_only_after_loss. Qed.
Print Assumptions C04_dropped_only_after_loss.

(* "regardless of packetisation".  lib/OrderBytes.v puts C07's tokenizer (Recv.feed, instantiated as in lib/ObjChunks.v)
   and the top-level framing (a call is complete at the CLOSE that brings the depth back to 0) under the ordering model:
   `brun bops` is a history in which the receiver gets PACKETS (BChunk bytes) instead of Deliver ops.
   Every such history is a history of the ordering model, so order and at-most-once hold for every packetisation.
   WHAT THIS ONE DOES NOT SAY: bstep couples the bytes and the model only through the NUMBER of objects the bytes complete; in a
   `brun` history the bytes need not be those of the model's wire (bytes of three calls without any Issue complete three objects
   and enter nothing).  That the bytes OF THE WIRE amount to exactly the Deliver steps of the calls whose last byte has arrived --
   no earlier, no later -- is C04_delivered_exactly_at_last_byte / C04_wire_bytes_are_delivers below. *)
Theorem C04_order_any_chunking : forall bops,
  sublist (entered (b_model (brun bops))) (issued (b_model (brun bops))) /\ NoDup (entered (b_model (brun bops))).
Proof. exact order_any_chunking. Qed.
Print Assumptions C04_order_any_chunking.

(* ... re-cutting a run of consecutive packets (same bytes) anywhere in a history changes nothing at all: tokenizer state,
   framing, ordering model, entered calls (C07's feed_app lifted through the framing and the model) ... *)
Theorem C04_rechunking_changes_nothing : forall pre cs cs' post, concat cs = concat cs' ->
  brun (pre ++ map BChunk cs ++ post) = brun (pre ++ map BChunk cs' ++ post).
Proof. exact rechunking_changes_nothing. Qed.
Print Assumptions C04_rechunking_changes_nothing.

(* ... and one model Deliver = one call is a sound abstraction: for every serialization `ser` whose images are framed
   (read from depth 0 they end exactly one top-level object), the byte stream of any sequence of calls, cut into packets
   in any way, makes the receiver complete exactly one top-level object per call; the count never decreases as packets
   arrive and depends on the bytes only *)
Theorem C04_one_deliver_per_call : forall (A : Type) (ser : A -> list token) (calls : list A) bs cs,
  (forall c, framed (ser c)) ->
  forallb wf_token (concat (map ser calls)) = true -> forallb no_err (concat (map ser calls)) = true ->
  encode_stream (concat (map ser calls)) = Ok bs -> concat cs = bs ->
  completed cs = List.length calls.
Proof. exact @one_deliver_per_call. Qed.
Print Assumptions C04_one_deliver_per_call.

Theorem C04_delivers_monotone_and_chunk_independent : forall cs1 cs2 cs',
  completed cs1 <= completed (cs1 ++ cs2) /\ (concat cs1 = concat cs' -> completed cs1 = completed cs').
Proof. intros cs1 cs2 cs'. split; [apply completed_monotone | apply completed_chunk_independent]. Qed.
Print Assumptions C04_delivers_monotone_and_chunk_independent.

(* WHEN: a call is delivered exactly when its last byte has arrived, not before.  The complete bytes of `calls`, then p of the
   bytes p ++ q of call c, in ANY packets: exactly |calls| objects are complete while q is outstanding (also when c's OPEN and
   all of its arguments have arrived), |calls| + 1 as soon as q = [].  framed_strict: the serialization ends one top-level object
   at its last token and at no earlier one (true of CallSlicer's: OrderBytesProofs.ser_call_framed_strict for the reference one).
   The tokenizer part -- a token is handed upward only when its last byte is there -- is tokens_before_last_byte. *)
Theorem C04_delivered_exactly_at_last_byte : forall (A : Type) (ser : A -> list token) (calls : list A) (c : A) bs1 p q cs,
  (forall c, framed_strict (ser c)) ->
  forallb wf_token (concat (map ser (calls ++ [c]))) = true -> forallb no_err (concat (map ser (calls ++ [c]))) = true ->
  encode_stream (concat (map ser calls)) = Ok bs1 -> encode_stream (ser c) = Ok (p ++ q) -> concat cs = bs1 ++ p ->
  completed cs = match q with [] => S (List.length calls) | _ => List.length calls end.
Proof. exact @delivered_exactly_at_last_byte. Qed.
Print Assumptions C04_delivered_exactly_at_last_byte.

(* ... and the packets are tied to the MODEL's wire: in any live state whose receiver is between two top-level objects, the
   packets that carry the bytes of the wire's calls `calls` completely and p of the next call c's bytes p ++ q are -- on the whole
   state -- exactly the Deliver steps of the calls whose last byte they carry: those leave the wire in order, c stays on it
   unless q = [], what is behind c stays *)
Theorem C04_wire_bytes_are_delivers : forall (ser : call -> list token) b calls c later bs1 p q cs,
  (forall c, framed_strict (ser c)) ->
  b_recv b = Recv.init tt -> f_depth (b_frame b) = 0 ->
  lost (b_model b) = false -> cut (b_model b) = None -> wire (b_model b) = calls ++ c :: later ->
  forallb wf_token (concat (map ser (calls ++ [c]))) = true -> forallb no_err (concat (map ser (calls ++ [c]))) = true ->
  encode_stream (concat (map ser calls)) = Ok bs1 -> encode_stream (ser c) = Ok (p ++ q) -> concat cs = bs1 ++ p ->
  let b' := fold_left bstep (map BChunk cs) b in
  let k := match q with [] => S (List.length calls) | _ => List.length calls end in
  b_model b' = delivers k (b_model b) /\
  wire (b_model b') = match q with [] => later | _ => c :: later end.
Proof. exact wire_bytes_are_delivers. Qed.
Print Assumptions C04_wire_bytes_are_delivers.

(* the eventual-queue schedule: the three facts about eventual.py that lib/Order.v uses are those of C17's translated
   configuration, and the batch discipline of a model Turn is C17's theorem about the real queue (imported) *)
Theorem C04_eventual_readings_agree :
  evq_push = push_of (c_pos src_cfg) /\ evq_iter = iter_of (c_order src_cfg) /\
  (evq_isolates_exceptions = true <-> c_catch src_cfg = CatchAll).
Proof. exact two_readings_agree. Qed.
Print Assumptions C04_eventual_readings_agree.

(* NOTE on the next statement: the C04 state s enters it ONLY through List.length (evq s) -- `thunk` has a single constructor
   (TDoNext), so a C04 eventual queue IS its length, and what is related is "a C04 Turn runs a batch of that many doNextCalls" with
   "C17's turn runs exactly the events queued before it, in order, and queues what they submit behind".  It is not a step-by-step
   simulation of Broker thunks in C17's script model (listed under modelled-not-verified in the manifest). *)
Theorem C04_turn_batch_is_C17_batch : forall eops st t st' t' (s : state),
  Eventual.run src_cfg q0 eops = (st, t) -> Eventual.turn src_cfg st = (st', t') ->
  List.length (events st) = List.length (evq s) ->
  List.length (rans t') = List.length (evq s) /\ rans t' = map sid (events st) /\
  map sid (events st') = subs t' /\ subs t = rans t ++ map sid (events st).
Proof. exact turn_batch_is_C17_batch. Qed.
Print Assumptions C04_turn_batch_is_C17_batch.

(* foolscap.eventual's queue is an order-preserving channel, whatever else shares it -- unrelated callables, callables
   that raise, callables that write when they run.  This is all that orders calls on a LocalReferenceable, and it is
   what makes the byte stream of a connection over broker.LoopbackTransport (a Tub talking to itself: write() is
   eventually(peer.dataReceived, ...)) arrive in the order written, i.e. it discharges the "wire is FIFO" assumption
   of the theorems above for that transport:  delivered ++ still-queued = 0, 1, ..., n-1 *)
Theorem C04_eventual_channel_in_order : forall ops,
  l_entered (lrun ops) ++ datas (l_evq (lrun ops)) = seq 0 (l_next (lrun ops)).
Proof. exact eventual_channel_in_order. Qed.
Print Assumptions C04_eventual_channel_in_order.
