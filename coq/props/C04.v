(* C04 -- Calls execute in the order issued, each at most once.
   Property theorems only; model in lib/Order.v (driven by the queue disciplines that gen/OrderGen.v reads from
   slicers/root.py, broker.py, eventual.py), proofs in lib/OrderProofs.v.

   `run ops` is the state after an arbitrary sequence of
     Issue stalls fate | StallRelease | Deliver | GiftReady k ok | Turn
   i.e. calls issued at any time (also while the sender is paused inside a streaming argument), stalls released at
   any time, bytes arriving at any time, gifts resolved or failed in any order, eventual-queue turns at any time.
   Call k is the k-th call handed to Broker.send (C04_ids_are_issue_order). *)
From Coq Require Import List Arith Sorted.
Import ListNotations.
Require Import Verif.gen.OrderGen Verif.lib.Order Verif.lib.OrderProofs.

(* ids are issue indices: the issue order of a history is 0, 1, ..., (number of Issue ops) - 1 *)
Theorem C04_ids_are_issue_order : forall ops, issued (run ops) = seq 0 (count_issues ops).
Proof. exact issued_is_issue_count. Qed.
Print Assumptions C04_ids_are_issue_order.

(* "remote methods are entered in exactly the order in which the caller invoked callRemote": for every history,
   the sequence of entered calls is a subsequence of the issue order, in that order ... *)
Theorem C04_order : forall ops, sublist (entered (run ops)) (issued (run ops)).
Proof. exact entered_in_issue_order. Qed.
Print Assumptions C04_order.

(* ... equivalently the ids of the entered calls are strictly increasing ... *)
Theorem C04_order_increasing : forall ops, StronglySorted lt (entered (run ops)).
Proof. exact entered_increasing. Qed.
Print Assumptions C04_order_increasing.

(* "... and each call is entered at most once" *)
Theorem C04_at_most_once : forall ops, NoDup (entered (run ops)).
Proof. exact entered_at_most_once. Qed.
Print Assumptions C04_at_most_once.

(* "regardless of calls that stall while a gift is being resolved, of calls rejected by the schema": head-of-line
   blocking -- when call c is entered, every earlier call that has been completely received (queued) has already
   been entered or has failed *)
Theorem C04_head_of_line : forall ops before c after c',
  history (run ops) = before ++ Entered c :: after ->
  c' < c -> In (Queued c') (history (run ops)) ->
  In (Entered c') before \/ In (Failed c') before.
Proof. exact head_of_line. Qed.
Print Assumptions C04_head_of_line.

(* at most one dequeued call is waiting for its arguments at any time *)
Theorem C04_one_waiting : forall ops, List.length (waiting (run ops)) <= 1.
Proof. exact one_waiting. Qed.
Print Assumptions C04_one_waiting.

(* no call disappears: an issued call is entered, still on its way (sender queue, being serialized, wire, inbound
   queue, waiting), or was explicitly refused *)
Theorem C04_no_silent_loss : forall ops c,
  c < next_id (run ops) ->
  In c (entered (run ops)) \/ In c (pipeline (run ops)) \/
  In (Failed c) (history (run ops)) \/ In (Rejected c) (history (run ops)).
Proof. exact no_silent_loss. Qed.
Print Assumptions C04_no_silent_loss.

(* "calls issued while the sender is paused in the middle of streaming a large argument" are not left behind:
   whenever nothing is being serialized the send queue is empty *)
Theorem C04_sender_never_idle_with_work : forall ops, cur (run ops) = None -> sendq (run ops) = [].
Proof. exact sender_never_idle_with_work. Qed.
Print Assumptions C04_sender_never_idle_with_work.

(* progress of the receiver: a turn of the eventual queue that holds a doNextCall enters the ready head *)
Theorem C04_turn_enters_ready_head : forall s c rest,
  waiting s = [] -> inq s = (c, Ready) :: rest -> evq s <> [] -> is_late c = false ->
  In (cid c) (entered (turn s)).
Proof. exact turn_enters_ready_head. Qed.
Print Assumptions C04_turn_enters_ready_head.

(* ... and the receiver is never stuck: a queued call with nothing waiting always has a doNextCall scheduled *)
Theorem C04_receiver_never_stuck : forall ops,
  inq (run ops) <> [] -> waiting (run ops) = [] -> evq (run ops) <> [].
Proof. exact receiver_never_stuck. Qed.
Print Assumptions C04_receiver_never_stuck.

(* from every reachable state, releasing the stalls, delivering the bytes, resolving the gifts and running turns
   (no new calls, no failing gifts) empties the whole pipeline ... *)
Theorem C04_can_always_settle : forall ops,
  exists more, Forall settle_op more /\ pipeline (run (ops ++ more)) = [].
Proof. exact can_always_settle. Qed.
Print Assumptions C04_can_always_settle.

(* ... so every issued call can still be brought to a conclusion: it is entered (exactly once, by C04_at_most_once)
   or explicitly refused -- none is lost, whatever was stalled, blocked or rejected before *)
Theorem C04_eventually_entered_or_refused : forall ops,
  exists more, Forall settle_op more /\
    forall c, c < count_issues ops ->
      In c (entered (run (ops ++ more))) \/ In (Failed c) (history (run (ops ++ more))) \/
      In (Rejected c) (history (run (ops ++ more))).
Proof. exact eventually_entered_or_refused. Qed.
Print Assumptions C04_eventually_entered_or_refused.

(* foolscap.eventual's queue is an order-preserving channel, whatever else shares it -- unrelated callables, callables
   that raise, callables that write when they run.  This is all that orders calls on a LocalReferenceable, and it is
   what makes the byte stream of a connection over broker.LoopbackTransport (a Tub talking to itself: write() is
   eventually(peer.dataReceived, ...)) arrive in the order written, i.e. it discharges the "wire is FIFO" assumption
   of the theorems above for that transport:  delivered ++ still-queued = 0, 1, ..., n-1 *)
Theorem C04_eventual_channel_in_order : forall ops,
  l_entered (lrun ops) ++ datas (l_evq (lrun ops)) = seq 0 (l_next (lrun ops)).
Proof. exact eventual_channel_in_order. Qed.
Print Assumptions C04_eventual_channel_in_order.
