(* C06 -- Remote peers can reach only objects they were given or can name.
   Property theorems only; model in lib/Reach.v (on the translated gen/ReachGen.v), proofs in lib/ReachProofs.v;
   second layer (dispatcher assembled from the statement-by-statement translation gen/ReachDispGen.v; reference arguments):
   lib/ReachDeep.v, lib/ReachDeepProofs.v. *)
From Coq Require Import ZArith List String Bool.
Import ListNotations.
Require Import Verif.lib.PyLite Verif.gen.ReachGen Verif.gen.ReachDispGen Verif.lib.Reach Verif.lib.ReachProofs
  Verif.lib.ReachDeep Verif.lib.ReachDeepProofs Verif.lib.ReachPipe Verif.lib.ReachPipeProofs.
Local Open Scope Z_scope.

(* SCOPE OF THE ONE-STEP THEOREMS BELOW (review 2, item 1).  `step w st (Msg ..)` of lib/Reach.v looks the id up and delivers the
   call in ONE step.  The code does not: CallUnslicer resolves the id to the object while the bytes are PARSED, the method runs
   when Broker.doNextCall DELIVERS the queued InboundDelivery in a later reactor turn.  Every theorem below that speaks about
   `step .. (Msg ..)`, `run`, `xstep .. (XMsg ..)` therefore describes a call that arrives while nothing is queued on its
   connection and is delivered before the next call is parsed (one call per segment and turn; C06_atomic_is_parse_then_deliver
   makes that precise).  They do NOT transfer to calls pipelined in one segment.  The general statements -- over ALL
   interleavings of parses and delivery turns -- are in the section "parse and delivery are two steps" at the end of this file:
   C06_calls_pipelined, C06_exports_were_granted_pipelined, C06_sent_justified_pipelined, C06_classes_pipelined,
   C06_translated_history_pipelined; what is FALSE in general is C06_held_at_delivery_refuted.  The statements about one call's
   PARSE given the tables at that moment (obj_call / xobj_call: C06_translated_dispatch, C06_delivered_values_justified,
   C06_classes_any_arguments, C06_proxies_and_dials_justified, C06_unheld_id_inert, C06_gift_gate) are unaffected. *)

(* "a peer can cause code to run only on (a) [the broker's name lookup / release entry points: id 0] ... (b) objects that
   were explicitly sent to it over that same connection and not yet released, and only through methods exposed for
   remote use": whatever an inbound call enters is either one of the RIBroker methods of this connection's broker, or the
   object / callable this connection's export table holds under that very id -- and then only the attribute
   "remote_" ++ <method name>, which must exist and, if the object declares a RemoteInterface, be part of it *)
Theorem C06_calls : forall w st c req clid m args st' r e,
  step w st (Msg c req clid m args) = (st', r) -> r_out r = Enter e ->
  c_alive (get_conn st c) = true /\
  ((clid = 0 /\ exists s, m = MStr s /\ In s broker_methods /\ e = EBroker (remote_prefix ++ s)) \/
   (clid < 0 /\ exists o, exported st c clid o /\ e = ECallable o) \/
   (0 < clid /\ exists o s, exported st c clid o /\ m = MStr s /\ e = EObj o (remote_prefix ++ s) /\
        In (remote_prefix ++ s)%string (o_attrs (w_obj w o)) /\
        (forall l, iface_of w (s_decl st) o = Some l -> In s l))).
Proof. exact calls_sound. Qed.
Print Assumptions C06_calls.

(* "only through methods exposed for remote use", per instance: the RemoteInterface an object exposes is the one its class
   declares or else the one declared on the instance itself (zope directlyProvides / alsoProvides; translated:
   getInterface() evaluates getRemoteInterface(self) per instance), and only its methods are entered ... *)
Theorem C06_instance_interface_enforced : forall w st c req clid m args st' r o a l,
  step w st (Msg c req clid m args) = (st', r) -> r_out r = Enter (EObj o a) ->
  match o_iface (w_obj w o) with Some l' => Some l' | None => zget o (s_decl st) end = Some l ->
  exists s, m = MStr s /\ a = (remote_prefix ++ s)%string /\ In s l.
Proof. exact instance_interface_enforced. Qed.
Print Assumptions C06_instance_interface_enforced.

(* ... and what an instance exposes is changed only by a declaration on that very instance: no use of any other object
   (another instance of the same class, a subclass instance, on any connection, in any order) affects it *)
Theorem C06_declaration_origin : forall w h st o l,
  zget o (s_decl (fst (run w st h))) = Some l -> In (o, l) (s_decl st) \/ In (Declare o (Some l)) h.
Proof. exact decl_origin. Qed.
Print Assumptions C06_declaration_origin.

(* "only through methods exposed for remote use": the prefix is the one read from Referenceable.doRemoteCall, and the
   broker exposes exactly the three RIBroker methods *)
Theorem C06_remote_prefix : forall w st c req clid m args st' r,
  step w st (Msg c req clid m args) = (st', r) ->
  (forall o a, r_out r = Enter (EObj o a) -> String.prefix "remote_" a = true) /\
  (forall a, r_out r = Enter (EBroker a) -> String.prefix "remote_" a = true).
Proof. exact entered_attr_prefixed. Qed.
Print Assumptions C06_remote_prefix.

Theorem C06_broker_surface :
  broker_methods = ["getReferenceByName"; "decref"; "decgift"]%string /\
  broker_remote_attrs = map (fun m => remote_prefix ++ m)%string ["decref"; "decgift"; "getReferenceByName"]%string.
Proof. exact broker_methods_pinned. Qed.
Print Assumptions C06_broker_surface.

(* "explicitly sent to it over that same connection and not yet released", over all histories: every entry of a
   connection's export table in a reachable state has a positive reference count, an id that is not 0 and that the
   connection's counter has already passed (ids are never guessed ahead or reused), and was emitted as a my-reference on
   that same connection *)
Theorem C06_exports_were_granted : forall w h st rs c clid o rc,
  run w init h = (st, rs) -> zget clid (c_exports (get_conn st c)) = Some (o, rc) ->
  0 < rc /\ clid <> 0 /\ Z.abs clid < c_next (get_conn st c) /\ In (c, clid, o) (sent_of rs).
Proof. exact exports_were_granted. Qed.
Print Assumptions C06_exports_were_granted.

(* ... and a my-reference is emitted only when the application sends that object on that connection, or when that
   connection's peer named it ("(a) objects it names by their unguessable registered name") *)
Theorem C06_sent_justified : forall w st e st' r c clid o,
  step w st e = (st', r) -> In (c, clid, o) (r_sent r) ->
  (exists sw, e = Grant c o sw) \/
  (exists req n, e = Msg c req broker_clid (MStr "getReferenceByName") [ABytes (MStr n)] /\ req <> 0 /\
                 lookup_name w st n = Some o).
Proof. exact sent_justified. Qed.
Print Assumptions C06_sent_justified.

(* name lookup yields only registered objects, or what the application's lookup handler serves at that moment *)
Theorem C06_names : forall w st n o,
  lookup_name w st n = Some o ->
  In (n, o) (s_n2r st) \/ (sget n (s_n2r st) = None /\ sget n (s_h st) = Some o).
Proof. exact names_sound. Qed.
Print Assumptions C06_names.

(* ... where, over all histories, every entry of the name table was put there by registerReference or by the first send of
   the object (its unguessable URL); a handler's answer never enters the table (translated: handler_answers_cached = false) *)
Theorem C06_names_origin : forall w h st n o,
  In (n, o) (s_n2r (fst (run w st h))) -> In (n, o) (s_n2r st) \/ exists e, In e h /\ names_event n o e.
Proof. exact names_origin. Qed.
Print Assumptions C06_names_origin.

(* ... so a name that was only ever served by a handler stops resolving -- on every connection -- as soon as the handler
   stops serving it (Revoke / HandlerOff), however often it was looked up before and although the object is still alive *)
(* n <> "": names_event's third clause lets the model's placeholder name "" enter the table through any name lookup (see
   lib/ReachProofs.v names_event and the witness empty_name_enters_by_lookup); nothing is claimed about the name "". *)
Theorem C06_revoked_name_refused : forall w h st n,
  st = fst (run w init h) -> n <> ""%string ->
  (forall e, In e h -> forall o, ~ names_event n o e) -> sget n (s_h st) = None ->
  lookup_name w st n = None.
Proof. exact revoked_name_refused. Qed.
Print Assumptions C06_revoked_name_refused.

(* tub.unregisterReference REVOKES a registered name (review 2, item 2; a model whose Unregister is a no-op violates it): for an
   object registered under n, afterwards the name table has no entry for n, the object has no name, only the lookup handler could
   still answer n, every other name resolves as before, no connection's table changes ... *)
Theorem C06_unregister_revokes : forall w st o n,
  zget o (s_r2n st) = Some n -> is_some (sget n (s_n2r st)) = true ->
  let st' := fst (step w st (Unregister o)) in
  sget n (s_n2r st') = None /\ zget o (s_r2n st') = None /\ lookup_name w st' n = sget n (s_h st) /\
  (forall n', n' <> n -> lookup_name w st' n' = lookup_name w st n') /\
  s_a st' = s_a st /\ s_b st' = s_b st.
Proof. exact unregister_revokes. Qed.
Print Assumptions C06_unregister_revokes.

(* ... and the name stays refused on every connection, whatever happens afterwards, until the application publishes it again or
   its handler serves it *)
Theorem C06_unregistered_name_stays_refused : forall w st o n h,
  zget o (s_r2n st) = Some n -> is_some (sget n (s_n2r st)) = true -> n <> ""%string ->
  (forall e, In e h -> forall o', ~ names_event n o' e) ->
  let st2 := fst (run w (fst (step w st (Unregister o))) h) in
  sget n (s_h st2) = None -> lookup_name w st2 n = None.
Proof. exact unregistered_name_stays_refused. Qed.
Print Assumptions C06_unregistered_name_stays_refused.

(* the excluded region (is_some (sget n (s_n2r st)) = false): an object only the lookup HANDLER ever answered; unregisterReference
   does nothing there (the code raises KeyError) and the name resolves for as long as the handler serves it (C06_revoked_name_refused) *)
Theorem C06_unregister_handler_name_refuted :
  exists w st o n, zget o (s_r2n st) = Some n /\ is_some (sget n (s_n2r st)) = false /\
                   lookup_name w (fst (step w st (Unregister o))) n = Some o.
Proof. exact unregister_handler_name_refuted. Qed.
Print Assumptions C06_unregister_handler_name_refuted.

(* "unguessable": names the Tub invents carry NAMEBITS (translated: 160) >= 128 bits, all of them taken from the OS entropy
   source (translated: generateSwissnumber is base32 of os.urandom(bits // 8) and nothing else; any other source fails closed).
   The harness complements this with a peer-side state-recovery attack on the real generator that must fail. *)
Theorem C06_swissnum_bits : 128 <= NAMEBITS /\ swissnum_source = OsEntropy.
Proof. exact swissnum_bits. Qed.
Print Assumptions C06_swissnum_bits.

(* "it can cause instances to be created only of classes explicitly registered for pass-by-copy" *)
Theorem C06_classes : forall w st c req clid m args st' r cls,
  step w st (Msg c req clid m args) = (st', r) -> In cls (r_inst r) ->
  exists n, In (ACopyable n) args /\ sget n (s_copy st) = Some cls.
Proof. exact classes_sound. Qed.
Print Assumptions C06_classes.

(* ... where the registry holds what importing foolscap registered (translated key set) and what registerRemoteCopy added to
   the GLOBAL registry: a registration into a private registry (RegisterCopyPriv, also an empty one) never gets there
   (translated default-registry test: DefaultIfNone) *)
Theorem C06_registry_origin : forall w h n cls,
  sget n (s_copy (fst (run w init h))) = Some cls -> In n copyable_names \/ In (RegisterCopy n cls) h.
Proof. exact registry_origin. Qed.
Print Assumptions C06_registry_origin.

(* ... and what the DEFINITION of an application class registers (metaclass RemoteCopyClass.__init__, translated:
   metaclass_registers; define_class is the list of registration events a class statement amounts to): "only of classes
   EXPLICITLY registered" -- a class that opts out (copytype = None, or ""), or that gives no copytype (the definition fails), is
   registered under no name, whatever its typeToCopy (the name it is SENT as) and whatever registry it names ... *)
Theorem C06_optout_class_not_registered : forall ttc priv em cls,
  define_class CtNone ttc priv em cls = [] /\ define_class CtAbsent ttc priv em cls = [] /\
  define_class (CtStr ""%string) ttc priv em cls = [].
Proof. exact optout_class_not_registered. Qed.
Print Assumptions C06_optout_class_not_registered.

(* ... it leaves every state as it is ... *)
Theorem C06_optout_class_inert : forall w st ttc priv em cls,
  run w st (define_class CtNone ttc priv em cls) = (st, []).
Proof. exact optout_class_inert. Qed.
Print Assumptions C06_optout_class_inert.

(* ... and every other class definition is ONE registration, under the class's own non-empty copytype (never its typeToCopy), into
   the registry the class names; what such a registration does is RegisterCopy / RegisterCopyPriv above *)
Theorem C06_class_definition_registers_copytype_only : forall ct ttc priv em cls e,
  In e (define_class ct ttc priv em cls) ->
  exists n, ct = CtStr n /\ n <> ""%string /\ e = (if priv then RegisterCopyPriv n cls em else RegisterCopy n cls).
Proof. exact class_definition_registers_copytype_only. Qed.
Print Assumptions C06_class_definition_registers_copytype_only.

(* the set of OPEN types is closed: everything accepted below the top level is plain data or one of the four reference
   forms, nothing that names code; the top level accepts call / answer / error only *)
Theorem C06_open_types_closed :
  forallb (fun k => mem_type k data_types) open_types = true /\
  forallb (fun t => negb (mem_type [t] open_types))
          ["instance"; "class"; "module"; "function"; "method"; "call"; "answer"; "error"; "copyable"]%string = true /\
  top_types = [["answer"]; ["call"]; ["error"]]%string.
Proof. exact open_types_closed_all. Qed.
Print Assumptions C06_open_types_closed.

(* "every other object id, name, method name or class name fails that request": a call that entered anything used only
   registered OPEN types, registered copyable names and your-references its own connection resolves *)
Theorem C06_bad_argument_never_enters : forall w st c req clid m args st' r e,
  step w st (Msg c req clid m args) = (st', r) -> r_out r = Enter e -> clid <> 0 ->
  (forall t, In (AOpen t) args -> mem_type [t] open_types = true) /\
  (forall n, In (ACopyable n) args -> exists cls, sget n (s_copy st) = Some cls) /\
  (forall k, In (AYourRef k) args -> k = 0 \/ exists o, exported st c k o).
Proof. exact bad_argument_never_enters. Qed.
Print Assumptions C06_bad_argument_never_enters.

(* "... without side effects".  FULL statement: "every other object id, name, method name or class name fails THAT REQUEST and
   changes nothing".  Proved: _partial -- a request answered with an error (Reject) or arriving on a dead connection changes
   none of the tables of lib/Reach.v (name tables, registry, declarations, both export tables, counters) and emits no reference;
   and every faulty request IS answered that way unless it is a protocol error (C06_dropped_only_for_protocol_error,
   C06_unknown_yourref_fails_only_that_request).  What is still missing is ONLY the state outside those tables
   (C06_refusal_pure_full_refuted, known finding oracle/refused-request-left-proxy-or-dial): a request refused because of a LATER
   argument has already created a proxy / dialled a gift / instantiated a registered class.
   A call entering an application object changes no table; other top-level sequences change nothing. *)
Theorem C06_refusal_pure_partial : forall w st c req clid m args st' r,
  step w st (Msg c req clid m args) = (st', r) -> r_out r = Reject \/ r_out r = Dead -> st' = st /\ r_sent r = [].
Proof. exact refusal_pure. Qed.
Print Assumptions C06_refusal_pure_partial.

(* "every other object id ... fails THAT request", for a your-reference ARGUMENT naming an id the connection's table does not hold
   (since the fix 0058e18; before it the KeyError escaped and the whole connection was dropped): exactly that request is
   refused, the connection stays, no table changes, nothing is sent *)
Theorem C06_unknown_yourref_fails_only_that_request : forall w st c req clid m args st' r k,
  step w st (Msg c req clid m args) = (st', r) -> clid <> 0 -> c_alive (get_conn st c) = true ->
  In (AYourRef k) args -> k <> 0 -> zget k (c_exports (get_conn st c)) = None ->
  (forall k', In (AYourRef k') args -> 0 <= k') ->
  r_out r = Reject /\ st' = st /\ r_sent r = [] /\ c_alive (get_conn st' c) = true.
Proof. exact unknown_yourref_fails_only_that_request. Qed.
Print Assumptions C06_unknown_yourref_fails_only_that_request.

(* ... and the ONLY inbound call that still costs the peer its connection is a protocol error -- a NEG token inside a
   your-reference (checkToken: BananaError).  Unknown ids, names, classes, OPEN types, method names that are not UTF-8 never do. *)
Theorem C06_dropped_only_for_protocol_error : forall w st c req clid m args st' r,
  step w st (Msg c req clid m args) = (st', r) -> r_out r = Aborted ->
  clid <> 0 /\ exists k, In (AYourRef k) args /\ k < 0.
Proof. exact dropped_only_for_protocol_error. Qed.
Print Assumptions C06_dropped_only_for_protocol_error.

Theorem C06_dropped_local : forall w st c req clid m args st' r,
  step w st (Msg c req clid m args) = (st', r) -> r_out r = Aborted ->
  st' = set_conn st c (drop_conn (get_conn st c)) /\ r_sent r = [].
Proof. exact aborted_local. Qed.
Print Assumptions C06_dropped_local.

Theorem C06_plain_call_pure : forall w st c req clid m args st' r,
  step w st (Msg c req clid m args) = (st', r) ->
  (exists o a, r_out r = Enter (EObj o a)) \/ (exists o, r_out r = Enter (ECallable o)) -> st' = st /\ r_sent r = [].
Proof. exact plain_call_pure. Qed.
Print Assumptions C06_plain_call_pure.

Theorem C06_top_level_pure : forall w st c t st' r,
  step w st (TopMsg c t) = (st', r) -> st' = st /\ r_inst r = [] /\ r_sent r = [] /\ (r_out r = Reject \/ r_out r = Dead).
Proof. exact top_level_pure. Qed.
Print Assumptions C06_top_level_pure.

(* "ids learned on one connection are meaningless on another": an id this connection's table does not hold is refused
   without effect, whatever the other connection's table holds under it *)
Theorem C06_foreign_clid_refused : forall w st c req clid m args,
  clid <> 0 -> c_alive (get_conn st c) = true -> zget clid (c_exports (get_conn st c)) = None ->
  step w st (Msg c req clid m args) = (st, res0 Reject).
Proof. exact foreign_clid_refused. Qed.
Print Assumptions C06_foreign_clid_refused.

(* the other connection's table is neither read nor written by anything that does not happen on it *)
Theorem C06_other_table_is_a_frame : forall w st e c' x,
  on_conn e <> Some c' ->
  step w (set_conn st c' x) e = (set_conn (fst (step w st e)) c' x, snd (step w st e)).
Proof. exact step_frame. Qed.
Print Assumptions C06_other_table_is_a_frame.

(* non-interference over all interleaved histories: two histories that agree on connection c's own events (and on
   copyable registrations) but differ arbitrarily in what happens on the other connection -- grants, releases, inbound
   messages, drops -- and in the Tub's name table, give c the same export table and the same outcome for every one of
   c's messages.  Name lookups are excluded: the name table is Tub-wide by design (C06_names covers them). *)
Theorem C06_conn_local : forall w c h1 h2 s1 s2,
  same_view c s1 s2 -> no_lookup_on c h1 -> no_lookup_on c h2 -> proj c h1 = proj c h2 ->
  same_view c (fst (run w s1 h1)) (fst (run w s2 h2)) /\
  results_on c h1 (snd (run w s1 h1)) = results_on c h2 (snd (run w s2 h2)).
Proof. exact id_locality. Qed.
Print Assumptions C06_conn_local.

(* ============================== round 5: the translated dispatch path ==============================
   "id lookup or Violation", "remote_ prefix dispatch", "only through methods exposed for remote use":
   obj_call_T is assembled from the Gallina terms that translate/g_reachdisp.py produces, statement by statement, from
   Broker.getMyReferenceByCLID, CallUnslicer.receiveChild (stages 1 and 2), Broker._doCall, Referenceable.doRemoteCall and
   YourReferenceUnslicer.receiveClose.  On every well-kinded table it IS the hand-written dispatcher all theorems above are about. *)
Theorem C06_translated_dispatch : forall w copy cn clid m args,
  kinds_ok w cn -> clid <> 0 -> obj_call_T w copy cn clid m args = obj_call w copy cn clid m args.
Proof. exact obj_call_T_eq. Qed.
Print Assumptions C06_translated_dispatch.

(* "callable-by-reference": in every state any history leads to, negative ids denote bound methods / functions and positive
   ids Referenceables (so the well-kindedness above is no restriction) *)
Theorem C06_negative_ids_are_callables : forall w h st rs c k o rc,
  run w init h = (st, rs) -> zget k (c_exports (get_conn st c)) = Some (o, rc) ->
  (k < 0 -> o_kind (w_obj w o) = KCallable) /\ (0 < k -> o_kind (w_obj w o) = KObj).
Proof. exact kinds_reachable. Qed.
Print Assumptions C06_negative_ids_are_callables.

(* "not yet released": the translated Broker.remote_decref (with the translated ReferenceableTracker.decref inside) is the
   model's decref, and it forgets the object in myReferenceByPUID exactly when it forgets the id in myReferenceByCLID *)
Theorem C06_translated_decref : forall cn k n, decref_T cn k n = decref cn k n.
Proof. exact decref_T_eq. Qed.
Print Assumptions C06_translated_decref.

Theorem C06_decref_both_tables : forall (ex : list (Z * (Z * Z))) k n byclid bypuid o rc,
  gen_remote_decref tracker_decref ex (puid_table ex) k n = XOk (byclid, bypuid) -> zget k ex = Some (o, rc) ->
  (zget k byclid = None <-> zget o bypuid = None).
Proof. exact decref_both_tables. Qed.
Print Assumptions C06_decref_both_tables.

(* "(a) objects it names by their unguessable registered name": Tub._assignName and Tub.getReferenceForName, translated statement by
   statement (one lookup handler), are the model's assign_name / found_name for all inputs *)
Theorem C06_translated_assign_name : forall st o pref sw, assign_name_T st o pref sw = assign_name st o pref sw.
Proof. exact assign_name_T_eq. Qed.
Print Assumptions C06_translated_assign_name.

Theorem C06_translated_name_lookup : forall w st n, found_name_T w st n = found_name w st n.
Proof. exact found_name_T_eq. Qed.
Print Assumptions C06_translated_name_lookup.

(* end to end: on every history the machine that runs the translated code and the model agree, state by state and result by
   result; every history-level theorem above therefore speaks about the translated code *)
Theorem C06_translated_history : forall w h, run_T w init h = run w init h.
Proof. exact run_T_eq. Qed.
Print Assumptions C06_translated_history.

(* ============================== round 5: reference arguments ==============================
   A call may carry (my-reference k) -- the peer's own object -- and (their-reference g url) -- a gift -- among its arguments.
   SIMULATION: if such a call enters anything, the core model makes the same step for the call without them; so C06_calls,
   C06_instance_interface_enforced, C06_classes, C06_bad_argument_never_enters hold for calls with arbitrary arguments. *)
Theorem C06_reference_arguments_simulate : forall w x c req clid m xs x' r e,
  all_kinds_ok w (xs_core x) -> clid <> 0 ->
  xstep w x (XMsg c req clid m xs) = (x', r) -> r_out (xr_core r) = Enter e ->
  step w (xs_core x) (Msg c req clid m (strip xs)) = (xs_core x', xr_core r).
Proof. exact xcall_simulates. Qed.
Print Assumptions C06_reference_arguments_simulate.

(* "a peer can cause code to run only on ...", for what the entered code is HANDED: position by position, a local object only
   for a your-reference this connection's own table resolves (never for a my-reference: that yields a proxy of this
   connection for the peer's object; never for a gift: that yields what the dial returned), the Broker only for id 0, a fresh
   instance only of a registered class *)
Theorem C06_delivered_values_justified : forall ag w copy cn clid m xs e,
  r_out (xr_core (xobj_call ag w copy cn clid m xs)) = Enter e ->
  Forall2 (justified copy (c_exports cn)) xs (xr_argv (xobj_call ag w copy cn clid m xs)).
Proof. exact xcall_argv_justified. Qed.
Print Assumptions C06_delivered_values_justified.

Theorem C06_classes_any_arguments : forall ag w copy cn clid m xs cls,
  In cls (r_inst (xr_core (xobj_call ag w copy cn clid m xs))) ->
  exists n, In (XA (ACopyable n)) xs /\ sget n copy = Some cls.
Proof. exact xcall_classes. Qed.
Print Assumptions C06_classes_any_arguments.

(* a gift makes the Tub dial only when gifts are accepted, only the URLs the message itself carries; proxies are created
   only for the message's own my-references; and a call with a gift enters nothing unless gifts are accepted and the dial
   succeeded *)
Theorem C06_proxies_and_dials_justified : forall ag w copy cn clid m xs,
  (forall k, In k (xr_yours (xobj_call ag w copy cn clid m xs)) -> In (XMyRef k) xs) /\
  (forall g u, In (g, u) (xr_dial (xobj_call ag w copy cn clid m xs)) -> ag = true /\ exists ok, In (XTheirRef g u ok) xs).
Proof. exact xcall_effects_justified. Qed.
Print Assumptions C06_proxies_and_dials_justified.

(* "every other object id ... fails that request without side effects", with arbitrary arguments: an id this connection's
   table does not hold is refused AT THE ID -- nothing is instantiated, no proxy is created, nothing is dialled *)
Theorem C06_unheld_id_inert : forall ag w copy cn clid m xs,
  clid <> 0 -> zget clid (c_exports cn) = None ->
  xobj_call ag w copy cn clid m xs = {| xr_core := res0 Reject; xr_argv := []; xr_yours := []; xr_dial := [] |}.
Proof. exact xcall_unheld_id_inert. Qed.
Print Assumptions C06_unheld_id_inert.

Theorem C06_gift_gate : forall ag w copy cn clid m xs e g u ok,
  r_out (xr_core (xobj_call ag w copy cn clid m xs)) = Enter e -> In (XTheirRef g u ok) xs -> ag = true /\ ok = true.
Proof. exact xcall_gift_gate. Qed.
Print Assumptions C06_gift_gate.

(* "... without side effects", against the whole Tub + both brokers: entered or refused, with whatever arguments, a call to an
   application object leaves name table, registry, declarations and BOTH export tables alone (or drops its own connection),
   and never touches the other connection's proxy table *)
Theorem C06_tables_unchanged_any_arguments : forall w x c req clid m xs x' r,
  clid <> 0 -> xstep w x (XMsg c req clid m xs) = (x', r) ->
  (r_out (xr_core r) <> Aborted /\ xs_core x' = xs_core x) \/
  (r_out (xr_core r) = Aborted /\ xs_core x' = set_conn (xs_core x) c (drop_conn (get_conn (xs_core x) c))).
Proof. exact xcall_tables_unchanged. Qed.
Print Assumptions C06_tables_unchanged_any_arguments.

Theorem C06_other_proxies_unchanged : forall w x c req clid m xs x' r c',
  c' <> c -> xstep w x (XMsg c req clid m xs) = (x', r) -> get_yours x' c' = get_yours x c'.
Proof. exact xcall_other_proxies_unchanged. Qed.
Print Assumptions C06_other_proxies_unchanged.

(* FULL statement "a refused request changes nothing at all in the broker": REFUTED for the faithful model (witness replayed on
   the real code by the harness, signature oracle/refused-request-left-proxy-or-dial): arguments are unsliced before the
   request is known to be deliverable, so a request refused because of a LATER argument has already created a proxy in its own
   connection's yourReferenceByCLID, made the Tub dial the gift's URL and instantiated a registered class.  What IS unchanged
   is stated by C06_refusal_pure / C06_tables_unchanged_any_arguments. *)
Theorem C06_refusal_pure_full_refuted :
  exists w x c req clid m xs x' r,
    xstep w x (XMsg c req clid m xs) = (x', r) /\ r_out (xr_core r) = Reject /\
    xs_core x' = xs_core x /\
    get_yours x c = [] /\ get_yours x' c = [5] /\ xr_dial r = [(1, UForeign)] /\ r_inst (xr_core r) = [-1].
Proof. exact refusal_pure_full_refuted. Qed.
Print Assumptions C06_refusal_pure_full_refuted.

(* ============================== review 2: parse and delivery are two steps ==============================
   lib/ReachPipe.v: `PE (Msg ..)` PARSES a call (id -> object, interface, arguments; a resolved call is appended to the
   connection's FIFO queue with the RESOLVED object), `PDeliver c` is one turn of Broker.doNextCall (the head of c's queue runs:
   the method is entered, remote_decref / remote_getReferenceByName take effect NOW; the getattr of doRemoteCall happens here too: a
   call resolved to an object that lacks "remote_"+name is queued with d_ok = false and its turn fails the request); a dropped
   connection abandons its queue.
   Histories are arbitrary interleavings of parses, delivery turns and all other events, on both connections. *)

(* "a peer can cause code to run only on (a) ... (b) objects that were explicitly sent to it over that same connection and not
   yet released, and only through methods exposed for remote use" -- the HONEST statement: whatever any delivery enters was
   resolved by the parse of a call that arrived earlier on the same connection, and AT THAT MOMENT (state after the prefix h1)
   the connection was alive and the call was addressed to id 0 with one of the three RIBroker methods, or to an id its export
   table held then, through "remote_"+name, present, and part of the interface the object exposed then. *)
Theorem C06_calls_pipelined : forall w h ps rs r e,
  prun w pinit h = (ps, rs) -> In r rs -> pr_out r = Out (Enter e) ->
  exists h1 h2 c req clid m args,
    h = h1 ++ PE (Msg c req clid m args) :: h2 /\ In (PDeliver c) h2 /\
    let st := p_st (fst (prun w pinit h1)) in
    c_alive (get_conn st c) = true /\
    ((clid = 0 /\ exists s, m = MStr s /\ In s broker_methods /\ e = EBroker (remote_prefix ++ s)) \/
     (clid < 0 /\ exists o, exported st c clid o /\ e = ECallable o) \/
     (0 < clid /\ exists o s, exported st c clid o /\ m = MStr s /\ e = EObj o (remote_prefix ++ s) /\
          In (remote_prefix ++ s)%string (o_attrs (w_obj w o)) /\
          (forall l, iface_of w (s_decl st) o = Some l -> In s l))).
Proof. exact pipe_calls. Qed.
Print Assumptions C06_calls_pipelined.

(* ... and code is entered by delivery turns only, namely what the head of that connection's queue was resolved to *)
Theorem C06_entered_by_delivery_only : forall w ps pe ps' r e,
  pstep w ps pe = (ps', r) -> pr_out r = Out (Enter e) ->
  exists c d q, pe = PDeliver c /\ pq ps c = d :: q /\ d_ent d = e /\ c_alive (get_conn (p_st ps) c) = true /\ d_ok d = true.
Proof. exact pstep_enter. Qed.
Print Assumptions C06_entered_by_delivery_only.

(* FALSE in general (and false of the real code; replayed by the harness, signature oracle/released-id-entered-when-pipelined):
   "the id is held when the method is ENTERED".  The peer is granted an object, then sends decref and a call to it in one
   segment; both are parsed before either is delivered, and remote_hi runs on an object whose id is no longer in the table. *)
Theorem C06_held_at_delivery_refuted :
  exists w h1 ps1 rs1 ps2 r,
    prun w pinit h1 = (ps1, rs1) /\ pstep w ps1 (PDeliver CA) = (ps2, r) /\
    pr_out r = Out (Enter (EObj 1 "remote_hi")) /\
    c_exports (get_conn (p_st ps1) CA) = [] /\ c_alive (get_conn (p_st ps1) CA) = true.
Proof. exact held_at_delivery_refuted. Qed.
Print Assumptions C06_held_at_delivery_refuted.

(* every state the two-step machine reaches is a state of lib/Reach.v (each delivery changes the tables exactly as the broker
   call it stands for, taken at delivery time), so the table invariants hold over all schedules:
   "explicitly sent to it over that same connection and not yet released" *)
Theorem C06_exports_were_granted_pipelined : forall w h ps rs c clid o rc,
  prun w pinit h = (ps, rs) -> zget clid (c_exports (get_conn (p_st ps) c)) = Some (o, rc) ->
  0 < rc /\ clid <> 0 /\ Z.abs clid < c_next (get_conn (p_st ps) c) /\ In (c, clid, o) (psent_of rs).
Proof. exact pipe_exports_were_granted. Qed.
Print Assumptions C06_exports_were_granted_pipelined.

Theorem C06_negative_ids_are_callables_pipelined : forall w h ps rs c k o rc,
  prun w pinit h = (ps, rs) -> zget k (c_exports (get_conn (p_st ps) c)) = Some (o, rc) ->
  (k < 0 -> o_kind (w_obj w o) = KCallable) /\ (0 < k -> o_kind (w_obj w o) = KObj).
Proof. exact pipe_kinds_reachable. Qed.
Print Assumptions C06_negative_ids_are_callables_pipelined.

(* a my-reference is emitted only when the application sends the object, or when a name lookup is DELIVERED and the name
   resolves at that moment *)
Theorem C06_sent_justified_pipelined : forall w ps pe ps' r c clid o,
  pstep w ps pe = (ps', r) -> In (c, clid, o) (pr_sent r) ->
  (exists sw, pe = PE (Grant c o sw)) \/
  (pe = PDeliver c /\ exists d q n, pq ps c = d :: q /\ d_fx d = FxLookup n /\ d_req d <> 0 /\ lookup_name w (p_st ps) n = Some o).
Proof. exact pipe_sent_justified. Qed.
Print Assumptions C06_sent_justified_pipelined.

(* instances are created while a call is parsed, only of classes registered at that moment under the names the call carries *)
Theorem C06_classes_pipelined : forall w ps pe ps' r cls,
  pstep w ps pe = (ps', r) -> In cls (pr_inst r) ->
  exists c req clid m args n, pe = PE (Msg c req clid m args) /\ In (ACopyable n) args /\ sget n (s_copy (p_st ps)) = Some cls.
Proof. exact pipe_classes. Qed.
Print Assumptions C06_classes_pipelined.

(* the two-step machine built from the TRANSLATED dispatcher, remote_decref, _assignName and getReferenceForName is this machine,
   on every schedule *)
Theorem C06_translated_history_pipelined : forall w h, prun_T w pinit h = prun w pinit h.
Proof. exact prun_T_eq. Qed.
Print Assumptions C06_translated_history_pipelined.

(* what lib/Reach.v's one-step `step (Msg ..)` IS: the parse followed at once by a delivery turn, on a connection with nothing
   queued -- same tables, same instantiations, same references sent, same thing entered (a refusal comes from the parse, or --
   missing attribute -- from the delivery turn) *)
Theorem C06_atomic_is_parse_then_deliver : forall w ps c req clid m args ps1 r1 ps2 r2 st' r,
  pq ps c = [] ->
  pstep w ps (PE (Msg c req clid m args)) = (ps1, r1) -> pstep w ps1 (PDeliver c) = (ps2, r2) ->
  step w (p_st ps) (Msg c req clid m args) = (st', r) ->
  p_st ps2 = st' /\ (forall c', pq ps2 c' = pq ps c') /\ r_inst r = pr_inst r1 /\ r_sent r = pr_sent r2 /\ pr_sent r1 = [] /\
  match r_out r with
  | Enter e => pr_out r1 = Queued /\ pr_out r2 = Out (Enter e)
  | Reject => (pr_out r1 = Out Reject /\ pr_out r2 = Idle) \/ (pr_out r1 = Queued /\ pr_out r2 = Out Reject)
  | o => pr_out r1 = Out o /\ pr_out r2 = Idle
  end.
Proof. exact atomic_msg. Qed.
Print Assumptions C06_atomic_is_parse_then_deliver.
