(* C06 -- Remote peers can reach only objects they were given or can name.
   Property theorems only; model in lib/Reach.v (on the translated gen/ReachGen.v), proofs in lib/ReachProofs.v. *)
From Coq Require Import ZArith List String Bool.
Import ListNotations.
Require Import Verif.lib.PyLite Verif.gen.ReachGen Verif.lib.Reach Verif.lib.ReachProofs.
Local Open Scope Z_scope.

(* "a peer can cause code to run only on (a) [the broker's name lookup / release entry points: id 0] ... (b) objects that
   were explicitly sent to it over that same connection and not yet released, and only through methods exposed for
   remote use": whatever an inbound call enters is either one of the RIBroker methods of this connection's broker, or the
   object / callable this connection's export table holds under that very id -- and then only the attribute
   "remote_" ++ <method name>, which must exist and, if the object declares a RemoteInterface, be part of it *)
Theorem C06_calls : forall w st c req clid m args st' r e,
  step w st (Msg c req clid m args) = (st', r) -> r_out r = Enter e ->
  c_alive (get_conn st c) = true /\
  ((clid = 0 /\ exists s, m = MStr s /\ In s broker_methods /\ e = EBroker (remote_prefix ++ s)) \/
   (clid < 0 /\ exists o, exported st c clid o /\ e = ECallable o) \/
   (0 < clid /\ exists o s, exported st c clid o /\ m = MStr s /\ e = EObj o (remote_prefix ++ s) /\
        In (remote_prefix ++ s)%string (o_attrs (w_obj w o)) /\
        (forall l, iface_of w (s_decl st) o = Some l -> In s l))).
Proof. exact calls_sound. Qed.
Print Assumptions C06_calls.

(* "only through methods exposed for remote use", per instance: the RemoteInterface an object exposes is the one its class
   declares or else the one declared on the instance itself (zope directlyProvides / alsoProvides; translated:
   getInterface() evaluates getRemoteInterface(self) per instance), and only its methods are entered ... *)
Theorem C06_instance_interface_enforced : forall w st c req clid m args st' r o a l,
  step w st (Msg c req clid m args) = (st', r) -> r_out r = Enter (EObj o a) ->
  match o_iface (w_obj w o) with Some l' => Some l' | None => zget o (s_decl st) end = Some l ->
  exists s, m = MStr s /\ a = (remote_prefix ++ s)%string /\ In s l.
Proof. exact instance_interface_enforced. Qed.
Print Assumptions C06_instance_interface_enforced.

(* ... and what an instance exposes is changed only by a declaration on that very instance: no use of any other object
   (another instance of the same class, a subclass instance, on any connection, in any order) affects it *)
Theorem C06_declaration_origin : forall w h st o l,
  zget o (s_decl (fst (run w st h))) = Some l -> In (o, l) (s_decl st) \/ In (Declare o (Some l)) h.
Proof. exact decl_origin. Qed.
Print Assumptions C06_declaration_origin.

(* "only through methods exposed for remote use": the prefix is the one read from Referenceable.doRemoteCall, and the
   broker exposes exactly the three RIBroker methods *)
Theorem C06_remote_prefix : forall w st c req clid m args st' r,
  step w st (Msg c req clid m args) = (st', r) ->
  (forall o a, r_out r = Enter (EObj o a) -> String.prefix "remote_" a = true) /\
  (forall a, r_out r = Enter (EBroker a) -> String.prefix "remote_" a = true).
Proof. exact entered_attr_prefixed. Qed.
Print Assumptions C06_remote_prefix.

Theorem C06_broker_surface :
  broker_methods = ["getReferenceByName"; "decref"; "decgift"]%string /\
  broker_remote_attrs = map (fun m => remote_prefix ++ m)%string ["decref"; "decgift"; "getReferenceByName"]%string.
Proof. exact broker_methods_pinned. Qed.
Print Assumptions C06_broker_surface.

(* "explicitly sent to it over that same connection and not yet released", over all histories: every entry of a
   connection's export table in a reachable state has a positive reference count, an id that is not 0 and that the
   connection's counter has already passed (ids are never guessed ahead or reused), and was emitted as a my-reference on
   that same connection *)
Theorem C06_exports_were_granted : forall w h st rs c clid o rc,
  run w init h = (st, rs) -> zget clid (c_exports (get_conn st c)) = Some (o, rc) ->
  0 < rc /\ clid <> 0 /\ Z.abs clid < c_next (get_conn st c) /\ In (c, clid, o) (sent_of rs).
Proof. exact exports_were_granted. Qed.
Print Assumptions C06_exports_were_granted.

(* ... and a my-reference is emitted only when the application sends that object on that connection, or when that
   connection's peer named it ("(a) objects it names by their unguessable registered name") *)
Theorem C06_sent_justified : forall w st e st' r c clid o,
  step w st e = (st', r) -> In (c, clid, o) (r_sent r) ->
  (exists sw, e = Grant c o sw) \/
  (exists req n, e = Msg c req broker_clid (MStr "getReferenceByName") [ABytes (MStr n)] /\ req <> 0 /\
                 lookup_name w st n = Some o).
Proof. exact sent_justified. Qed.
Print Assumptions C06_sent_justified.

(* name lookup yields only registered objects, or what the application's lookup handler serves at that moment *)
Theorem C06_names : forall w st n o,
  lookup_name w st n = Some o ->
  In (n, o) (s_n2r st) \/ (sget n (s_n2r st) = None /\ sget n (s_h st) = Some o).
Proof. exact names_sound. Qed.
Print Assumptions C06_names.

(* ... where, over all histories, every entry of the name table was put there by registerReference or by the first send of
   the object (its unguessable URL); a handler's answer never enters the table (translated: handler_answers_cached = false) *)
Theorem C06_names_origin : forall w h st n o,
  In (n, o) (s_n2r (fst (run w st h))) -> In (n, o) (s_n2r st) \/ exists e, In e h /\ names_event n o e.
Proof. exact names_origin. Qed.
Print Assumptions C06_names_origin.

(* ... so a name that was only ever served by a handler stops resolving -- on every connection -- as soon as the handler
   stops serving it (Revoke / HandlerOff), however often it was looked up before and although the object is still alive *)
Theorem C06_revoked_name_refused : forall w h st n,
  st = fst (run w init h) -> n <> ""%string ->
  (forall e, In e h -> forall o, ~ names_event n o e) -> sget n (s_h st) = None ->
  lookup_name w st n = None.
Proof. exact revoked_name_refused. Qed.
Print Assumptions C06_revoked_name_refused.

(* "unguessable": names the Tub invents carry NAMEBITS (translated: 160) >= 128 bits, all of them taken from the OS entropy
   source (translated: generateSwissnumber is base32 of os.urandom(bits // 8) and nothing else; any other source fails closed).
   The harness complements this with a peer-side state-recovery attack on the real generator that must fail. *)
Theorem C06_swissnum_bits : 128 <= NAMEBITS /\ swissnum_source = OsEntropy.
Proof. exact swissnum_bits. Qed.
Print Assumptions C06_swissnum_bits.

(* "it can cause instances to be created only of classes explicitly registered for pass-by-copy" *)
Theorem C06_classes : forall w st c req clid m args st' r cls,
  step w st (Msg c req clid m args) = (st', r) -> In cls (r_inst r) ->
  exists n, In (ACopyable n) args /\ sget n (s_copy st) = Some cls.
Proof. exact classes_sound. Qed.
Print Assumptions C06_classes.

(* ... where the registry holds what importing foolscap registered (translated key set) and what registerRemoteCopy added to
   the GLOBAL registry: a registration into a private registry (RegisterCopyPriv, also an empty one) never gets there
   (translated default-registry test: DefaultIfNone) *)
Theorem C06_registry_origin : forall w h n cls,
  sget n (s_copy (fst (run w init h))) = Some cls -> In n copyable_names \/ In (RegisterCopy n cls) h.
Proof.
  intros w h n cls H. destruct (copy_origin w h init n cls H) as [H'|H']; [left; eapply init_copy_names; eauto | right; exact H'].
Qed.
Print Assumptions C06_registry_origin.

(* the set of OPEN types is closed: everything accepted below the top level is plain data or one of the four reference
   forms, nothing that names code; the top level accepts call / answer / error only *)
Theorem C06_open_types_closed :
  forallb (fun k => mem_type k data_types) open_types = true /\
  forallb (fun t => negb (mem_type [t] open_types))
          ["instance"; "class"; "module"; "function"; "method"; "call"; "answer"; "error"; "copyable"]%string = true /\
  top_types = [["answer"]; ["call"]; ["error"]]%string.
Proof. split; [exact open_types_closed | split; [exact no_code_types | exact top_types_pinned]]. Qed.
Print Assumptions C06_open_types_closed.

(* "every other object id, name, method name or class name fails that request": a call that entered anything used only
   registered OPEN types, registered copyable names and your-references its own connection resolves *)
Theorem C06_bad_argument_never_enters : forall w st c req clid m args st' r e,
  step w st (Msg c req clid m args) = (st', r) -> r_out r = Enter e -> clid <> 0 ->
  (forall t, In (AOpen t) args -> mem_type [t] open_types = true) /\
  (forall n, In (ACopyable n) args -> exists cls, sget n (s_copy st) = Some cls) /\
  (forall k, In (AYourRef k) args -> k = 0 \/ exists o, exported st c k o).
Proof. exact bad_argument_never_enters. Qed.
Print Assumptions C06_bad_argument_never_enters.

(* "... without side effects": a refused request changes nothing; a dropped connection (the refusal for an unknown
   your-reference or an undecodable method name) loses its own table and nothing else; a call entering an application
   object changes no table; other top-level sequences change nothing *)
Theorem C06_refusal_pure : forall w st c req clid m args st' r,
  step w st (Msg c req clid m args) = (st', r) -> r_out r = Reject \/ r_out r = Dead -> st' = st /\ r_sent r = [].
Proof. exact refusal_pure. Qed.
Print Assumptions C06_refusal_pure.

Theorem C06_dropped_local : forall w st c req clid m args st' r,
  step w st (Msg c req clid m args) = (st', r) -> r_out r = Aborted ->
  st' = set_conn st c (drop_conn (get_conn st c)) /\ r_sent r = [].
Proof. exact aborted_local. Qed.
Print Assumptions C06_dropped_local.

Theorem C06_plain_call_pure : forall w st c req clid m args st' r,
  step w st (Msg c req clid m args) = (st', r) ->
  (exists o a, r_out r = Enter (EObj o a)) \/ (exists o, r_out r = Enter (ECallable o)) -> st' = st /\ r_sent r = [].
Proof. exact plain_call_pure. Qed.
Print Assumptions C06_plain_call_pure.

Theorem C06_top_level_pure : forall w st c t st' r,
  step w st (TopMsg c t) = (st', r) -> st' = st /\ r_inst r = [] /\ r_sent r = [] /\ (r_out r = Reject \/ r_out r = Dead).
Proof. exact top_level_pure. Qed.
Print Assumptions C06_top_level_pure.

(* "ids learned on one connection are meaningless on another": an id this connection's table does not hold is refused
   without effect, whatever the other connection's table holds under it *)
Theorem C06_foreign_clid_refused : forall w st c req clid m args,
  clid <> 0 -> c_alive (get_conn st c) = true -> zget clid (c_exports (get_conn st c)) = None ->
  step w st (Msg c req clid m args) = (st, res0 Reject).
Proof. exact foreign_clid_refused. Qed.
Print Assumptions C06_foreign_clid_refused.

(* the other connection's table is neither read nor written by anything that does not happen on it *)
Theorem C06_other_table_is_a_frame : forall w st e c' x,
  on_conn e <> Some c' ->
  step w (set_conn st c' x) e = (set_conn (fst (step w st e)) c' x, snd (step w st e)).
Proof. exact step_frame. Qed.
Print Assumptions C06_other_table_is_a_frame.

(* non-interference over all interleaved histories: two histories that agree on connection c's own events (and on
   copyable registrations) but differ arbitrarily in what happens on the other connection -- grants, releases, inbound
   messages, drops -- and in the Tub's name table, give c the same export table and the same outcome for every one of
   c's messages.  Name lookups are excluded: the name table is Tub-wide by design (C06_names covers them). *)
Theorem C06_conn_local : forall w c h1 h2 s1 s2,
  same_view c s1 s2 -> no_lookup_on c h1 -> no_lookup_on c h2 -> proj c h1 = proj c h2 ->
  same_view c (fst (run w s1 h1)) (fst (run w s2 h2)) /\
  results_on c h1 (snd (run w s1 h1)) = results_on c h2 (snd (run w s2 h2)).
Proof. exact id_locality. Qed.
Print Assumptions C06_conn_local.
