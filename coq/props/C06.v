(* C06 -- Remote peers can reach only objects they were given or can name. *)
From Coq Require Import ZArith List String Bool.
Import ListNotations.
Require Import Verif.lib.PyLite Verif.gen.ReachGen Verif.lib.Reach Verif.lib.ReachProofs.
Local Open Scope Z_scope.

(* "unguessable registered name": names the Tub invents carry at least 128 bits from os.urandom *)
Theorem C06_swissnum_bits : 128 <= NAMEBITS.
Proof. exact swissnum_bits. Qed.
Print Assumptions C06_swissnum_bits.
