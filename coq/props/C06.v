(* C06 -- Remote peers can reach only objects they were given or can name.
   Property theorems only; model in lib/Reach.v (on the translated gen/ReachGen.v), proofs in lib/ReachProofs.v;
   second layer (dispatcher assembled from the statement-by-statement translation gen/ReachDispGen.v; reference arguments):
   lib/ReachDeep.v, lib/ReachDeepProofs.v. *)
From Coq Require Import ZArith List String Bool.
Import ListNotations.
Require Import Verif.lib.PyLite Verif.gen.ReachGen Verif.gen.ReachDispGen Verif.lib.Reach Verif.lib.ReachProofs
  Verif.lib.ReachDeep Verif.lib.ReachDeepProofs.
Local Open Scope Z_scope.

(* "a peer can cause code to run only on (a) [the broker's name lookup / release entry points: id 0] ... (b) objects that
   were explicitly sent to it over that same connection and not yet released, and only through methods exposed for
   remote use": whatever an inbound call enters is either one of the RIBroker methods of this connection's broker, or the
   object / callable this connection's export table holds under that very id -- and then only the attribute
   "remote_" ++ <method name>, which must exist and, if the object declares a RemoteInterface, be part of it *)
Theorem C06_calls : forall w st c req clid m args st' r e,
  step w st (Msg c req clid m args) = (st', r) -> r_out r = Enter e ->
  c_alive (get_conn st c) = true /\
  ((clid = 0 /\ exists s, m = MStr s /\ In s broker_methods /\ e = EBroker (remote_prefix ++ s)) \/
   (clid < 0 /\ exists o, exported st c clid o /\ e = ECallable o) \/
   (0 < clid /\ exists o s, exported st c clid o /\ m = MStr s /\ e = EObj o (remote_prefix ++ s) /\
        In (remote_prefix ++ s)%string (o_attrs (w_obj w o)) /\
        (forall l, iface_of w (s_decl st) o = Some l -> In s l))).
Proof. exact calls_sound. Qed.
Print Assumptions C06_calls.

(* "only through methods exposed for remote use", per instance: the RemoteInterface an object exposes is the one its class
   declares or else the one declared on the instance itself (zope directlyProvides / alsoProvides; translated:
   getInterface() evaluates getRemoteInterface(self) per instance), and only its methods are entered ... *)
Theorem C06_instance_interface_enforced : forall w st c req clid m args st' r o a l,
  step w st (Msg c req clid m args) = (st', r) -> r_out r = Enter (EObj o a) ->
  match o_iface (w_obj w o) with Some l' => Some l' | None => zget o (s_decl st) end = Some l ->
  exists s, m = MStr s /\ a = (remote_prefix ++ s)%string /\ In s l.
Proof. exact instance_interface_enforced. Qed.
Print Assumptions C06_instance_interface_enforced.

(* ... and what an instance exposes is changed only by a declaration on that very instance: no use of any other object
   (another instance of the same class, a subclass instance, on any connection, in any order) affects it *)
Theorem C06_declaration_origin : forall w h st o l,
  zget o (s_decl (fst (run w st h))) = Some l -> In (o, l) (s_decl st) \/ In (Declare o (Some l)) h.
Proof. exact decl_origin. Qed.
Print Assumptions C06_declaration_origin.

(* "only through methods exposed for remote use": the prefix is the one read from Referenceable.doRemoteCall, and the
   broker exposes exactly the three RIBroker methods *)
Theorem C06_remote_prefix : forall w st c req clid m args st' r,
  step w st (Msg c req clid m args) = (st', r) ->
  (forall o a, r_out r = Enter (EObj o a) -> String.prefix "remote_" a = true) /\
  (forall a, r_out r = Enter (EBroker a) -> String.prefix "remote_" a = true).
Proof. exact entered_attr_prefixed. Qed.
Print Assumptions C06_remote_prefix.

Theorem C06_broker_surface :
  broker_methods = ["getReferenceByName"; "decref"; "decgift"]%string /\
  broker_remote_attrs = map (fun m => remote_prefix ++ m)%string ["decref"; "decgift"; "getReferenceByName"]%string.
Proof. exact broker_methods_pinned. Qed.
Print Assumptions C06_broker_surface.

(* "explicitly sent to it over that same connection and not yet released", over all histories: every entry of a
   connection's export table in a reachable state has a positive reference count, an id that is not 0 and that the
   connection's counter has already passed (ids are never guessed ahead or reused), and was emitted as a my-reference on
   that same connection *)
Theorem C06_exports_were_granted : forall w h st rs c clid o rc,
  run w init h = (st, rs) -> zget clid (c_exports (get_conn st c)) = Some (o, rc) ->
  0 < rc /\ clid <> 0 /\ Z.abs clid < c_next (get_conn st c) /\ In (c, clid, o) (sent_of rs).
Proof. exact exports_were_granted. Qed.
Print Assumptions C06_exports_were_granted.

(* ... and a my-reference is emitted only when the application sends that object on that connection, or when that
   connection's peer named it ("(a) objects it names by their unguessable registered name") *)
Theorem C06_sent_justified : forall w st e st' r c clid o,
  step w st e = (st', r) -> In (c, clid, o) (r_sent r) ->
  (exists sw, e = Grant c o sw) \/
  (exists req n, e = Msg c req broker_clid (MStr "getReferenceByName") [ABytes (MStr n)] /\ req <> 0 /\
                 lookup_name w st n = Some o).
Proof. exact sent_justified. Qed.
Print Assumptions C06_sent_justified.

(* name lookup yields only registered objects, or what the application's lookup handler serves at that moment *)
Theorem C06_names : forall w st n o,
  lookup_name w st n = Some o ->
  In (n, o) (s_n2r st) \/ (sget n (s_n2r st) = None /\ sget n (s_h st) = Some o).
Proof. exact names_sound. Qed.
Print Assumptions C06_names.

(* ... where, over all histories, every entry of the name table was put there by registerReference or by the first send of
   the object (its unguessable URL); a handler's answer never enters the table (translated: handler_answers_cached = false) *)
Theorem C06_names_origin : forall w h st n o,
  In (n, o) (s_n2r (fst (run w st h))) -> In (n, o) (s_n2r st) \/ exists e, In e h /\ names_event n o e.
Proof. exact names_origin. Qed.
Print Assumptions C06_names_origin.

(* ... so a name that was only ever served by a handler stops resolving -- on every connection -- as soon as the handler
   stops serving it (Revoke / HandlerOff), however often it was looked up before and although the object is still alive *)
Theorem C06_revoked_name_refused : forall w h st n,
  st = fst (run w init h) -> n <> ""%string ->
  (forall e, In e h -> forall o, ~ names_event n o e) -> sget n (s_h st) = None ->
  lookup_name w st n = None.
Proof. exact revoked_name_refused. Qed.
Print Assumptions C06_revoked_name_refused.

(* "unguessable": names the Tub invents carry NAMEBITS (translated: 160) >= 128 bits, all of them taken from the OS entropy
   source (translated: generateSwissnumber is base32 of os.urandom(bits // 8) and nothing else; any other source fails closed).
   The harness complements this with a peer-side state-recovery attack on the real generator that must fail. *)
Theorem C06_swissnum_bits : 128 <= NAMEBITS /\ swissnum_source = OsEntropy.
Proof. exact swissnum_bits. Qed.
Print Assumptions C06_swissnum_bits.

(* "it can cause instances to be created only of classes explicitly registered for pass-by-copy" *)
Theorem C06_classes : forall w st c req clid m args st' r cls,
  step w st (Msg c req clid m args) = (st', r) -> In cls (r_inst r) ->
  exists n, In (ACopyable n) args /\ sget n (s_copy st) = Some cls.
Proof. exact classes_sound. Qed.
Print Assumptions C06_classes.

(* ... where the registry holds what importing foolscap registered (translated key set) and what registerRemoteCopy added to
   the GLOBAL registry: a registration into a private registry (RegisterCopyPriv, also an empty one) never gets there
   (translated default-registry test: DefaultIfNone) *)
Theorem C06_registry_origin : forall w h n cls,
  sget n (s_copy (fst (run w init h))) = Some cls -> In n copyable_names \/ In (RegisterCopy n cls) h.
Proof. exact registry_origin. Qed.
Print Assumptions C06_registry_origin.

(* the set of OPEN types is closed: everything accepted below the top level is plain data or one of the four reference
   forms, nothing that names code; the top level accepts call / answer / error only *)
Theorem C06_open_types_closed :
  forallb (fun k => mem_type k data_types) open_types = true /\
  forallb (fun t => negb (mem_type [t] open_types))
          ["instance"; "class"; "module"; "function"; "method"; "call"; "answer"; "error"; "copyable"]%string = true /\
  top_types = [["answer"]; ["call"]; ["error"]]%string.
Proof. exact open_types_closed_all. Qed.
Print Assumptions C06_open_types_closed.

(* "every other object id, name, method name or class name fails that request": a call that entered anything used only
   registered OPEN types, registered copyable names and your-references its own connection resolves *)
Theorem C06_bad_argument_never_enters : forall w st c req clid m args st' r e,
  step w st (Msg c req clid m args) = (st', r) -> r_out r = Enter e -> clid <> 0 ->
  (forall t, In (AOpen t) args -> mem_type [t] open_types = true) /\
  (forall n, In (ACopyable n) args -> exists cls, sget n (s_copy st) = Some cls) /\
  (forall k, In (AYourRef k) args -> k = 0 \/ exists o, exported st c k o).
Proof. exact bad_argument_never_enters. Qed.
Print Assumptions C06_bad_argument_never_enters.

(* "... without side effects".  FULL statement: "every other object id, name, method name or class name fails THAT REQUEST and
   changes nothing".  Proved: _partial -- a request answered with an error (Reject) or arriving on a dead connection changes
   none of the tables of lib/Reach.v (name tables, registry, declarations, both export tables, counters) and emits no reference;
   and every faulty request IS answered that way unless it is a protocol error (C06_dropped_only_for_protocol_error,
   C06_unknown_yourref_fails_only_that_request).  What is still missing is ONLY the state outside those tables
   (C06_refusal_pure_full_refuted, known finding oracle/refused-request-left-proxy-or-dial): a request refused because of a LATER
   argument has already created a proxy / dialled a gift / instantiated a registered class.
   A call entering an application object changes no table; other top-level sequences change nothing. *)
Theorem C06_refusal_pure_partial : forall w st c req clid m args st' r,
  step w st (Msg c req clid m args) = (st', r) -> r_out r = Reject \/ r_out r = Dead -> st' = st /\ r_sent r = [].
Proof. exact refusal_pure. Qed.
Print Assumptions C06_refusal_pure_partial.

(* "every other object id ... fails THAT request", for a your-reference ARGUMENT naming an id the connection's table does not hold
   (since the fix 0058e18; before it the KeyError escaped and the whole connection was dropped): exactly that request is
   refused, the connection stays, no table changes, nothing is sent *)
Theorem C06_unknown_yourref_fails_only_that_request : forall w st c req clid m args st' r k,
  step w st (Msg c req clid m args) = (st', r) -> clid <> 0 -> c_alive (get_conn st c) = true ->
  In (AYourRef k) args -> k <> 0 -> zget k (c_exports (get_conn st c)) = None ->
  (forall k', In (AYourRef k') args -> 0 <= k') ->
  r_out r = Reject /\ st' = st /\ r_sent r = [] /\ c_alive (get_conn st' c) = true.
Proof. exact unknown_yourref_fails_only_that_request. Qed.
Print Assumptions C06_unknown_yourref_fails_only_that_request.

(* ... and the ONLY inbound call that still costs the peer its connection is a protocol error -- a NEG token inside a
   your-reference (checkToken: BananaError).  Unknown ids, names, classes, OPEN types, method names that are not UTF-8 never do. *)
Theorem C06_dropped_only_for_protocol_error : forall w st c req clid m args st' r,
  step w st (Msg c req clid m args) = (st', r) -> r_out r = Aborted ->
  clid <> 0 /\ exists k, In (AYourRef k) args /\ k < 0.
Proof. exact dropped_only_for_protocol_error. Qed.
Print Assumptions C06_dropped_only_for_protocol_error.

Theorem C06_dropped_local : forall w st c req clid m args st' r,
  step w st (Msg c req clid m args) = (st', r) -> r_out r = Aborted ->
  st' = set_conn st c (drop_conn (get_conn st c)) /\ r_sent r = [].
Proof. exact aborted_local. Qed.
Print Assumptions C06_dropped_local.

Theorem C06_plain_call_pure : forall w st c req clid m args st' r,
  step w st (Msg c req clid m args) = (st', r) ->
  (exists o a, r_out r = Enter (EObj o a)) \/ (exists o, r_out r = Enter (ECallable o)) -> st' = st /\ r_sent r = [].
Proof. exact plain_call_pure. Qed.
Print Assumptions C06_plain_call_pure.

Theorem C06_top_level_pure : forall w st c t st' r,
  step w st (TopMsg c t) = (st', r) -> st' = st /\ r_inst r = [] /\ r_sent r = [] /\ (r_out r = Reject \/ r_out r = Dead).
Proof. exact top_level_pure. Qed.
Print Assumptions C06_top_level_pure.

(* "ids learned on one connection are meaningless on another": an id this connection's table does not hold is refused
   without effect, whatever the other connection's table holds under it *)
Theorem C06_foreign_clid_refused : forall w st c req clid m args,
  clid <> 0 -> c_alive (get_conn st c) = true -> zget clid (c_exports (get_conn st c)) = None ->
  step w st (Msg c req clid m args) = (st, res0 Reject).
Proof. exact foreign_clid_refused. Qed.
Print Assumptions C06_foreign_clid_refused.

(* the other connection's table is neither read nor written by anything that does not happen on it *)
Theorem C06_other_table_is_a_frame : forall w st e c' x,
  on_conn e <> Some c' ->
  step w (set_conn st c' x) e = (set_conn (fst (step w st e)) c' x, snd (step w st e)).
Proof. exact step_frame. Qed.
Print Assumptions C06_other_table_is_a_frame.

(* non-interference over all interleaved histories: two histories that agree on connection c's own events (and on
   copyable registrations) but differ arbitrarily in what happens on the other connection -- grants, releases, inbound
   messages, drops -- and in the Tub's name table, give c the same export table and the same outcome for every one of
   c's messages.  Name lookups are excluded: the name table is Tub-wide by design (C06_names covers them). *)
Theorem C06_conn_local : forall w c h1 h2 s1 s2,
  same_view c s1 s2 -> no_lookup_on c h1 -> no_lookup_on c h2 -> proj c h1 = proj c h2 ->
  same_view c (fst (run w s1 h1)) (fst (run w s2 h2)) /\
  results_on c h1 (snd (run w s1 h1)) = results_on c h2 (snd (run w s2 h2)).
Proof. exact id_locality. Qed.
Print Assumptions C06_conn_local.

(* ============================== round 5: the translated dispatch path ==============================
   "id lookup or Violation", "remote_ prefix dispatch", "only through methods exposed for remote use":
   obj_call_T is assembled from the Gallina terms that translate/g_reachdisp.py produces, statement by statement, from
   Broker.getMyReferenceByCLID, CallUnslicer.receiveChild (stages 1 and 2), Broker._doCall, Referenceable.doRemoteCall and
   YourReferenceUnslicer.receiveClose.  On every well-kinded table it IS the hand-written dispatcher all theorems above are about. *)
Theorem C06_translated_dispatch : forall w copy cn clid m args,
  kinds_ok w cn -> clid <> 0 -> obj_call_T w copy cn clid m args = obj_call w copy cn clid m args.
Proof. exact obj_call_T_eq. Qed.
Print Assumptions C06_translated_dispatch.

(* "callable-by-reference": in every state any history leads to, negative ids denote bound methods / functions and positive
   ids Referenceables (so the well-kindedness above is no restriction) *)
Theorem C06_negative_ids_are_callables : forall w h st rs c k o rc,
  run w init h = (st, rs) -> zget k (c_exports (get_conn st c)) = Some (o, rc) ->
  (k < 0 -> o_kind (w_obj w o) = KCallable) /\ (0 < k -> o_kind (w_obj w o) = KObj).
Proof. exact kinds_reachable. Qed.
Print Assumptions C06_negative_ids_are_callables.

(* "not yet released": the translated Broker.remote_decref (with the translated ReferenceableTracker.decref inside) is the
   model's decref, and it forgets the object in myReferenceByPUID exactly when it forgets the id in myReferenceByCLID *)
Theorem C06_translated_decref : forall cn k n, decref_T cn k n = decref cn k n.
Proof. exact decref_T_eq. Qed.
Print Assumptions C06_translated_decref.

Theorem C06_decref_both_tables : forall (ex : list (Z * (Z * Z))) k n byclid bypuid o rc,
  gen_remote_decref tracker_decref ex (puid_table ex) k n = XOk (byclid, bypuid) -> zget k ex = Some (o, rc) ->
  (zget k byclid = None <-> zget o bypuid = None).
Proof. exact decref_both_tables. Qed.
Print Assumptions C06_decref_both_tables.

(* "(a) objects it names by their unguessable registered name": Tub._assignName and Tub.getReferenceForName, translated statement by
   statement (one lookup handler), are the model's assign_name / found_name for all inputs *)
Theorem C06_translated_assign_name : forall st o pref sw, assign_name_T st o pref sw = assign_name st o pref sw.
Proof. exact assign_name_T_eq. Qed.
Print Assumptions C06_translated_assign_name.

Theorem C06_translated_name_lookup : forall w st n, found_name_T w st n = found_name w st n.
Proof. exact found_name_T_eq. Qed.
Print Assumptions C06_translated_name_lookup.

(* end to end: on every history the machine that runs the translated code and the model agree, state by state and result by
   result; every history-level theorem above therefore speaks about the translated code *)
Theorem C06_translated_history : forall w h, run_T w init h = run w init h.
Proof. exact run_T_eq. Qed.
Print Assumptions C06_translated_history.

(* ============================== round 5: reference arguments ==============================
   A call may carry (my-reference k) -- the peer's own object -- and (their-reference g url) -- a gift -- among its arguments.
   SIMULATION: if such a call enters anything, the core model makes the same step for the call without them; so C06_calls,
   C06_instance_interface_enforced, C06_classes, C06_bad_argument_never_enters hold for calls with arbitrary arguments. *)
Theorem C06_reference_arguments_simulate : forall w x c req clid m xs x' r e,
  all_kinds_ok w (xs_core x) -> clid <> 0 ->
  xstep w x (XMsg c req clid m xs) = (x', r) -> r_out (xr_core r) = Enter e ->
  step w (xs_core x) (Msg c req clid m (strip xs)) = (xs_core x', xr_core r).
Proof. exact xcall_simulates. Qed.
Print Assumptions C06_reference_arguments_simulate.

(* "a peer can cause code to run only on ...", for what the entered code is HANDED: position by position, a local object only
   for a your-reference this connection's own table resolves (never for a my-reference: that yields a proxy of this
   connection for the peer's object; never for a gift: that yields what the dial returned), the Broker only for id 0, a fresh
   instance only of a registered class *)
Theorem C06_delivered_values_justified : forall ag w copy cn clid m xs e,
  r_out (xr_core (xobj_call ag w copy cn clid m xs)) = Enter e ->
  Forall2 (justified copy (c_exports cn)) xs (xr_argv (xobj_call ag w copy cn clid m xs)).
Proof. exact xcall_argv_justified. Qed.
Print Assumptions C06_delivered_values_justified.

Theorem C06_classes_any_arguments : forall ag w copy cn clid m xs cls,
  In cls (r_inst (xr_core (xobj_call ag w copy cn clid m xs))) ->
  exists n, In (XA (ACopyable n)) xs /\ sget n copy = Some cls.
Proof. exact xcall_classes. Qed.
Print Assumptions C06_classes_any_arguments.

(* a gift makes the Tub dial only when gifts are accepted, only the URLs the message itself carries; proxies are created
   only for the message's own my-references; and a call with a gift enters nothing unless gifts are accepted and the dial
   succeeded *)
Theorem C06_proxies_and_dials_justified : forall ag w copy cn clid m xs,
  (forall k, In k (xr_yours (xobj_call ag w copy cn clid m xs)) -> In (XMyRef k) xs) /\
  (forall g u, In (g, u) (xr_dial (xobj_call ag w copy cn clid m xs)) -> ag = true /\ exists ok, In (XTheirRef g u ok) xs).
Proof. exact xcall_effects_justified. Qed.
Print Assumptions C06_proxies_and_dials_justified.

(* "every other object id ... fails that request without side effects", with arbitrary arguments: an id this connection's
   table does not hold is refused AT THE ID -- nothing is instantiated, no proxy is created, nothing is dialled *)
Theorem C06_unheld_id_inert : forall ag w copy cn clid m xs,
  clid <> 0 -> zget clid (c_exports cn) = None ->
  xobj_call ag w copy cn clid m xs = {| xr_core := res0 Reject; xr_argv := []; xr_yours := []; xr_dial := [] |}.
Proof. exact xcall_unheld_id_inert. Qed.
Print Assumptions C06_unheld_id_inert.

Theorem C06_gift_gate : forall ag w copy cn clid m xs e g u ok,
  r_out (xr_core (xobj_call ag w copy cn clid m xs)) = Enter e -> In (XTheirRef g u ok) xs -> ag = true /\ ok = true.
Proof. exact xcall_gift_gate. Qed.
Print Assumptions C06_gift_gate.

(* "... without side effects", against the whole Tub + both brokers: entered or refused, with whatever arguments, a call to an
   application object leaves name table, registry, declarations and BOTH export tables alone (or drops its own connection),
   and never touches the other connection's proxy table *)
Theorem C06_tables_unchanged_any_arguments : forall w x c req clid m xs x' r,
  clid <> 0 -> xstep w x (XMsg c req clid m xs) = (x', r) ->
  (r_out (xr_core r) <> Aborted /\ xs_core x' = xs_core x) \/
  (r_out (xr_core r) = Aborted /\ xs_core x' = set_conn (xs_core x) c (drop_conn (get_conn (xs_core x) c))).
Proof. exact xcall_tables_unchanged. Qed.
Print Assumptions C06_tables_unchanged_any_arguments.

Theorem C06_other_proxies_unchanged : forall w x c req clid m xs x' r c',
  c' <> c -> xstep w x (XMsg c req clid m xs) = (x', r) -> get_yours x' c' = get_yours x c'.
Proof. exact xcall_other_proxies_unchanged. Qed.
Print Assumptions C06_other_proxies_unchanged.

(* FULL statement "a refused request changes nothing at all in the broker": REFUTED for the faithful model (witness replayed on
   the real code by the harness, signature oracle/refused-request-left-proxy-or-dial): arguments are unsliced before the
   request is known to be deliverable, so a request refused because of a LATER argument has already created a proxy in its own
   connection's yourReferenceByCLID, made the Tub dial the gift's URL and instantiated a registered class.  What IS unchanged
   is stated by C06_refusal_pure / C06_tables_unchanged_any_arguments. *)
Theorem C06_refusal_pure_full_refuted :
  exists w x c req clid m xs x' r,
    xstep w x (XMsg c req clid m xs) = (x', r) /\ r_out (xr_core r) = Reject /\
    xs_core x' = xs_core x /\
    get_yours x c = [] /\ get_yours x' c = [5] /\ xr_dial r = [(1, UForeign)] /\ r_inst (xr_core r) = [-1].
Proof. exact refusal_pure_full_refuted. Qed.
Print Assumptions C06_refusal_pure_full_refuted.
