From Coq Require Import QArith List.
Require Import Verif.lib.ReconnectorBase Verif.gen.ReconnectorGen Verif.lib.Reconnector Verif.lib.ReconnectorProofs.
Theorem C16_stub : True. Proof. exact placeholder_true. Qed.
Print Assumptions C16_stub.
