(* C16 -- Reconnector keeps retrying until stopped and is silent afterwards.
   Property theorems only; proofs live in lib/ReconnectorProofs.v.  The methods of the Reconnector are
   gen/ReconnectorGen.v (translated from reconnector.py on every run); lib/Reconnector.v adds the environment
   (which event calls which method, and `permitted` = the event orders the API allows: startConnecting at most
   once, a Deferred / disconnect watcher / timer fires only if it exists, reset/stopConnecting at any time,
   also before the Tub has started the Reconnector). *)
From Coq Require Import ZArith QArith Qminmax List.
Import ListNotations.
Require Import Verif.lib.ReconnectorBase Verif.gen.ReconnectorGen Verif.lib.Reconnector Verif.lib.ReconnectorProofs
               Verif.lib.ReconnectorTub Verif.lib.ReconnectorTubProofs.
Local Open Scope Q_scope.

(* "A Reconnector that has been started and not stopped ..." is exactly _active *)
Theorem C16_active_iff_started_not_stopped : forall evs,
  permitted init_state evs ->
  let s := fst (run init_state evs) in
  active s = true <-> (tub s = true /\ stopped s = false).
Proof. exact active_iff_started_not_stopped. Qed.
Print Assumptions C16_active_iff_started_not_stopped.

(* "... always has exactly one of: a connection attempt in progress, an established connection it is watching,
   or one retry timer pending"; no timer is ever leaked; ReconnectionInfo.state names the one that is pending;
   an inactive Reconnector has no timer *)
Theorem C16_one_activity : forall evs,
  permitted init_state evs ->
  let s := fst (run init_state evs) in
  leaked s = 0%nat /\
  (active s = true -> (inflight s + watching s + timer_count s = 1)%nat /\ info_agrees s) /\
  (active s = false -> timer s = None).
Proof. exact one_activity. Qed.
Print Assumptions C16_one_activity.

(* "... with a delay between zero and the documented maximum (plus jitter)": for draws of at most Zmax sigmas,
   Zmax <= 1/jitter (8.36), every timer that is set, reset or pending, and _delay itself, lies in
   [0, maxDelay * (1 + jitter*Zmax)].  Holds for every event order, permitted or not. *)
Theorem C16_delay_range : forall Zmax evs,
  0 <= Zmax -> Zmax * jitter <= 1 -> Forall (z_bounded Zmax) evs ->
  let r := run init_state evs in
  in_range Zmax (delay (fst r)) /\
  (forall d, timer (fst r) = Some d -> in_range Zmax d) /\
  Forall (out_in_range Zmax) (snd r).
Proof. exact delay_range. Qed.
Print Assumptions C16_delay_range.

(* the bound on the draw is necessary: random.normalvariate is unbounded, and a draw below -1/jitter sigmas
   (probability about 3e-17 per failure) makes the code ask for a negative delay; the real reactor's callLater
   asserts delay >= 0, the AssertionError is swallowed by the Deferred and the Reconnector stays active with
   nothing pending.  Stated, not hidden. *)
Theorem C16_negative_delay_possible :
  exists z d, permitted init_state [Start; AttemptFail z] /\
              timer (fst (run init_state [Start; AttemptFail z])) = Some d /\ d < 0.
Proof. exact negative_delay_possible. Qed.
Print Assumptions C16_negative_delay_possible.

(* "after a successful connection the backoff restarts from the initial delay": whatever failures preceded the
   success, when that connection is lost the retry timer is exactly initialDelay, and a failure of that retry
   waits min(initialDelay*factor, maxDelay) with jitter -- not the delay reached before the success *)
Theorem C16_backoff_restarts : forall evs z,
  permitted init_state (evs ++ [AttemptOk []]) ->
  let s := fst (run init_state (evs ++ [AttemptOk []])) in
  active s = true ->
  enabled s Lost = true /\
  let r := run s [Lost; TimerExpired; AttemptFail z] in
  permitted s [Lost; TimerExpired; AttemptFail z] /\
  snd r = [OSetTimer initialDelay; OGetRef; OSetTimer (jittered z (Qmin (initialDelay * factor) maxDelay))] /\
  timer (fst r) = Some (jittered z (Qmin (initialDelay * factor) maxDelay)).
Proof. exact backoff_restarts. Qed.
Print Assumptions C16_backoff_restarts.

(* "keeps retrying until stopped": while active something is pending, a failed attempt always schedules exactly
   one retry timer, a lost connection schedules one, and an expiring timer always starts exactly one attempt *)
Theorem C16_keeps_retrying : forall evs,
  permitted init_state evs ->
  let s := fst (run init_state evs) in
  active s = true ->
  (enabled s (AttemptOk []) = true \/ enabled s Lost = true \/ enabled s TimerExpired = true) /\
  (forall z, enabled s (AttemptFail z) = true ->
     exists d, snd (step s (AttemptFail z)) = [OSetTimer d] /\ timer (fst (step s (AttemptFail z))) = Some d
               /\ active (fst (step s (AttemptFail z))) = true) /\
  (enabled s Lost = true ->
     snd (step s Lost) = [OSetTimer initialDelay] /\ active (fst (step s Lost)) = true) /\
  (enabled s TimerExpired = true ->
     snd (step s TimerExpired) = [OGetRef] /\ inflight (fst (step s TimerExpired)) = 1%nat
     /\ active (fst (step s TimerExpired)) = true).
Proof. exact keeps_retrying. Qed.
Print Assumptions C16_keeps_retrying.

(* operations issued from INSIDE the user callback (stopConnecting / reset called re-entrantly while _connected is
   still on the stack) behave exactly as if they had been issued right after _connected returned -- the callback is
   the last thing _connected does -- and the callback only runs if the Reconnector was active.  Every theorem of
   this file quantifies over histories with such re-entrant calls (AttemptOk u). *)
Theorem C16_reentrant_callback : forall s u,
  step s (AttemptOk u) =
  if active s
  then (let (s1, o1) := step s (AttemptOk []) in
        let (s2, o2) := run s1 (map uop_event u) in (s2, o1 ++ o2))
  else step s (AttemptOk []).
Proof. exact ok_reentrant. Qed.
Print Assumptions C16_reentrant_callback.

(* "After stopConnecting the user callback is never invoked again and no timer or attempt is started, even if an
   attempt was in flight": for every history before the stop (including none: stopConnecting while still queued
   for Tub.startService) and every permitted continuation, no callback, getReference, notifyOnDisconnect,
   callLater or timer reset happens, no timer is pending and the Reconnector stays inactive *)
Theorem C16_silent_after_stop : forall evs1 evs2,
  permitted init_state (evs1 ++ Stop :: evs2) ->
  let s1 := fst (run init_state (evs1 ++ [Stop])) in
  let r := run s1 evs2 in
  Forall (fun o => silent o = true) (snd r) /\ active (fst r) = false /\ timer (fst r) = None /\ leaked (fst r) = 0%nat.
Proof. exact silent_after_stop. Qed.
Print Assumptions C16_silent_after_stop.

(* "a Deferred / disconnect watcher / timer fires only if it exists" (the `enabled` of every theorem above) is not a
   modelling assumption about counters: the ledger  led_run  is computed ONLY from what the translated methods did to
   their environment (getReference called, watcher registered, callLater, cancel) and from what has fired since; it
   always equals the model's counters, so an event of the environment is enabled exactly when the methods created
   such a thing and it has neither fired nor been cancelled *)
Theorem C16_enabled_is_ledger : forall evs, permitted init_state evs ->
  let s := fst (run init_state evs) in
  match led_run init_state (0, 0, 0)%Z evs with (d, w, t) =>
    (forall u, enabled s (AttemptOk u) = true <-> (0 < d)%Z) /\ (forall z, enabled s (AttemptFail z) = true <-> (0 < d)%Z) /\
    (enabled s Lost = true <-> (0 < w)%Z) /\ (enabled s TimerExpired = true <-> (0 < t)%Z) /\
    d = Z.of_nat (inflight s) /\ w = Z.of_nat (watching s) /\ t = Z.of_nat (timer_count s)
  end.
Proof. exact enabled_is_ledger. Qed.
Print Assumptions C16_enabled_is_ledger.

(* ====================================================================================================================
   The Tub side (pb.py).  Tub.connectTo, the Reconnector parts of Tub.startService / Tub.stopService and
   Tub._removeReconnector are translated on every run (m_tub_* of gen/ReconnectorGen.v); lib/ReconnectorTub.v is the
   dispatcher of a Tub with ALL the Reconnectors it created: TConnectTo | TStartService | TStopService | TTurn (the
   eventual queue delivers a queued startConnecting) | TRc i e (event e <> Start of Reconnector i).  startConnecting is
   no longer an event somebody may issue: it happens where the translated Tub methods call it. *)

(* the hypothesis `permitted` of all the theorems above ("the event orders the API allows": startConnecting at most
   once per Reconnector and only while it has no Tub, ...) is what a Tub really gives each of its Reconnectors:
   for every permitted Tub-level history and every Reconnector j, the events j takes (with the Start the Tub's
   connectTo / eventual queue gives it, and the Stop of Tub.stopService) form a permitted history, j's state is the
   run of it from __init__'s state, and what j did to its environment are the outputs of that run.  So every theorem
   of this file holds for every Reconnector of every Tub, by composition. *)
Theorem C16_tub_refines : forall h j, tpermitted tub_init h ->
  permitted init_state (proj j (thistory tub_init h)) /\
  rc_at (fst (trun tub_init h)) j = fst (run init_state (proj j (thistory tub_init h))) /\
  tagged j (snd (trun tub_init h)) = snd (run init_state (proj j (thistory tub_init h))).
Proof. exact tub_refines. Qed.
Print Assumptions C16_tub_refines.

(* first sentence, for every Reconnector of a Tub, whatever the Tub and its other Reconnectors do *)
Theorem C16_tub_one_activity : forall h j, tpermitted tub_init h ->
  let s := rc_at (fst (trun tub_init h)) j in
  leaked s = 0%nat /\
  (active s = true -> (inflight s + watching s + timer_count s = 1)%nat /\ info_agrees s) /\
  (active s = false -> timer s = None) /\
  (active s = true <-> (tub s = true /\ stopped s = false)).
Proof. exact tub_one_activity. Qed.
Print Assumptions C16_tub_one_activity.

(* last sentence, inside a Tub: after stopConnecting of Reconnector j, j is silent for every continuation of the
   Tub-level history (other Reconnectors' events, connectTo, startService delivering its queued start, stopService) *)
Theorem C16_tub_rc_silent_after_stop : forall h1 h2 j,
  tpermitted tub_init (h1 ++ TRc j Stop :: h2) ->
  let t1 := fst (trun tub_init (h1 ++ [TRc j Stop])) in
  Forall (fun o => silent o = true) (tagged j (snd (trun t1 h2))) /\
  active (rc_at (fst (trun t1 h2)) j) = false /\ timer (rc_at (fst (trun t1 h2)) j) = None.
Proof. exact tub_rc_silent_after_stop. Qed.
Print Assumptions C16_tub_rc_silent_after_stop.

(* "All my Reconnector objects will be shut down when the Tub is stopped" (Tub.connectTo): during Tub.stopService
   and for ever after, NO Reconnector of the Tub -- started, queued, waiting, connecting or connected -- invokes its
   callback, starts an attempt, registers a watcher or sets a timer; all are inactive without a timer *)
Theorem C16_tub_silent_after_stopService : forall h1 h2,
  tpermitted tub_init (h1 ++ TStopService :: h2) ->
  let r := trun (fst (trun tub_init h1)) (TStopService :: h2) in
  Forall (fun p : tout => silent (snd p) = true) (snd r) /\
  (forall j, active (rc_at (fst r) j) = false /\ timer (rc_at (fst r) j) = None) /\
  t_list (fst r) = None.
Proof. exact tub_silent_after_stopService. Qed.
Print Assumptions C16_tub_silent_after_stopService.

(* Tub.reconnectors holds exactly the Reconnectors that have not (been stopped and started), each once; on a running
   Tub every Reconnector has been started or has its startConnecting queued (Tub.startService starts the queued
   ones); on a Tub that is not running none has been started *)
Theorem C16_tub_membership : forall h, tpermitted tub_init h ->
  let t := fst (trun tub_init h) in
  match t_list t with
  | Some l => t_shut t = false /\ NoDup l /\
              forall i, In i l <-> ((i < List.length (t_rcs t))%nat /\ (stopped (rc_at t i) && tub (rc_at t i))%bool = false)
  | None => t_shut t = true
  end /\
  (t_running t = true -> t_shut t = false -> forall i, (i < List.length (t_rcs t))%nat ->
     tub (rc_at t i) = true \/ In i (t_queue t)) /\
  (t_running t = false -> forall i, tub (rc_at t i) = false).
Proof. exact tub_membership. Qed.
Print Assumptions C16_tub_membership.
