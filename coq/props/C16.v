(* C16 -- Reconnector keeps retrying until stopped and is silent afterwards.
   Property theorems only; proofs live in lib/ReconnectorProofs.v.  The methods of the Reconnector are
   gen/ReconnectorGen.v (translated from reconnector.py on every run); lib/Reconnector.v adds the environment
   (which event calls which method, and `permitted` = the event orders the API allows: startConnecting at most
   once, a Deferred / disconnect watcher / timer fires only if it exists, reset/stopConnecting at any time,
   also before the Tub has started the Reconnector). *)
From Coq Require Import QArith Qminmax List.
Import ListNotations.
Require Import Verif.lib.ReconnectorBase Verif.gen.ReconnectorGen Verif.lib.Reconnector Verif.lib.ReconnectorProofs.
Local Open Scope Q_scope.

(* "A Reconnector that has been started and not stopped ..." is exactly _active *)
Theorem C16_active_iff_started_not_stopped : forall evs,
  permitted init_state evs ->
  let s := fst (run init_state evs) in
  active s = true <-> (tub s = true /\ stopped s = false).
Proof. exact active_iff_started_not_stopped. Qed.
Print Assumptions C16_active_iff_started_not_stopped.

(* "... always has exactly one of: a connection attempt in progress, an established connection it is watching,
   or one retry timer pending"; no timer is ever leaked; ReconnectionInfo.state names the one that is pending;
   an inactive Reconnector has no timer *)
Theorem C16_one_activity : forall evs,
  permitted init_state evs ->
  let s := fst (run init_state evs) in
  leaked s = 0%nat /\
  (active s = true -> (inflight s + watching s + timer_count s = 1)%nat /\ info_agrees s) /\
  (active s = false -> timer s = None).
Proof. exact one_activity. Qed.
Print Assumptions C16_one_activity.

(* "... with a delay between zero and the documented maximum (plus jitter)": for draws of at most Zmax sigmas,
   Zmax <= 1/jitter (8.36), every timer that is set, reset or pending, and _delay itself, lies in
   [0, maxDelay * (1 + jitter*Zmax)].  Holds for every event order, permitted or not. *)
Theorem C16_delay_range : forall Zmax evs,
  0 <= Zmax -> Zmax * jitter <= 1 -> Forall (z_bounded Zmax) evs ->
  let r := run init_state evs in
  in_range Zmax (delay (fst r)) /\
  (forall d, timer (fst r) = Some d -> in_range Zmax d) /\
  Forall (out_in_range Zmax) (snd r).
Proof. exact delay_range. Qed.
Print Assumptions C16_delay_range.

(* the bound on the draw is necessary: random.normalvariate is unbounded, and a draw below -1/jitter sigmas
   (probability about 3e-17 per failure) makes the code ask for a negative delay; the real reactor's callLater
   asserts delay >= 0, the AssertionError is swallowed by the Deferred and the Reconnector stays active with
   nothing pending.  Stated, not hidden. *)
Theorem C16_negative_delay_possible :
  exists z d, permitted init_state [Start; AttemptFail z] /\
              timer (fst (run init_state [Start; AttemptFail z])) = Some d /\ d < 0.
Proof. exact negative_delay_possible. Qed.
Print Assumptions C16_negative_delay_possible.

(* "after a successful connection the backoff restarts from the initial delay": whatever failures preceded the
   success, when that connection is lost the retry timer is exactly initialDelay, and a failure of that retry
   waits min(initialDelay*factor, maxDelay) with jitter -- not the delay reached before the success *)
Theorem C16_backoff_restarts : forall evs z,
  permitted init_state (evs ++ [AttemptOk []]) ->
  let s := fst (run init_state (evs ++ [AttemptOk []])) in
  active s = true ->
  enabled s Lost = true /\
  let r := run s [Lost; TimerExpired; AttemptFail z] in
  permitted s [Lost; TimerExpired; AttemptFail z] /\
  snd r = [OSetTimer initialDelay; OGetRef; OSetTimer (jittered z (Qmin (initialDelay * factor) maxDelay))] /\
  timer (fst r) = Some (jittered z (Qmin (initialDelay * factor) maxDelay)).
Proof. exact backoff_restarts. Qed.
Print Assumptions C16_backoff_restarts.

(* "keeps retrying until stopped": while active something is pending, a failed attempt always schedules exactly
   one retry timer, a lost connection schedules one, and an expiring timer always starts exactly one attempt *)
Theorem C16_keeps_retrying : forall evs,
  permitted init_state evs ->
  let s := fst (run init_state evs) in
  active s = true ->
  (enabled s (AttemptOk []) = true \/ enabled s Lost = true \/ enabled s TimerExpired = true) /\
  (forall z, enabled s (AttemptFail z) = true ->
     exists d, snd (step s (AttemptFail z)) = [OSetTimer d] /\ timer (fst (step s (AttemptFail z))) = Some d
               /\ active (fst (step s (AttemptFail z))) = true) /\
  (enabled s Lost = true ->
     snd (step s Lost) = [OSetTimer initialDelay] /\ active (fst (step s Lost)) = true) /\
  (enabled s TimerExpired = true ->
     snd (step s TimerExpired) = [OGetRef] /\ inflight (fst (step s TimerExpired)) = 1%nat
     /\ active (fst (step s TimerExpired)) = true).
Proof. exact keeps_retrying. Qed.
Print Assumptions C16_keeps_retrying.

(* operations issued from INSIDE the user callback (stopConnecting / reset called re-entrantly while _connected is
   still on the stack) behave exactly as if they had been issued right after _connected returned -- the callback is
   the last thing _connected does -- and the callback only runs if the Reconnector was active.  Every theorem of
   this file quantifies over histories with such re-entrant calls (AttemptOk u). *)
Theorem C16_reentrant_callback : forall s u,
  step s (AttemptOk u) =
  if active s
  then (let (s1, o1) := step s (AttemptOk []) in
        let (s2, o2) := run s1 (map uop_event u) in (s2, o1 ++ o2))
  else step s (AttemptOk []).
Proof. exact ok_reentrant. Qed.
Print Assumptions C16_reentrant_callback.

(* "After stopConnecting the user callback is never invoked again and no timer or attempt is started, even if an
   attempt was in flight": for every history before the stop (including none: stopConnecting while still queued
   for Tub.startService) and every permitted continuation, no callback, getReference, notifyOnDisconnect,
   callLater or timer reset happens, no timer is pending and the Reconnector stays inactive *)
Theorem C16_silent_after_stop : forall evs1 evs2,
  permitted init_state (evs1 ++ Stop :: evs2) ->
  let s1 := fst (run init_state (evs1 ++ [Stop])) in
  let r := run s1 evs2 in
  Forall (fun o => silent o = true) (snd r) /\ active (fst r) = false /\ timer (fst r) = None /\ leaked (fst r) = 0%nat.
Proof. exact silent_after_stop. Qed.
Print Assumptions C16_silent_after_stop.
