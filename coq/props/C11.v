(* C11 -- Receive-side memory is bounded by the schema before data is accepted.
   Property theorems only; proofs in lib/RecvProofs.v and lib/BananaRecvProofs.v. *)
From Coq Require Import ZArith List Bool Lia.
Import ListNotations.
Require Import Verif.lib.PyLite Verif.gen.BananaGen Verif.gen.NegotiateGen Verif.lib.Token Verif.lib.Recv Verif.lib.RecvProofs
               Verif.lib.BananaRecv Verif.lib.BananaRecvProofs Verif.lib.Negotiate Verif.lib.NegotiateProofs
               Verif.lib.OpenerBase Verif.gen.OpenerGen Verif.lib.OpenerProofs.
Local Open Scope Z_scope.

Section Generic.
Variables ctx ev : Type.
Variable begin_body : ctx -> Z -> Z -> bres ctx ev.
Variable finish_body : ctx -> Z -> Z -> list Z -> hres2 ctx ev.
Variable step_nobody : ctx -> Z -> Z -> hres2 ctx ev.
Variables e1 e2 : list ev.
Variable e3 : list Z -> list ev.

(* "The receiver decides whether to accept a token after reading at most 65 bytes of it":
   the verdict computed on a buffer equals the verdict computed on its first 65 bytes *)
Theorem C11_decide_by_65 : forall c b,
  verdict ctx ev begin_body c b <> None -> verdict ctx ev begin_body c b = verdict ctx ev begin_body c (firstn 65 b).
Proof. exact (decided_by_65_bytes ctx ev begin_body). Qed.

(* "never buffers the body of a token that the schema in force would reject: rejected bodies are
   skipped as they arrive": when the verdict is Reject and the body is incomplete, the buffer is
   emptied and exactly the missing byte count is skipped ... *)
Theorem C11_rejected_never_buffered : forall f c b c' es n s' evs,
  tok_step ctx ev begin_body finish_body step_nobody e1 e2 e3 c b = TSkip ctx ev c' es n -> b <> [] ->
  loop ctx ev begin_body finish_body step_nobody e1 e2 e3 (S f) c b = (s', evs) ->
  r_buf s' = [] /\ r_skip s' = n /\ 0 < n /\ evs = es.
Proof. exact (rejected_never_buffered ctx ev begin_body finish_body step_nobody e1 e2 e3). Qed.

(* ... and the skipped bytes are neither inspected nor stored *)
Theorem C11_skipping_stores_nothing : forall s chunk, r_dead s = false -> 0 < r_skip s -> lenZ chunk <= r_skip s ->
  feed ctx ev begin_body finish_body step_nobody e1 e2 e3 s chunk = (mk (r_ctx s) (r_buf s) (r_skip s - lenZ chunk) false, []).
Proof. exact (skipping_stores_nothing ctx ev begin_body finish_body step_nobody e1 e2 e3). Qed.

(* "under a schema with finite size limits the bytes held for a partly received message never exceed
   the schema's bound, however large the sender claims a token to be and however it paces its packets":
   if the tasters accept a body only when it fits B, then for ALL chunk sequences the buffer stays
   below 65 + max(B, SIZE_LIMIT) *)
Theorem C11_bound : forall B, 0 <= B ->
  (forall c ty hdr, has_body ty = true -> begin_body c ty hdr = BAccept -> blen ty hdr <= B) ->
  forall cs c, lenZ (r_buf (fst (feed_all ctx ev begin_body finish_body step_nobody e1 e2 e3 (init c) cs))) < 65 + Z.max B SIZE_LIMIT.
Proof.
  intros B HB HA cs c.
  apply (buffer_bounded ctx ev begin_body finish_body step_nobody e1 e2 e3 B HA cs (init c)).
  unfold held_ok, init, mk, lenZ. cbn [r_buf List.length Z.of_nat]. unfold SIZE_LIMIT. lia.
Qed.

(* "a header longer than 64 bytes ends the connection" *)
Theorem C11_header_cap : forall c b m, List.length b = 65%nat -> Forall (fun x => x < 128) b ->
  tok_step ctx ev begin_body finish_body step_nobody e1 e2 e3 c (b ++ m) = TDead ctx ev e1.
Proof. exact (header_cap ctx ev begin_body finish_body step_nobody e1 e2 e3). Qed.
End Generic.

Print Assumptions C11_decide_by_65.
Print Assumptions C11_rejected_never_buffered.
Print Assumptions C11_skipping_stores_nothing.
Print Assumptions C11_bound.
Print Assumptions C11_header_cap.

(* the size-limited tasters of the transcription accept a sized body only if it fits their limit *)
Theorem C11_taster_respects_limit : forall mode f ty size,
  check_frame mode f ty size = CkOk -> is_sized ty = true ->
  (f_kind f = kS -> size <= f_param f) /\ (f_kind f = kR -> 3 <= mode -> size <= mode - 3).
Proof. exact taster_respects_limit. Qed.
Print Assumptions C11_taster_respects_limit.

(* the negotiation phase refuses more than 4096 buffered bytes (constant read from Negotiation.dataReceived) *)
Theorem C11_negotiation_cap : forall n, header_refused n = true <-> 4096 < n.
Proof. exact header_cap_4096. Qed.
Print Assumptions C11_negotiation_cap.

(* Index tokens (the strings after an OPEN) are judged by the ROOT unslicer, not by the schema: on a Broker the first is
   bounded by the longest opentype string and the class name after OPEN copyable by the longest registered Copyable name;
   on the plain root every index token is bounded by the larger of the two.  (openerCheckToken of both roots is translated
   from broker.py / slicers/root.py on every run; a second index token is awaited only after "copyable".) *)
Theorem C11_pb_first_index_token_bounded : forall mi lg size,
  pb_opener_accepts mi lg [] tok_STRING size = true -> size <= mi.
Proof. exact pb_first_index_bounded. Qed.

Theorem C11_pb_copyable_classname_bounded : forall mi lg size,
  pb_opener_accepts mi lg [copyable_name] tok_STRING size = true -> size <= lg.
Proof. exact pb_classname_bounded. Qed.

Theorem C11_root_index_tokens_bounded : forall mi lg ot size,
  root_opener_accepts mi lg ot tok_STRING size = true -> size <= Z.max mi lg.
Proof. exact root_index_bounded. Qed.

Theorem C11_index_positions : open_waits_only_for_copyable_name = true.
Proof. exact second_index_only_after_copyable. Qed.

Print Assumptions C11_pb_first_index_token_bounded.
Print Assumptions C11_pb_copyable_classname_bounded.
Print Assumptions C11_root_index_tokens_bounded.
Print Assumptions C11_index_positions.
