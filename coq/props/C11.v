(* C11 -- Receive-side memory is bounded by the schema before data is accepted.
   Property theorems only; proofs in lib/RecvProofs.v and lib/BananaRecvProofs.v. *)
From Coq Require Import ZArith List Bool Lia.
Import ListNotations.
Require Import Verif.lib.PyLite Verif.gen.BananaGen Verif.gen.NegotiateGen Verif.gen.RecvGen Verif.lib.Token Verif.lib.Recv Verif.lib.RecvProofs Verif.lib.RecvTie Verif.lib.NegCapTie
               Verif.lib.BananaRecv Verif.lib.BananaRecvProofs
               Verif.lib.OpenerBase Verif.gen.OpenerGen Verif.lib.OpenerProofs.
Local Open Scope Z_scope.

Section Generic.
Variables ctx ev : Type.
Variable begin_body : ctx -> Z -> Z -> bres ctx ev.
Variable finish_body : ctx -> Z -> Z -> list Z -> hres2 ctx ev.
Variable step_nobody : ctx -> Z -> Z -> hres2 ctx ev.
Variables e1 e2 : list ev.
Variable e3 : list Z -> list ev.

(* "The receiver decides whether to accept a token after reading at most 65 bytes of it":
   the verdict computed on a buffer equals the verdict computed on its first 65 bytes *)
Theorem C11_decide_by_65 : forall c b,
  verdict ctx ev begin_body c b <> None -> verdict ctx ev begin_body c b = verdict ctx ev begin_body c (firstn 65 b).
Proof. exact (decided_by_65_bytes ctx ev begin_body). Qed.

(* "never buffers the body of a token that the schema in force would reject: rejected bodies are
   skipped as they arrive": when the verdict is Reject and the body is incomplete, the buffer is
   emptied and exactly the missing byte count is skipped ... *)
Theorem C11_rejected_never_buffered : forall f c b c' es n s' evs,
  tok_step ctx ev begin_body finish_body step_nobody e1 e2 e3 c b = TSkip ctx ev c' es n -> b <> [] ->
  loop ctx ev begin_body finish_body step_nobody e1 e2 e3 (S f) c b = (s', evs) ->
  r_buf s' = [] /\ r_skip s' = n /\ 0 < n /\ evs = es.
Proof. exact (rejected_never_buffered ctx ev begin_body finish_body step_nobody e1 e2 e3). Qed.

(* ... and the skipped bytes are neither inspected nor stored *)
Theorem C11_skipping_stores_nothing : forall s chunk, r_dead s = false -> 0 < r_skip s -> lenZ chunk <= r_skip s ->
  feed ctx ev begin_body finish_body step_nobody e1 e2 e3 s chunk = (mk (r_ctx s) (r_buf s) (r_skip s - lenZ chunk) false, []).
Proof. exact (skipping_stores_nothing ctx ev begin_body finish_body step_nobody e1 e2 e3). Qed.

(* "under a schema with finite size limits the bytes held for a partly received message never exceed
   the schema's bound, however large the sender claims a token to be and however it paces its packets":
   if the tasters accept a body only when it fits B, then for ALL chunk sequences the buffer stays
   below 65 + max(B, SIZE_LIMIT) *)
Theorem C11_bound : forall B, 0 <= B ->
  (forall c ty hdr, has_body ty = true -> begin_body c ty hdr = BAccept -> blen ty hdr <= B) ->
  forall cs c, lenZ (r_buf (fst (feed_all ctx ev begin_body finish_body step_nobody e1 e2 e3 (init c) cs))) < 65 + Z.max B SIZE_LIMIT.
Proof. exact (buffer_bounded_from_init ctx ev begin_body finish_body step_nobody e1 e2 e3). Qed.
(* NOTE: the hypothesis quantifies over ALL contexts, so this form is instantiable only by semantics whose tasters are bounded in
   every state.  The form that real receivers instantiate carries an invariant on the unslicers that can be on the stack:
   C11_bound_any_unslicers below, instantiated for the standard unslicers under real constraint objects by
   C11_schema_bound_standard_unslicers (with C11_bound_example as a concrete inhabitant). *)

(* "a header longer than 64 bytes ends the connection" *)
Theorem C11_header_cap : forall c b m, List.length b = 65%nat -> Forall (fun x => x < 128) b ->
  tok_step ctx ev begin_body finish_body step_nobody e1 e2 e3 c (b ++ m) = TDead ctx ev e1.
Proof. exact (header_cap ctx ev begin_body finish_body step_nobody e1 e2 e3). Qed.
End Generic.


(* the size-limited tasters of the transcription accept a sized body only if it fits their limit *)
Theorem C11_taster_respects_limit : forall mode f ty size,
  check_frame mode f ty size = CkOk -> is_sized ty = true ->
  (f_kind f = kS -> size <= f_param f) /\ (f_kind f = kR -> 3 <= mode -> size <= mode - 3).
Proof. exact taster_respects_limit. Qed.

(* the negotiation phase (negotiate.py Negotiation.dataReceived, guard translated into gen/NegotiateGen.header_verdict: 0 = refuse
   "Header too long", 1 = wait for more, 2 = split off a block): a block whose terminator lies beyond 4096 bytes is refused; without a
   terminator the attempt is abandoned once 4096 + 4 bytes are buffered (a terminator that starts within the limit could still be
   completed), and below that it waits; a block that ends within the limit is split off *)
Theorem C11_negotiation_cap : forall eoh buflen, 4096 < eoh -> header_verdict eoh buflen = 0.
Proof. exact neg_cap_beyond. Qed.
Theorem C11_negotiation_cap_no_terminator : forall buflen, header_verdict (-1) buflen = 0 <-> 4100 <= buflen.
Proof. exact neg_cap_no_terminator. Qed.
Theorem C11_negotiation_waits_below_cap : forall buflen, header_verdict (-1) buflen = 1 <-> buflen < 4100.
Proof. exact neg_waits_below_cap. Qed.
Theorem C11_negotiation_block_within_cap : forall eoh buflen, 0 <= eoh <= 4096 -> header_verdict eoh buflen = 2.
Proof. exact neg_block_within_cap. Qed.

(* Index tokens (the strings after an OPEN) are judged by the ROOT unslicer, not by the schema: on a Broker the first is
   bounded by the longest opentype string and the class name after OPEN copyable by the longest registered Copyable name;
   on the plain root every index token is bounded by the larger of the two.  (openerCheckToken of both roots is translated
   from broker.py / slicers/root.py on every run; a second index token is awaited only after "copyable".) *)
Theorem C11_pb_first_index_token_bounded : forall mi lg size,
  pb_opener_accepts mi lg [] tok_STRING size = true -> size <= mi.
Proof. exact pb_first_index_bounded. Qed.

Theorem C11_pb_copyable_classname_bounded : forall mi lg size,
  pb_opener_accepts mi lg [copyable_name] tok_STRING size = true -> size <= lg.
Proof. exact pb_classname_bounded. Qed.

Theorem C11_root_index_tokens_bounded : forall mi lg ot size,
  root_opener_accepts mi lg ot tok_STRING size = true -> size <= Z.max mi lg.
Proof. exact root_index_bounded. Qed.

Theorem C11_index_positions : open_waits_only_for_copyable_name = true.
Proof. exact second_index_only_after_copyable. Qed.


(* ======================================================================================================================
   ROUND 5.  "under a schema with finite size limits the bytes held for a partly received message never exceed the schema's
   bound": for the STANDARD unslicers (RootUnslicer, list, tuple, dict, set, immutable-set, unicode, boolean, none) under a tree
   of constraint objects whose taster tables are DATA (read from the live constraint objects by the harness), the bound is
   computed in Coq from those tables (lib/StdUnsl.sbound) and holds for all byte sequences, all chunkings and all taster tables. *)
Require Import Verif.gen.RecvGen Verif.lib.Unsl Verif.lib.UnslProofs Verif.lib.StdUnsl Verif.lib.StdUnslProofs Verif.lib.RecvTie.

(* THE SCHEMA'S BOUND sbound (review-2 repair; the round-5 statement was FALSE of the real code, see C11_taster_only_bound_refuted
   below).  sbound c is finite only if every constraint object of the tree has a CLOSED opentype list: a list (not None = "all
   types are accepted") that names none of copyable / decimal / set-vocab / add-vocab, whose unslicers take no size limit from
   the schema; a PolyConstraint (ChoiceOf; inherits opentypes = None) is bounded only as the ROOT constraint, where
   RootUnslicer.doOpen refuses OPEN copyable; inside a container it is unbounded (known finding
   oracle/unbounded-buffering/choice-admits-copyable).
   GUARD, stated: the conclusion is claimed for runs in which the model did not ABSTAIN (sabstained = false).  An abstaining run
   ends the model with the marker UUnmodelled (lib/Unsl.v: neither ok nor abandoned) and its buffer is no longer the real
   receiver's.  With a finite sbound the abstentions left are value-level only -- what a reference resolves to, a non-ASCII
   unicode body or index token, float / bool / frozenset members of sets and dict keys -- each after a token that was tasted and
   bounded like any other; NO unslicer outside the model is ever created (C11_bounded_schema_never_leaves_the_model).  The real
   receiver's high-water mark in such runs is covered by the direct oracle only. *)
Theorem C11_schema_bound_standard_unslicers : forall mi lg c Bs cs, sbound c = Some Bs ->
  sabstained (snd (sfeed_all mi lg (init (sctx0 (Some c))) cs)) = false ->
  lenZ (r_buf (fst (sfeed_all mi lg (init (sctx0 (Some c))) cs))) < 65 + Z.max (Z.max (Z.max Bs (Z.max mi lg)) 8) SIZE_LIMIT.
Proof. intros mi lg c Bs cs HS _. exact (std_buffer_bounded mi lg c Bs cs HS). Qed.

(* the guard above is not hiding an unslicer: under a finite sbound every unslicer that is ever on the stack carries the bound, and
   in every reachable state an OPEN sequence is refused by the opentype check, refused by the registry, kills the connection in
   setConstraint (AssertionError), or creates a MODELLED unslicer -- std_do_open never answers "abstain" *)
Theorem C11_bounded_schema_never_leaves_the_model : forall mi lg c Bs cs name, sbound c = Some Bs ->
  let st := map (uf_st sfr) (u_stack sfr (r_ctx (fst (sfeed_all mi lg (init (sctx0 (Some c))) cs)))) in
  st <> [] -> std_do_open st [name] <> OExc 98.
Proof. exact std_bounded_schema_open_never_abstains. Qed.

Theorem C11_reachable_unslicers_carry_the_bound : forall mi lg c Bs cs, sbound c = Some Bs ->
  Forall (fun f => SP (Z.max 0 Bs) (uf_st sfr f)) (u_stack sfr (r_ctx (fst (sfeed_all mi lg (init (sctx0 (Some c))) cs)))).
Proof. exact std_reachable_stack_bounded. Qed.

(* REFUTED: the round-5 bound, read off the taster tables alone (sbound_tasters).  Witness c = ListOf(ChoiceOf(ByteStringConstraint(3),
   UnicodeConstraint(3))) with the taster tables / strictTaster / opentypes of the live objects: sbound_tasters c = 18, yet after
   OPEN(0) "list" the list's slot tastes the next OPEN, its opentype check ADMITS copyable, and doOpen leaves the model: the real
   code builds a RemoteCopyUnslicer (setConstraint is BaseUnslicer's `pass`, checkToken applies no constraint to an attribute name).
   REPLAYED on the real code (harness/c11.py choice_admits_copyable, corpus/C11/choice_admits_copyable.json): OPEN(0) "list" OPEN(1)
   "copyable" "twisted.python.failure.Failure" STRING(5 000 000) + 100 chunks of 40 kB: 4 000 005 bytes held, connection alive, no
   violation.  Known finding oracle/unbounded-buffering/choice-admits-copyable.  sbound c = None. *)
Theorem C11_taster_only_bound_refuted :
  exists c st, sbound_tasters c = Some 18 /\
    sapply_all 13 30 (sctx0 (Some c)) [(tok_OPEN, 0, []); (tok_STRING, 4, [108; 105; 115; 116])] =
      UOk sfr {| u_discard := 0; u_inOpen := false; u_opentype := [[108; 105; 115; 116]]; u_stack := st;
                 u_objctr := 1; u_inbObj := 0; u_inbOpen := 0; u_vocab := [] |} [] /\
    std_check (uf_st sfr (hd {| uf_open := None; uf_st := sroot None |} st)) tok_OPEN 1 = OOk tt /\
    std_do_open (map (uf_st sfr) st) [str_copyable] = OExc 98 /\
    sbound c = None.
Proof. exact std_taster_only_bound_refuted. Qed.

(* inside the guard: the same ChoiceOf as the ROOT constraint is bounded (18 bytes) *)
Example C11_root_choice_bounded : sbound rf_choice = Some 18.
Proof. reflexivity. Qed.

(* what the bound rests on: a token that a constraint's taster accepts fits the constraint's bound ... *)
Theorem C11_taster_accepts_within_bound : forall c ty size B, usized ty = true -> ole (sbound c) B -> staste c ty size = OOk tt -> size <= B.
Proof. exact staste_bound. Qed.
(* ... every standard unslicer applies to its next token a constraint of its own slot (the i-th of a tuple, key or value of a
   dict by parity, the item constraint of a list / set), or refuses it when the container is full ... *)
Theorem C11_unslicer_check_within_bound : forall B f ty size, SP B f -> usized ty = true -> std_check f ty size = OOk tt -> size <= B.
Proof. exact std_P_check. Qed.
(* ... and a child unslicer inherits a bound no larger than its parent's slot *)
Theorem C11_child_inherits_bound : forall B, 0 <= B -> forall st ot ch, Forall (SP B) st -> std_do_open st ot = OOk (Some ch) -> SP B ch.
Proof. exact std_P_open. Qed.

(* the same bound for EVERY unslicer semantics whose reachable unslicers (P) have tasters bounded by B *)
Theorem C11_bound_any_unslicers :
  forall (fr : Type) u_check u_opener_check u_do_open u_start u_child u_close u_finish u_report (P : fr -> Prop) (B : Z),
  (forall st ot ch, Forall P st -> u_do_open st ot = OOk (Some ch) -> P ch) ->
  (forall ch n ch', P ch -> u_start ch n = OOk ch' -> P ch') ->
  (forall f v es f', P f -> u_child f v = (es, OOk f') -> P f') ->
  (forall f ty size, P f -> usized ty = true -> u_check f ty size = OOk tt -> size <= B) ->
  (forall st ty size ot, usized ty = true -> u_opener_check st ty size ot = OOk tt -> size <= B) ->
  forall cs s, good fr P B s -> good fr P B (fst (ufeed_all fr u_check u_opener_check u_do_open u_start u_child u_close u_finish u_report s cs)).
Proof. intros. eapply unsl_buffer_bounded_inv; eauto. Qed.

(* non-vacuity: DictOf(ByteString(3), TupleOf(ByteString(5), Integer(maxBytes=8))) has bound 8 *)
Example C11_sbound_example :
  let b (n : Z) := SPrim {| t_taster := [(130, Some n); (135, None)]; t_strict := false; t_opens := Some [] |} in
  let i8 := SPrim {| t_taster := [(129, None); (131, None); (133, Some 8); (134, Some 8)]; t_strict := false; t_opens := Some [] |} in
  let op (k : Z) := {| t_taster := [(136, None)]; t_strict := false; t_opens := Some [k] |} in
  sbound (SDict (op 5) (b 3) (STuple (op 2) [b 5; i8]) None) = Some 8.
Proof. reflexivity. Qed.

(* ... and the theorem instantiated: under that constraint the receiver never holds 1065 bytes, whatever arrives and however it is chunked *)
Example C11_bound_example :
  let b (n : Z) := SPrim {| t_taster := [(130, Some n); (135, None)]; t_strict := false; t_opens := Some [] |} in
  let i8 := SPrim {| t_taster := [(129, None); (131, None); (133, Some 8); (134, Some 8)]; t_strict := false; t_opens := Some [] |} in
  let op (k : Z) := {| t_taster := [(136, None)]; t_strict := false; t_opens := Some [k] |} in
  forall cs, lenZ (r_buf (fst (sfeed_all 13 0 (init (sctx0 (Some (SDict (op 5) (b 3) (STuple (op 2) [b 5; i8]) None)))) cs))) < 1065.
Proof. intros b i8 op cs. apply (std_buffer_bounded 13 0 _ 8 cs). reflexivity. Qed.

(* the guard of C11_schema_bound_standard_unslicers is satisfiable by a run that is not trivial: under that constraint, a dict with an
   oversize key claim trickled in two chunks -- the model does not abstain, reports one violation, holds nothing *)
Example C11_guard_example :
  let b (n : Z) := SPrim {| t_taster := [(130, Some n); (135, None)]; t_strict := false; t_opens := Some [] |} in
  let i8 := SPrim {| t_taster := [(129, None); (131, None); (133, Some 8); (134, Some 8)]; t_strict := false; t_opens := Some [] |} in
  let op (k : Z) := {| t_taster := [(136, None)]; t_strict := false; t_opens := Some [k] |} in
  let r := sfeed_all 13 0 (init (sctx0 (Some (SDict (op 5) (b 3) (STuple (op 2) [b 5; i8]) None))))
             [[0; 136; 4; 130; 100; 105; 99; 116; 100; 130]; [97; 98; 99]] in
  sabstained (snd r) = false /\ snd r = [UViolation] /\ r_buf (fst r) = [] /\ r_skip (fst r) = 97.
Proof. vm_compute. repeat split; reflexivity. Qed.

(* "rejected bodies are skipped as they arrive" / "decides after reading at most 65 bytes": the translated dispatch clauses of
   handleData (gen/RecvGen.v) do, for every token kind with a body, what the tokenizer model does *)
Theorem C11_tie_rejected_body_is_skipped : forall ty hdr have, has_body ty = true ->
  hd_rejected_incomplete ty hdr have = Some (blen ty hdr - have).
Proof. exact tie_rejected_incomplete. Qed.
Theorem C11_tie_accepted_body_waits : forall ty hdr have, hd_accepted_incomplete ty hdr have = None.
Proof. exact tie_accepted_incomplete. Qed.
Theorem C11_tie_skip_prologue : forall (ctx ev : Type) bb fb sn e1 e2 e3 (s : rstate ctx) chunk,
  r_dead s = false -> 0 <= r_skip s ->
  feed ctx ev bb fb sn e1 e2 e3 s chunk =
  match hd_prologue (lenZ chunk) (r_skip s) with
  | (k, None) => (mk (r_ctx s) (r_buf s) k false, [])
  | (_, Some d) => let b := r_buf s ++ skipn (Z.to_nat d) chunk in loop ctx ev bb fb sn e1 e2 e3 (S (List.length b)) (r_ctx s) b
  end.
Proof. exact tie_feed_prologue. Qed.
Theorem C11_tie_header_window : hd_window = 65 /\ hd_max_header = 64 /\ hd_hibit = 128.
Proof. exact tie_header_window. Qed.
Theorem C11_tie_error_oversize : forall hdr, hd_error_oversize hdr = (SIZE_LIMIT <? hdr).
Proof. exact tie_error_oversize. Qed.

(* one Print Assumptions per group: the axioms of a tuple are the union of the axioms of its components *)
Definition C11_group_1 := (@C11_decide_by_65, @C11_rejected_never_buffered, @C11_skipping_stores_nothing, @C11_bound, @C11_header_cap, @C11_taster_respects_limit, @C11_negotiation_cap, @C11_negotiation_cap_no_terminator, @C11_negotiation_waits_below_cap, @C11_negotiation_block_within_cap, @C11_pb_first_index_token_bounded, @C11_pb_copyable_classname_bounded).
Print Assumptions C11_group_1.
(* one Print Assumptions per group: the axioms of a tuple are the union of the axioms of its components *)
Definition C11_group_2 := (@C11_root_index_tokens_bounded, @C11_index_positions, @C11_schema_bound_standard_unslicers, @C11_bounded_schema_never_leaves_the_model, @C11_reachable_unslicers_carry_the_bound, @C11_taster_only_bound_refuted, @C11_taster_accepts_within_bound, @C11_unslicer_check_within_bound, @C11_child_inherits_bound, @C11_bound_any_unslicers, @C11_tie_rejected_body_is_skipped, @C11_tie_accepted_body_waits, @C11_tie_skip_prologue, @C11_tie_header_window, @C11_tie_error_oversize).
Print Assumptions C11_group_2.

(* the index-token check used by the standard-unslicer model is the TRANSLATED RootUnslicer.openerCheckToken, for all arguments *)
Require Import Verif.lib.OpenerTie.
Theorem C11_standard_opener_is_translated : forall mi lg st ty size ot,
  std_opener mi lg st ty size ot = if root_opener_accepts mi lg ot ty size then OOk tt else OViol.
Proof. exact std_opener_is_translated. Qed.
Print Assumptions C11_standard_opener_is_translated.
