(* C01 -- Serialization round-trip preserves value, type and sharing topology.
   Object layer (Obj.v) on top of the token layer (Token.v, lead) on top of the translated codecs (gen/BananaGen.v);
   opentype strings / trackReferences / setObject flags from gen/SlicersGen.v.
   A graph is given by its emission-order canonical term t; `heap_of n t`, `val_of n t` is the graph the term denotes
   (node k = the container whose OPEN carried number k, `ORef k` = a pointer to node k: sharing and cycles);
   `slice n t` is what the sender emits, `unslice` is the receiver's stack machine. *)
From Coq Require Import ZArith List String Bool Lia.
Import ListNotations.
Require Import Verif.lib.PyLite Verif.gen.BananaGen Verif.gen.SlicersGen Verif.lib.Token Verif.lib.TokenProofs
        Verif.lib.Obj Verif.lib.ObjProofs Verif.lib.ObjDefer Verif.lib.ObjDeferProofs
        Verif.lib.ObjChunks Verif.lib.ObjVocab Verif.lib.ObjCanon Verif.lib.SendHeap Verif.lib.SendHeapProofs Verif.lib.SendHeapE2E
        Verif.lib.ObjKeepalive Verif.lib.ObjKeepaliveProofs.
Local Open Scope Z_scope.

(* "Any object graph built from the supported pass-by-value types ... including graphs with shared sub-objects and
   reference cycles, arrives at the other end as a graph that is equal in value and type to the one sent and has the
   same sharing/cycle structure": for EVERY well-formed term (any nesting depth, ints of any magnitude, bool vs int,
   bytes vs text, list vs tuple vs set vs frozenset vs dict vs Copyable, back-references incl. a container inside
   itself, nested call scopes) the receiver rebuilds exactly the denoted graph: same node numbers, same kinds, same
   children, same pointers.  Guard wf_obj_wide = every reference resolves in its scope, dict / Copyable shapes, and NOT the
   known-defective region (a Copyable attribute value / dict key that refers to a tuple, frozenset or Copyable still being
   built: C01_refuted_* below).  Cycles through nested tuples (l = []; t = (l,); l.append((t,))) are inside the guard.
   `slice` acts on canonical terms; that it is what the real slicer stack emits is the theorem C01_sender_machine below. *)
Theorem C01_slice_unslice : forall scoped n t, wf_obj_wide scoped n t = true ->
  unslice scoped n (slice n t) = Some (heap_of n t, [val_of n t]).
Proof. exact slice_unslice_wide. Qed.
Print Assumptions C01_slice_unslice.

(* the same for a sequence of top-level objects (successive calls/answers; several objects on one storage Banana) *)
Theorem C01_slice_unslice_list : forall scoped n ts v, wf_list_wide scoped [] [] n ts = Some v ->
  unslice scoped n (slice_list n ts) = Some (heap_list n ts, vals_list n ts).
Proof. exact slice_unslice_list_wide. Qed.
Print Assumptions C01_slice_unslice_list.

(* the general form: in ANY admissible receiver state (any stack of open unslicers, any tables) the tokens of t are
   consumed exactly and leave `adv st ..` *)
Theorem C01_run_slice : forall t n sc vis imm vis' st, wf_wide sc vis imm n t = Some vis' -> okst sc vis imm n st ->
  run (slice n t) st = Some (adv st [val_of n t] (regs_of n t) (heap_of n t) (opens t)).
Proof. exact run_slice_wide. Qed.
Print Assumptions C01_run_slice.

(* THE SENDER AS A MACHINE (lib/SendHeap.v).  A Python-like heap: object id -> kind + children (atoms or object ids: arbitrary
   sharing and cycles); `send_heap` = Banana.produce over the slicer stack: the top slicer's iterator, sendToken for
   SIMPLE_TOKENS, slicerForObject climbing the parents through every ScopedSlicer's references table
   (gen_scoped_lookup / gen_scoped_register: translated from ScopedSlicer.slicerForObject / registerRefID), pushSlicer =
   sendOpen + registerRefID in the nearest scope for trackReferences kinds, popSlicer = CLOSE and the scope's table dies;
   `canon_of` = the canonical term by recursive descent.  For EVERY heap and queue of top-level objects whose descent
   terminates, the machine emits exactly `slice_list` of the canonical terms (and nothing else, whatever the fuel). *)
Theorem C01_sender_machine : forall h scoped n q fuel os,
  canon_of fuel h scoped n q = Some os -> exists fuel', send_heap fuel' h scoped n q = Some (slice_list n os).
Proof. exact send_heap_is_slice_canon. Qed.
Print Assumptions C01_sender_machine.
Theorem C01_sender_machine_unique : forall h scoped n q fuel fuel' toks os,
  send_heap fuel h scoped n q = Some toks -> canon_of fuel' h scoped n q = Some os -> toks = slice_list n os.
Proof. exact send_heap_unique. Qed.
Print Assumptions C01_sender_machine_unique.

(* "equal in value and type ... same sharing/cycle structure" as graph isomorphism = equality of canonical terms: the
   read-back of the graph a term denotes is the term *)
Theorem C01_canon_inverts : forall scoped n t, wf_obj_wide scoped n t = true ->
  canon (size t) (heap_of n t) n (val_of n t) = Some (t, n + opens t).
Proof. exact canon_inverts. Qed.
Print Assumptions C01_canon_inverts.

(* END TO END OVER HEAPS: for every heap, queue, vocabulary table (distinct indices) and packetisation, what the sender
   machine emits is rebuilt by the receiver into a graph with the sender's canonical terms (iso_to_sender).  Side
   conditions: the descent terminates, the canonical terms pass the guard (shapes; not the known-defective region), the
   tokens fit the wire format. *)
Theorem C01_heap_end_to_end : forall h scoped n q fuel os v fuel' toks tbl bs cs,
  canon_of fuel h scoped n q = Some os -> wf_list_wide scoped [] [] n os = Some v ->
  send_heap fuel' h scoped n q = Some toks ->
  NoDup (map snd tbl) -> forallb wf_token (envocab tbl toks) = true -> encode_stream (envocab tbl toks) = Ok bs ->
  List.concat cs = bs ->
  exists toks' rh rv, devocab tbl (tokens_of_chunks cs) = Some toks' /\ unslice scoped n toks' = Some (rh, rv) /\
                      iso_to_sender os n rh rv.
Proof. exact heap_end_to_end. Qed.
Print Assumptions C01_heap_end_to_end.
Theorem C01_heap_end_to_end_deferred_partial : forall h scoped n q fuel os v fuel' toks tbl bs cs toks' r,
  canon_of fuel h scoped n q = Some os -> wf_list_wide scoped [] [] n os = Some v ->
  send_heap fuel' h scoped n q = Some toks ->
  NoDup (map snd tbl) -> forallb wf_token (envocab tbl toks) = true -> encode_stream (envocab tbl toks) = Ok bs ->
  List.concat cs = bs ->
  devocab tbl (tokens_of_chunks cs) = Some toks' -> dunslice scoped n toks' = Some r ->
  iso_to_sender os n (fst r) (snd r).
Proof. exact heap_end_to_end_deferred. Qed.
Print Assumptions C01_heap_end_to_end_deferred_partial.

(* Deferred completion ("including graphs with ... reference cycles", through immutable containers).  The theorems above
   are about the pointer machine: a reference to a container still being built is a pointer to its node.  The code cannot
   do that for tuples / frozensets / Copyables: it hands out Deferreds, stores placeholders, registers update callbacks and
   completes in cascades, which lib/ObjDefer.v models (`drun`, `dunslice`).
   (a) for EVERY token stream and EVERY state the Deferred-level receiver refines the pointer machine: forget which
       values are placeholders / Deferreds and each of its steps -- firing a Deferred with any depth of cascade
       included -- is a step of the pointer machine; *)
Theorem C01_deferred_refines : forall ts st st', drun ts st = Some st' -> run0 ts (erase_state st) = Some (erase_state st').
Proof. exact drun_sim. Qed.
Print Assumptions C01_deferred_refines.
Theorem C01_deferred_firing_is_invisible : forall fuel k st st', complete fuel k st = Some st' -> erase_state st' = erase_state st.
Proof. exact complete_erase. Qed.
Print Assumptions C01_deferred_firing_is_invisible.
(* (b) hence for every graph a sender can emit (the same guard as above; it contains the strict guard wf_obj of earlier rounds):
       whatever the Deferred-level receiver delivers -- nothing pending, no placeholder left -- is exactly the denoted
       graph.  FULL statement wanted: wf_obj_wide scoped n t = true -> dunslice scoped n (slice n t) = Some (heap_of n t, [val_of n t]).
       Proved: the `_partial` form below (partial correctness).  Missing: progress (no refusal, nothing left pending);
       it does NOT follow from the guard -- C01_deferred_progress_refuted -- because the guard admits terms in which two
       tuples directly hold each other, which no Python object graph has; progress is evaluated per case by vm_compute and
       compared with the implementation (harness, bit 16 of the correspondence code). *)
Theorem C01_deferred_sound_partial : forall scoped n t r, wf_obj_wide scoped n t = true ->
  dunslice scoped n (slice n t) = Some r -> r = (heap_of n t, [val_of n t]).
Proof. exact deferred_sound. Qed.
Print Assumptions C01_deferred_sound_partial.
Theorem C01_deferred_sound_list_partial : forall scoped n ts v r, wf_list_wide scoped [] [] n ts = Some v ->
  dunslice scoped n (slice_list n ts) = Some r -> r = (heap_list n ts, vals_list n ts).
Proof. exact deferred_sound_list. Qed.
Print Assumptions C01_deferred_sound_list_partial.
Theorem C01_wide_guard_contains_strict : forall scoped n t, wf_obj scoped n t = true -> wf_obj_wide scoped n t = true.
Proof. exact wf_obj_wide_of_strict. Qed.
Print Assumptions C01_wide_guard_contains_strict.
Theorem C01_deferred_progress_refuted : wf_obj_wide true 0 wait_cycle = true /\ dunslice true 0 (slice 0 wait_cycle) = None.
Proof. exact progress_needs_more_than_the_guard. Qed.
Print Assumptions C01_deferred_progress_refuted.
(* non-vacuity of (b): A = (L,), B = (A,), L = [B] is outside the strict guard, inside the wide one, and delivered *)
Theorem C01_deferred_example : wf_obj true 0 abl = false /\ wf_obj_wide true 0 abl = true /\
  dunslice true 0 (slice 0 abl) = Some (heap_of 0 abl, [val_of 0 abl]).
Proof. exact ex_abl. Qed.
Print Assumptions C01_deferred_example.

(* "integers of any magnitude ... no matter how the byte stream is split": down to bytes and back, through the
   lead's stream_roundtrip (chunk-independence of the byte-level receiver is C07) *)
Theorem C01_bytes_roundtrip : forall scoped n t bs, wf_obj_wide scoped n t = true -> forallb wf_token (slice n t) = true ->
  encode_stream (slice n t) = Ok bs ->
  exists toks, decode bs = (toks, EndClean) /\ unslice scoped n toks = Some (heap_of n t, [val_of n t]).
Proof. exact bytes_roundtrip_wide. Qed.
Print Assumptions C01_bytes_roundtrip.

(* END TO END, "no matter how the byte stream is split into packets": composition with C07.  `tokens_of_chunks cs` is what
   C07's byte-level receiver (lib/Recv.v: buffering, 64-byte header cap, re-queueing of incomplete tokens; its chunk
   independence is C07's theorem, reused) hands upward when the bytes arrive as the packets cs.  For EVERY packetisation of
   the sender's bytes the delivered graph is the sent graph. *)
Theorem C01_end_to_end_any_chunking : forall scoped n t bs cs,
  wf_obj_wide scoped n t = true -> forallb wf_token (slice n t) = true -> encode_stream (slice n t) = Ok bs -> List.concat cs = bs ->
  unslice scoped n (tokens_of_chunks cs) = Some (heap_of n t, [val_of n t]).
Proof. exact end_to_end_any_chunking. Qed.
Print Assumptions C01_end_to_end_any_chunking.
(* the same through the Deferred-level receiver, wide guard (partial correctness as C01_deferred_sound_partial) *)
Theorem C01_end_to_end_any_chunking_deferred_partial : forall scoped n t bs cs r,
  wf_obj_wide scoped n t = true -> forallb wf_token (slice n t) = true -> encode_stream (slice n t) = Ok bs -> List.concat cs = bs ->
  dunslice scoped n (tokens_of_chunks cs) = Some r -> r = (heap_of n t, [val_of n t]).
Proof. exact end_to_end_any_chunking_deferred. Qed.
Print Assumptions C01_end_to_end_any_chunking_deferred_partial.
(* the incremental receiver reads exactly what the whole-string scanner reads, for every clean stream and every packetisation *)
Theorem C01_chunks_decode : forall cs ts, decode (List.concat cs) = (ts, EndClean) -> forallb no_err ts = true -> tokens_of_chunks cs = ts.
Proof. exact chunks_decode. Qed.
Print Assumptions C01_chunks_decode.

(* "no matter how the byte stream is split into packets" ON A CONNECTION WITH KEEPALIVES: PING / PONG tokens (written by
   keepaliveTimerFired and by the peer's handleData into the same byte stream) are not part of any object.  (a) In EVERY state
   of the receiver -- any stack of open unslicers, index phase of an OPEN sequence or not -- a stream and the same stream
   without its keepalive tokens end in the same state, on the pointer machine and on the Deferred-level machine; *)
Theorem C01_keepalive_invisible : forall ts st, run ts st = run (strip_ka ts) st.
Proof. exact run_strip_ka. Qed.
Print Assumptions C01_keepalive_invisible.
Theorem C01_keepalive_invisible_deferred : forall ts st, drun ts st = drun (strip_ka ts) st.
Proof. exact drun_strip_ka. Qed.
Print Assumptions C01_keepalive_invisible_deferred.
(* (b) end to end: w is ANY wire stream whose other tokens are the sender's tokens of t (keepalive tokens of either kind, with any
   numbers, at any token boundaries, any number of them); however the bytes of w are split into packets -- keepalive token alone,
   glued to the bytes behind it, byte by byte -- the delivered graph is the graph that was sent; *)
Theorem C01_keepalive_end_to_end : forall scoped n t w bs cs,
  wf_obj_wide scoped n t = true -> strip_ka w = slice n t -> forallb wf_token w = true -> encode_stream w = Ok bs ->
  List.concat cs = bs ->
  unslice scoped n (tokens_of_chunks cs) = Some (heap_of n t, [val_of n t]).
Proof. exact keepalive_end_to_end. Qed.
Print Assumptions C01_keepalive_end_to_end.
Theorem C01_keepalive_end_to_end_deferred_partial : forall scoped n t w bs cs r,
  wf_obj_wide scoped n t = true -> strip_ka w = slice n t -> forallb wf_token w = true -> encode_stream w = Ok bs ->
  List.concat cs = bs ->
  dunslice scoped n (tokens_of_chunks cs) = Some r -> r = (heap_of n t, [val_of n t]).
Proof. exact keepalive_end_to_end_deferred. Qed.
Print Assumptions C01_keepalive_end_to_end_deferred_partial.
(* (the hypothesis `strip_ka w = slice n t` is met by every weaving of keepalive groups into the sender's tokens) *)
Theorem C01_keepalive_weave : forall ts kas, all_ka kas = true -> forallb (fun t => negb (is_ka t)) ts = true ->
  strip_ka (weave kas ts) = ts.
Proof. exact strip_weave. Qed.
Print Assumptions C01_keepalive_weave.
(* (c) several objects / calls on one connection, and a rejected message that is being discarded: keepalive tokens move neither the
   discard depth nor the object counter, so the numbering of later references stays in step *)
Theorem C01_keepalive_list : forall scoped n ts v w, wf_list_wide scoped [] [] n ts = Some v -> strip_ka w = slice_list n ts ->
  unslice scoped n w = Some (heap_list n ts, vals_list n ts).
Proof. exact keepalive_list. Qed.
Print Assumptions C01_keepalive_list.
Theorem C01_keepalive_discard : forall ts d cnt,
  discard (strip_ka ts) d cnt = let '(d', cnt', rest) := discard ts d cnt in (d', cnt', strip_ka rest).
Proof. exact discard_strip_ka. Qed.
Print Assumptions C01_keepalive_discard.

(* "... or what vocabulary-compression table is in force" *)
Theorem C01_vocab_transparent : forall tbl ts, NoDup (map snd tbl) -> forallb no_vocab ts = true ->
  devocab tbl (envocab tbl ts) = Some ts.
Proof. exact vocab_transparent. Qed.
Print Assumptions C01_vocab_transparent.

(* "... and all points at which the table is replaced": the in-band switch.  The sender's queue is ANY interleaving of object
   tokens and table replacements (Banana.setOutgoingVocabulary: OPEN set-vocab (index string)* CLOSE sent unabbreviated, new
   table in force right after it); the receiver expands VOCAB tokens with the table in force and replaces its table at the
   same stream position: the object layer sees exactly the sender's plain tokens.  Hypotheses: indices of every table
   distinct (dict(zip(words, range))), object tokens are not VOCAB tokens, no object sequence is itself OPEN "set-vocab". *)
Theorem C01_vocab_switch_in_band : forall items cur fuel,
  NoDup (map snd cur) -> tables_nodup items -> items_ok items = true ->
  (List.length (sender_wire cur items) <= fuel)%nat ->
  receiver_view fuel cur (sender_wire cur items) = Some (plain_tokens items).
Proof. exact vocab_switch_in_band. Qed.
Print Assumptions C01_vocab_switch_in_band.

Theorem C01_roundtrip_any_vocab : forall scoped n t tbl, wf_obj_wide scoped n t = true -> NoDup (map snd tbl) ->
  exists toks, devocab tbl (envocab tbl (slice n t)) = Some toks /\ unslice scoped n toks = Some (heap_of n t, [val_of n t]).
Proof. exact roundtrip_any_vocab_wide. Qed.
Print Assumptions C01_roundtrip_any_vocab.

(* "Sharing is preserved within one call and never leaks between two calls": (guard) a scoped sequence admitted by the guard
   where nothing outside is visible refers only to objects opened inside itself, and leaves nothing visible behind.  This is a
   statement about which TERMS the guard admits; the statement about the slicer machine itself is C01_machine_scope_is_local; *)
Theorem C01_scope_refs_are_local : forall nm xs imm n vis',
  wf_wide false [] imm n (OCont (CScope nm) xs) = Some vis' -> refs_ge_list (n + 1) xs = true /\ vis' = [].
Proof. exact (scope_refs_are_local false). Qed.
Print Assumptions C01_scope_refs_are_local.

(* (sender MACHINE) a call / arguments / answer scope pushed when no enclosing slicer has a table (a Broker): the machine
   serializes it with a table of its own that starts empty and is dropped at its CLOSE (ss_scopes is [] again), and every
   reference emitted inside points at an object opened inside this very scope *)
Theorem C01_machine_scope_is_local : forall h fuel oid nd n t n' scs',
  sfind oid h = Some nd -> is_scope (sn_kind nd) = true ->
  bcanon fuel h [] n (SObj oid) = Some (t, n', scs') ->
  scs' = [] /\ refs_ge (n + 1) t = true /\
  forall o rest sc r out, exists k,
    ssteps k h (mkst (fr o (SObj oid :: rest) sc :: r) [] n out) = Some (mkst (fr o rest sc :: r) [] n' (out ++ slice n t)).
Proof. exact machine_scope_is_local. Qed.
Print Assumptions C01_machine_scope_is_local.

(* (receiver) after a call has been closed, a reference in the next call to ANY number outside that call is refused *)
Theorem C01_scope_isolation_receiver : forall nm1 xs1 nm2 n k v,
  wf_list_wide false [] [] n [OCont (CScope nm1) xs1] = Some v -> shape_ok (CScope nm2) [] = true ->
  unslice false n (slice_list n [OCont (CScope nm1) xs1; OCont (CScope nm2) [ORef k]]) = None.
Proof. exact (scope_isolation_receiver false). Qed.
Print Assumptions C01_scope_isolation_receiver.

(* a connection that carried a message the receiver rejected part-way (schema Violation: the rest of the rejected
   sequence is discarded) still numbers its objects like the sender: whatever lies in the discarded part, the receiver's
   counter advances by exactly the OPENs the sender spent on it, so the references of every later message resolve *)
Theorem C01_discard_slice : forall t n d cnt rest, 0 < d ->
  discard (slice n t ++ rest) d cnt = discard rest d (cnt + opens t).
Proof. exact discard_slice. Qed.
Print Assumptions C01_discard_slice.
Theorem C01_discard_rest_of_rejected : forall xs n k cnt rest,
  discard (slice_list n xs ++ TClose k :: rest) 1 cnt = (0, cnt + opens_list xs, rest).
Proof. exact discard_rest_of_rejected. Qed.
Print Assumptions C01_discard_rest_of_rejected.

(* Full statement without the guard's last two clauses is FALSE on the faithful model and on the code (known findings):
   a tuple that contains a Copyable whose attribute (or whose dict's key) is that tuple is sent, but cannot be received. *)
Theorem C01_refuted_copy_attr : unslice true 0 (slice 0 witness_copy_attr) = None.
Proof. exact (proj1 refuted_copy_attr). Qed.
Print Assumptions C01_refuted_copy_attr.
Theorem C01_refuted_dict_key : unslice true 0 (slice 0 witness_dict_key) = None.
Proof. exact (proj1 refuted_dict_key). Qed.
Print Assumptions C01_refuted_dict_key.
(* ... and the Deferred-level receiver refuses them at the point where the code raises (receiveChild given a Deferred) *)
Theorem C01_refuted_copy_attr_deferred : doutcome true 0 (slice 0 witness_copy_attr) = 1.
Proof. exact refuted_copy_attr_deferred. Qed.
Print Assumptions C01_refuted_copy_attr_deferred.
Theorem C01_refuted_dict_key_deferred : doutcome true 0 (slice 0 witness_dict_key) = 1.
Proof. exact refuted_dict_key_deferred. Qed.
Print Assumptions C01_refuted_dict_key_deferred.
