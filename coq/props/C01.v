(* C01 -- Serialization round-trip preserves value, type and sharing topology.
   Object layer (Obj.v) on top of the token layer (Token.v, lead) on top of the translated codecs (gen/BananaGen.v);
   opentype strings / trackReferences / setObject flags from gen/SlicersGen.v.
   A graph is given by its emission-order canonical term t; `heap_of n t`, `val_of n t` is the graph the term denotes
   (node k = the container whose OPEN carried number k, `ORef k` = a pointer to node k: sharing and cycles);
   `slice n t` is what the sender emits, `unslice` is the receiver's stack machine. *)
From Coq Require Import ZArith List String Bool Lia.
Import ListNotations.
Require Import Verif.lib.PyLite Verif.gen.BananaGen Verif.gen.SlicersGen Verif.lib.Token Verif.lib.TokenProofs
        Verif.lib.Obj Verif.lib.ObjProofs Verif.lib.ObjDefer Verif.lib.ObjDeferProofs
        Verif.lib.ObjChunks Verif.lib.ObjVocab Verif.lib.ObjVocabRun Verif.lib.ObjCanon Verif.lib.SendHeap Verif.lib.SendHeapProofs Verif.lib.SendHeapSharing Verif.lib.SendHeapE2E
        Verif.lib.ObjKeepalive Verif.lib.ObjKeepaliveProofs Verif.lib.ObjGuard Verif.lib.ObjGuardProofs.
Local Open Scope Z_scope.

(* "Any object graph built from the supported pass-by-value types ... including graphs with shared sub-objects and
   reference cycles, arrives at the other end as a graph that is equal in value and type to the one sent and has the
   same sharing/cycle structure": for EVERY term inside the guard (any nesting depth, ints of any magnitude, bool vs int,
   bytes vs text, list vs tuple vs set vs frozenset vs dict vs Copyable, back-references incl. a container inside
   itself, nested call scopes) the receiver rebuilds exactly the denoted graph: same node numbers, same kinds, same
   children, same pointers.
   GUARD (review-2 repair; lib/ObjGuard.v): wf_obj_t = wf_obj_wide (every reference resolves in its scope, dict / Copyable shapes)
   AND dsafe: walking the term the way the unslicers do, NO value that is a Deferred reaches a Copyable attribute / a dict key /
   the root / a call scope, and nothing is left pending at the end.  A value is a Deferred when it is a reference to a tuple /
   frozenset / Copyable that has not completed (still open, or closed and pending) or an inline tuple / frozenset that closes with
   a placeholder left -- TRANSITIVELY.  The guard of earlier rounds (wf_obj_wide alone) saw only a DIRECT reference to an
   ancestor and admitted Python graphs the code refuses (c = C(); T = (c,); c.x = (T,)): C01_old_guard_refuted below.  The
   excluded region is the known-finding region incomplete-tuple-into-copyable / -as-dict-key plus terms no Python graph has
   (immutables that wait for each other).  Cycles through nested tuples (l = []; t = (l,); l.append((t,))) are inside the guard.
   WEAKER THAN WANTED, stated openly: `unslice` is the POINTER machine (a reference to a container still being built is a pointer);
   outside the guard it is laxer than the code.  That the Deferred-level receiver `dunslice` (which refuses where the code refuses)
   delivers on every term of the guard is proved only in the bounded-exhaustive form C01_guard_exact_on_small_terms and
   evaluated per generated case; see (b) below.
   `slice` acts on canonical terms; that it is what the real slicer stack emits is the theorem C01_sender_machine below. *)
Theorem C01_slice_unslice : forall scoped n t, wf_obj_t scoped n t = true ->
  unslice scoped n (slice n t) = Some (heap_of n t, [val_of n t]).
Proof. exact slice_unslice_t. Qed.
Print Assumptions C01_slice_unslice.

(* the same for a sequence of top-level objects (successive calls/answers; several objects on one storage Banana) *)
Theorem C01_slice_unslice_list : forall scoped n ts, wf_list_t scoped n ts = true ->
  unslice scoped n (slice_list n ts) = Some (heap_list n ts, vals_list n ts).
Proof. exact slice_unslice_list_t. Qed.
Print Assumptions C01_slice_unslice_list.

(* the general form: in ANY admissible receiver state (any stack of open unslicers whose open immutables are among imm, any
   tables, no closed immutable pending) the tokens of t are consumed exactly and leave `adv st ..` *)
Theorem C01_run_slice : forall t n sc vis imm vis' w st, wf_wide sc vis imm n t = Some vis' -> dsim imm [] n t = Some (w, None) ->
  okst sc vis imm n st ->
  run (slice n t) st = Some (adv st [val_of n t] (regs_of n t) (heap_of n t) (opens t)).
Proof. exact run_slice_t. Qed.
Print Assumptions C01_run_slice.

(* THE GUARD OF EARLIER ROUNDS IS REFUTED (review 2): g1 (c = C(); T = (c,); c.x = (T,)), g4 (L = []; A = (L,); B = (A,); c.x = B;
   L.extend([B, c])) and g_key (c.d = {(T,): 1}) are Python object graphs; wf_obj_wide admits them, the pointer machine delivers
   them, the Deferred-level receiver refuses them (outcome 1) exactly where the code raises (replayed: AssertionError in
   RemoteCopyUnslicer.receiveChild / BananaError 'incomplete object as dictionary key'; harness witnesses
   tuple-copyable-inline-tuple / list-pending-tuple-copyable / tuple-copyable-dictkey-inline); the transitive guard excludes them. *)
Theorem C01_old_guard_refuted :
  (wf_obj_wide true 0 g1 = true /\ unslice true 0 (slice 0 g1) = Some (heap_of 0 g1, [val_of 0 g1]) /\
   doutcome true 0 (slice 0 g1) = 1 /\ wf_obj_t true 0 g1 = false) /\
  (wf_obj_wide true 0 g4 = true /\ unslice true 0 (slice 0 g4) = Some (heap_of 0 g4, [val_of 0 g4]) /\
   doutcome true 0 (slice 0 g4) = 1 /\ wf_obj_t true 0 g4 = false) /\
  (wf_obj_wide true 0 g_key = true /\ unslice true 0 (slice 0 g_key) = Some (heap_of 0 g_key, [val_of 0 g_key]) /\
   doutcome true 0 (slice 0 g_key) = 1 /\ wf_obj_t true 0 g_key = false).
Proof. exact old_guard_refuted. Qed.
Print Assumptions C01_old_guard_refuted.
(* inside the guard (non-vacuity): deferred completion through nested tuples, a reference to a closed pending tuple, two
   callbacks on one Deferred, frozensets in a cycle through a Copyable (held by a LIST attribute), two calls on a Broker *)
Theorem C01_guard_examples :
  (wf_obj_t true 0 abl = true /\ dunslice true 0 (slice 0 abl) = Some (heap_of 0 abl, [val_of 0 abl])) /\
  (wf_obj_t true 0 amkj = true /\ dunslice true 0 (slice 0 amkj) = Some (heap_of 0 amkj, [val_of 0 amkj])) /\
  (wf_obj_t true 0 tdl = true /\ dunslice true 0 (slice 0 tdl) = Some (heap_of 0 tdl, [val_of 0 tdl])) /\
  (wf_obj_t true 0 frozen_late = true /\ dunslice true 0 (slice 0 frozen_late) = Some (heap_of 0 frozen_late, [val_of 0 frozen_late])) /\
  wf_list_t false 0 [OCont (CScope [99; 97; 108; 108]) [OInt 1; OList [ORef 1]]; OCont (CScope [99; 97; 108; 108]) [OInt 2; OTuple [OList [ORef 5]]]] = true.
Proof. exact ex_inside_guard. Qed.
Print Assumptions C01_guard_examples.
(* the guard is EXACT with respect to the Deferred-level receiver on every term of a small grammar (21840 terms: list / tuple /
   frozenset / dict / Copyable with one or two children, references to any of the first four OPEN numbers, depth <= 3): on every
   term the old guard admits, the new guard holds IFF the Deferred-level receiver delivers, and then it delivers the denoted
   graph.  Bounded-exhaustive (vm_compute), not the general progress theorem. *)
Theorem C01_guard_exact_on_small_terms :
  forallb agree small_family = true /\
  (2000 <= Z.of_nat (List.length (filter (wf_obj_wide true 0) small_family))) /\
  (100 <= Z.of_nat (List.length (filter (fun t => wf_obj_wide true 0 t && negb (wf_obj_t true 0 t)) small_family))).
Proof. exact guard_exact_on_small_terms. Qed.
Print Assumptions C01_guard_exact_on_small_terms.

(* THE SENDER AS A MACHINE (lib/SendHeap.v).  A Python-like heap: object id -> kind + children (atoms or object ids: arbitrary
   sharing and cycles); `send_heap` = Banana.produce over the slicer stack: the top slicer's iterator, sendToken for
   SIMPLE_TOKENS, slicerForObject climbing the parents through every ScopedSlicer's references table
   (gen_scoped_lookup / gen_scoped_register: translated from ScopedSlicer.slicerForObject / registerRefID), pushSlicer =
   sendOpen + registerRefID in the nearest scope for trackReferences kinds, popSlicer = CLOSE and the scope's table dies;
   `canon_of` = the canonical term by recursive descent.  For EVERY heap and queue of top-level objects whose descent
   terminates, the machine emits exactly `slice_list` of the canonical terms (and nothing else, whatever the fuel). *)
Theorem C01_sender_machine : forall h scoped n q fuel os,
  canon_of fuel h scoped n q = Some os -> exists fuel', send_heap fuel' h scoped n q = Some (slice_list n os).
Proof. exact send_heap_is_slice_canon. Qed.
Print Assumptions C01_sender_machine.
Theorem C01_sender_machine_unique : forall h scoped n q fuel fuel' toks os,
  send_heap fuel h scoped n q = Some toks -> canon_of fuel' h scoped n q = Some os -> toks = slice_list n os.
Proof. exact send_heap_unique. Qed.
Print Assumptions C01_sender_machine_unique.
(* SHARING RELATIVE TO THE PYTHON HEAP (review 2: the two theorems above compare the machine with a descent that uses the same
   tables, so a registerRefID that forgets passed them).  (i) The first encounter of a heap object in a scope emits a container of
   the object's kind with one child term per item, the canonical terms of its items in order; (ii) a tracked object sliced
   while some scope is on the stack is recorded under ITS OWN OPEN number; (iii) whatever is sliced afterwards (any value v, any
   fuel), every later encounter of that object in the scope is `reference` to that very number: the same heap object is never
   sliced twice in one scope.  (By C01_sender_machine_unique the machine's tokens are the tokens of these terms.)
   Left open: that two DIFFERENT heap objects never receive the same number (true because the OPEN counter only increases;
   not stated as a theorem) and the receiver-side composition "sender heap ~ receiver graph" as one isomorphism statement. *)
Theorem C01_sender_first_encounter_is_the_object : forall h fu scs n oid nd t n' scs',
  scopes_lookup scs oid = None -> sfind oid h = Some nd ->
  bcanon (S fu) h scs n (SObj oid) = Some (t, n', scs') ->
  exists os scs3,
    t = OCont (sn_kind nd) os /\
    bcanon_list fu h (let scs1 := if tracked (sn_kind nd) then scopes_register scs oid n else scs in
                      if is_scope (sn_kind nd) then [] :: scs1 else scs1) (n + 1) (sn_items nd) = Some (os, n', scs3) /\
    List.length os = List.length (sn_items nd).
Proof. exact first_encounter_is_the_object. Qed.
Print Assumptions C01_sender_first_encounter_is_the_object.
Theorem C01_sender_sliced_object_is_registered : forall h fuel scs n oid nd t n' scs',
  scs <> [] -> sfind oid h = Some nd -> tracked (sn_kind nd) = true ->
  bcanon fuel h scs n (SObj oid) = Some (t, n', scs') ->
  exists k, scopes_lookup scs' oid = Some k /\ (scopes_lookup scs oid = None -> k = n).
Proof. exact sliced_object_is_registered. Qed.
Print Assumptions C01_sender_sliced_object_is_registered.
Theorem C01_sender_same_object_never_sliced_twice : forall h f1 scs n oid nd t n1 scs1,
  scs <> [] -> sfind oid h = Some nd -> tracked (sn_kind nd) = true ->
  bcanon f1 h scs n (SObj oid) = Some (t, n1, scs1) ->
  forall f2 v m t2 m2 scs2, bcanon f2 h scs1 m v = Some (t2, m2, scs2) ->
  forall f3 m3, exists k, bcanon (S f3) h scs2 m3 (SObj oid) = Some (ORef k, m3 + 1, scs2) /\ (scopes_lookup scs oid = None -> k = n).
Proof. exact same_object_never_sliced_twice. Qed.
Print Assumptions C01_sender_same_object_never_sliced_twice.
(* non-vacuity / the mutant's witness: s = [1]; [s, s] through a storage Banana is [[1], reference 0], on the descent and on the machine *)
Theorem C01_sender_shared_twice_example :
  let h := [(7, {| sn_kind := CList; sn_items := [SInt 1] |})] in
  canon_of 5 h true 0 [SObj 7; SObj 7] = Some [OList [OInt 1]; ORef 0] /\
  send_heap 50 h true 0 [SObj 7; SObj 7] = Some (slice_list 0 [OList [OInt 1]; ORef 0]).
Proof. exact ex_shared_twice. Qed.
Print Assumptions C01_sender_shared_twice_example.

(* "equal in value and type ... same sharing/cycle structure" as graph isomorphism = equality of canonical terms: the
   read-back of the graph a term denotes is the term *)
Theorem C01_canon_inverts : forall scoped n t, wf_obj_wide scoped n t = true ->
  canon (size t) (heap_of n t) n (val_of n t) = Some (t, n + opens t).
Proof. exact canon_inverts. Qed.
Print Assumptions C01_canon_inverts.

(* END TO END OVER HEAPS: for every heap, queue, vocabulary table (distinct indices) and packetisation, what the sender
   machine emits is rebuilt by the receiver into a graph with the sender's canonical terms (iso_to_sender).  Side
   conditions: the descent terminates, the canonical terms pass the guard wf_list_t (shapes; no Deferred into a Copyable attribute / dict key, transitively), the
   tokens fit the wire format. *)
Theorem C01_heap_end_to_end : forall h scoped n q fuel os fuel' toks tbl bs cs,
  canon_of fuel h scoped n q = Some os -> wf_list_t scoped n os = true ->
  send_heap fuel' h scoped n q = Some toks ->
  NoDup (map snd tbl) -> forallb wf_token (envocab tbl toks) = true -> encode_stream (envocab tbl toks) = Ok bs ->
  List.concat cs = bs ->
  exists toks' rh rv, devocab tbl (tokens_of_chunks cs) = Some toks' /\ unslice scoped n toks' = Some (rh, rv) /\
                      iso_to_sender os n rh rv.
Proof. exact heap_end_to_end_t. Qed.
Print Assumptions C01_heap_end_to_end.
(* (partial correctness through the Deferred-level receiver: stated under the WIDER guard wf_list_wide, which makes it the
   stronger statement: whatever is delivered, inside or outside wf_list_t, is the sender's graph) *)
Theorem C01_heap_end_to_end_deferred_partial : forall h scoped n q fuel os v fuel' toks tbl bs cs toks' r,
  canon_of fuel h scoped n q = Some os -> wf_list_wide scoped [] [] n os = Some v ->
  send_heap fuel' h scoped n q = Some toks ->
  NoDup (map snd tbl) -> forallb wf_token (envocab tbl toks) = true -> encode_stream (envocab tbl toks) = Ok bs ->
  List.concat cs = bs ->
  devocab tbl (tokens_of_chunks cs) = Some toks' -> dunslice scoped n toks' = Some r ->
  iso_to_sender os n (fst r) (snd r).
Proof. exact heap_end_to_end_deferred. Qed.
Print Assumptions C01_heap_end_to_end_deferred_partial.

(* Deferred completion ("including graphs with ... reference cycles", through immutable containers).  The theorems above
   are about the pointer machine: a reference to a container still being built is a pointer to its node.  The code cannot
   do that for tuples / frozensets / Copyables: it hands out Deferreds, stores placeholders, registers update callbacks and
   completes in cascades, which lib/ObjDefer.v models (`drun`, `dunslice`).
   (a) for EVERY token stream and EVERY state the Deferred-level receiver refines the pointer machine: forget which
       values are placeholders / Deferreds and each of its steps -- firing a Deferred with any depth of cascade
       included -- is a step of the pointer machine; *)
Theorem C01_deferred_refines : forall ts st st', drun ts st = Some st' -> run0 ts (erase_state st) = Some (erase_state st').
Proof. exact drun_sim. Qed.
Print Assumptions C01_deferred_refines.
Theorem C01_deferred_firing_is_invisible : forall fuel k st st', complete fuel k st = Some st' -> erase_state st' = erase_state st.
Proof. exact complete_erase. Qed.
Print Assumptions C01_deferred_firing_is_invisible.
(* (b) hence for every graph a sender can emit: whatever the Deferred-level receiver delivers -- nothing pending, no placeholder
       left -- is exactly the denoted graph (the `_partial` theorems below; they hold under the wider old guard wf_obj_wide, which
       is the stronger statement).
       FULL statement wanted: wf_obj_t scoped n t = true -> dunslice scoped n (slice n t) = Some (heap_of n t, [val_of n t]).
       MISSING: progress in general (no refusal, nothing left pending) = a simulation between ObjGuard.dsim (who waits for whom) and
       ObjDefer.dstep (placeholders, callback lists, counters, `complete` cascades with its fuel).  What exists instead:
       C01_guard_exact_on_small_terms (bounded-exhaustive, both directions), the Examples in C01_guard_examples, and the per-case
       evaluation by vm_compute compared with the implementation (harness: correspondence bits 16 and 256; refused graphs must be
       outside the guard).  Under the OLD guard progress was false (C01_deferred_progress_refuted: two tuples directly holding
       each other, a term no Python graph has -- AND, found by review 2, Python graphs such as g1 / g4: C01_old_guard_refuted);
       both kinds are outside wf_obj_t (C01_wait_cycle_outside_guard). *)
Theorem C01_deferred_sound_partial : forall scoped n t r, wf_obj_wide scoped n t = true ->
  dunslice scoped n (slice n t) = Some r -> r = (heap_of n t, [val_of n t]).
Proof. exact deferred_sound. Qed.
Print Assumptions C01_deferred_sound_partial.
Theorem C01_deferred_sound_list_partial : forall scoped n ts v r, wf_list_wide scoped [] [] n ts = Some v ->
  dunslice scoped n (slice_list n ts) = Some r -> r = (heap_list n ts, vals_list n ts).
Proof. exact deferred_sound_list. Qed.
Print Assumptions C01_deferred_sound_list_partial.
Theorem C01_wide_guard_contains_strict : forall scoped n t, wf_obj scoped n t = true -> wf_obj_wide scoped n t = true.
Proof. exact wf_obj_wide_of_strict. Qed.
Print Assumptions C01_wide_guard_contains_strict.
Theorem C01_deferred_progress_refuted : wf_obj_wide true 0 wait_cycle = true /\ dunslice true 0 (slice 0 wait_cycle) = None.
Proof. exact progress_needs_more_than_the_guard. Qed.
Print Assumptions C01_deferred_progress_refuted.
Theorem C01_wait_cycle_outside_guard : wf_obj_wide true 0 wait_cycle = true /\ wf_obj_t true 0 wait_cycle = false /\
  dunslice true 0 (slice 0 wait_cycle) = None /\
  wf_obj_wide true 0 (OList [OTuple [ORef 1]]) = true /\ wf_obj_t true 0 (OList [OTuple [ORef 1]]) = false /\
  doutcome true 0 (slice 0 (OList [OTuple [ORef 1]])) = 2.
Proof. exact wait_cycle_outside. Qed.
Print Assumptions C01_wait_cycle_outside_guard.
Theorem C01_guard_contained_in_old : forall scoped n t, wf_obj_t scoped n t = true -> wf_obj_wide scoped n t = true.
Proof. exact wf_obj_t_wide. Qed.
Print Assumptions C01_guard_contained_in_old.
(* non-vacuity of (b): A = (L,), B = (A,), L = [B] is outside the strict guard, inside the wide one, and delivered *)
Theorem C01_deferred_example : wf_obj true 0 abl = false /\ wf_obj_wide true 0 abl = true /\
  dunslice true 0 (slice 0 abl) = Some (heap_of 0 abl, [val_of 0 abl]).
Proof. exact ex_abl. Qed.
Print Assumptions C01_deferred_example.

(* "integers of any magnitude ... no matter how the byte stream is split": down to bytes and back, through the
   lead's stream_roundtrip (chunk-independence of the byte-level receiver is C07) *)
Theorem C01_bytes_roundtrip : forall scoped n t bs, wf_obj_t scoped n t = true -> forallb wf_token (slice n t) = true ->
  encode_stream (slice n t) = Ok bs ->
  exists toks, decode bs = (toks, EndClean) /\ unslice scoped n toks = Some (heap_of n t, [val_of n t]).
Proof. exact bytes_roundtrip_t. Qed.
Print Assumptions C01_bytes_roundtrip.

(* END TO END, "no matter how the byte stream is split into packets": composition with C07.  `tokens_of_chunks cs` is what
   C07's byte-level receiver (lib/Recv.v: buffering, 64-byte header cap, re-queueing of incomplete tokens; its chunk
   independence is C07's theorem, reused) hands upward when the bytes arrive as the packets cs.  For EVERY packetisation of
   the sender's bytes the delivered graph is the sent graph. *)
Theorem C01_end_to_end_any_chunking : forall scoped n t bs cs,
  wf_obj_t scoped n t = true -> forallb wf_token (slice n t) = true -> encode_stream (slice n t) = Ok bs -> List.concat cs = bs ->
  unslice scoped n (tokens_of_chunks cs) = Some (heap_of n t, [val_of n t]).
Proof. exact end_to_end_any_chunking_t. Qed.
Print Assumptions C01_end_to_end_any_chunking.
(* the same through the Deferred-level receiver, under the wider old guard (partial correctness as C01_deferred_sound_partial) *)
Theorem C01_end_to_end_any_chunking_deferred_partial : forall scoped n t bs cs r,
  wf_obj_wide scoped n t = true -> forallb wf_token (slice n t) = true -> encode_stream (slice n t) = Ok bs -> List.concat cs = bs ->
  dunslice scoped n (tokens_of_chunks cs) = Some r -> r = (heap_of n t, [val_of n t]).
Proof. exact end_to_end_any_chunking_deferred. Qed.
Print Assumptions C01_end_to_end_any_chunking_deferred_partial.
(* the incremental receiver reads exactly what the whole-string scanner reads, for every clean stream and every packetisation *)
Theorem C01_chunks_decode : forall cs ts, decode (List.concat cs) = (ts, EndClean) -> forallb no_err ts = true -> tokens_of_chunks cs = ts.
Proof. exact chunks_decode. Qed.
Print Assumptions C01_chunks_decode.

(* "no matter how the byte stream is split into packets" ON A CONNECTION WITH KEEPALIVES: PING / PONG tokens (written by
   keepaliveTimerFired and by the peer's handleData into the same byte stream) are not part of any object.  (a) In EVERY state
   of the receiver -- any stack of open unslicers, index phase of an OPEN sequence or not -- a stream and the same stream
   without its keepalive tokens end in the same state, on the pointer machine and on the Deferred-level machine; *)
Theorem C01_keepalive_invisible : forall ts st, run ts st = run (strip_ka ts) st.
Proof. exact run_strip_ka. Qed.
Print Assumptions C01_keepalive_invisible.
Theorem C01_keepalive_invisible_deferred : forall ts st, drun ts st = drun (strip_ka ts) st.
Proof. exact drun_strip_ka. Qed.
Print Assumptions C01_keepalive_invisible_deferred.
(* (b) end to end: w is ANY wire stream whose other tokens are the sender's tokens of t (keepalive tokens of either kind, with any
   numbers, at any token boundaries, any number of them); however the bytes of w are split into packets -- keepalive token alone,
   glued to the bytes behind it, byte by byte -- the delivered graph is the graph that was sent; *)
Theorem C01_keepalive_end_to_end : forall scoped n t w bs cs,
  wf_obj_t scoped n t = true -> strip_ka w = slice n t -> forallb wf_token w = true -> encode_stream w = Ok bs ->
  List.concat cs = bs ->
  unslice scoped n (tokens_of_chunks cs) = Some (heap_of n t, [val_of n t]).
Proof. exact keepalive_end_to_end_t. Qed.
Print Assumptions C01_keepalive_end_to_end.
Theorem C01_keepalive_end_to_end_deferred_partial : forall scoped n t w bs cs r,
  wf_obj_wide scoped n t = true -> strip_ka w = slice n t -> forallb wf_token w = true -> encode_stream w = Ok bs ->
  List.concat cs = bs ->
  dunslice scoped n (tokens_of_chunks cs) = Some r -> r = (heap_of n t, [val_of n t]).
Proof. exact keepalive_end_to_end_deferred. Qed.
Print Assumptions C01_keepalive_end_to_end_deferred_partial.
(* (the hypothesis `strip_ka w = slice n t` is met by every weaving of keepalive groups into the sender's tokens) *)
Theorem C01_keepalive_weave : forall ts kas, all_ka kas = true -> forallb (fun t => negb (is_ka t)) ts = true ->
  strip_ka (weave kas ts) = ts.
Proof. exact strip_weave. Qed.
Print Assumptions C01_keepalive_weave.
(* (c) several objects / calls on one connection, and a rejected message that is being discarded: keepalive tokens move neither the
   discard depth nor the object counter, so the numbering of later references stays in step *)
Theorem C01_keepalive_list : forall scoped n ts w, wf_list_t scoped n ts = true -> strip_ka w = slice_list n ts ->
  unslice scoped n w = Some (heap_list n ts, vals_list n ts).
Proof. exact keepalive_list_t. Qed.
Print Assumptions C01_keepalive_list.
Theorem C01_keepalive_discard : forall ts d cnt,
  discard (strip_ka ts) d cnt = let '(d', cnt', rest) := discard ts d cnt in (d', cnt', strip_ka rest).
Proof. exact discard_strip_ka. Qed.
Print Assumptions C01_keepalive_discard.

(* "... or what vocabulary-compression table is in force" *)
Theorem C01_vocab_transparent : forall tbl ts, NoDup (map snd tbl) -> forallb no_vocab ts = true ->
  devocab tbl (envocab tbl ts) = Some ts.
Proof. exact vocab_transparent. Qed.
Print Assumptions C01_vocab_transparent.

(* "... and all points at which the table is replaced": the in-band switch.  The sender's queue is ANY interleaving of object
   tokens and table replacements (Banana.setOutgoingVocabulary: OPEN set-vocab (index string)* CLOSE sent unabbreviated, new
   table in force right after it); the receiver expands VOCAB tokens with the table in force and replaces its table at the
   same stream position: the object layer sees exactly the sender's plain tokens.  Hypotheses: indices of every table
   distinct (dict(zip(words, range))), object tokens are not VOCAB tokens, no object sequence is itself OPEN "set-vocab", and
   (review 2) every word of every table that is installed fits the RECEIVER's limit: tables_words_ok, translated from
   ReplaceVocabUnslicer.valueConstraint = ByteStringConstraint(100) (gen/SlicersGen.v vocab_word_limit).  WEAKER than the property's
   "all outgoing-vocabulary tables": outside that hypothesis the statement is false of the model and of the code
   (C01_vocab_switch_long_word_refuted; finding oracle/vocab-switch/word-longer-than-receiver-limit). *)
Theorem C01_vocab_switch_in_band : forall items cur fuel,
  NoDup (map snd cur) -> tables_nodup items -> items_ok items = true -> tables_words_ok items = true ->
  (List.length (sender_wire cur items) <= fuel)%nat ->
  receiver_view fuel cur (sender_wire cur items) = Some (plain_tokens items).
Proof. exact vocab_switch_in_band. Qed.
Print Assumptions C01_vocab_switch_in_band.
(* REFUTED without the word-length hypothesis (FINDING): table [tuple] in force, [1] sent, setOutgoingVocabulary([b"list", b"x"*101]),
   [2] sent.  The receiver raises a Violation on the 101-byte word, drops the set-vocab sequence and keeps [tuple]; the sender
   abbreviates "list" with its new table; the receiver expands the index with its old one: the list [2] arrives as the tuple (2,)
   (receiver_view_v = the receiver with that Violation handling; replayed on the code).  A 100-byte word is inside the guard. *)
Theorem C01_vocab_switch_long_word_refuted :
  let cur := [(w_tuple, 0)] in
  let items := long_word_items 101 in
  items_ok items = true /\ tables_words_ok items = false /\
  receiver_view 100 cur (sender_wire cur items) = None /\
  (exists toks, receiver_view_v 100 cur (sender_wire cur items) = Some (toks, 1) /\
     unslice true 0 toks = Some ([(0, {| n_kind := CList; n_items := [VInt 1] |}); (2, {| n_kind := CTuple; n_items := [VInt 2] |})],
                                 [VPtr 0; VPtr 2])) /\
  tables_words_ok (long_word_items 100) = true /\
  (exists toks, receiver_view 100 cur (sender_wire cur (long_word_items 100)) = Some toks /\
     unslice true 0 toks = Some ([(0, {| n_kind := CList; n_items := [VInt 1] |}); (2, {| n_kind := CList; n_items := [VInt 2] |})],
                                 [VPtr 0; VPtr 2])).
Proof. exact vocab_switch_long_word_refuted. Qed.
Print Assumptions C01_vocab_switch_long_word_refuted.

(* "objects separated by table replacements are delivered" (review 2: was only evaluated per case).  l is ANY sequence of objects and
   table replacements at top level; the object layer (Obj.step with the KVocab frame of ReplaceVocabUnslicer: INT / STRING children with
   the word limit, CLOSE hands the root nothing, the sequence takes one OPEN number) rebuilds every object, numbered as the sender
   numbered it.  Guard wf_segs = every object inside the guard of the delivery theorems in the context the earlier ones left (the
   storage root is one scope: a later object may refer to an earlier one), table words within the limit, nothing pending at the end. *)
Theorem C01_objects_between_table_switches : forall scoped n l, wf_segs scoped [] [] n l = true ->
  unslice scoped n (plain_tokens (seg_items n l)) = Some (seg_heap n l, seg_vals n l).
Proof. exact segs_unslice. Qed.
Print Assumptions C01_objects_between_table_switches.
(* ... composed with the in-band switch: sender queue -> wire (abbreviated with the table in force, tables replaced in band) ->
   receiver's expansion with ITS table in force -> object layer -> the graphs of the terms *)
Theorem C01_vocab_switch_objects_delivered : forall scoped n l cur fuel,
  NoDup (map snd cur) -> tables_nodup (seg_items n l) -> items_ok (seg_items n l) = true -> wf_segs scoped [] [] n l = true ->
  (List.length (sender_wire cur (seg_items n l)) <= fuel)%nat ->
  exists toks, receiver_view fuel cur (sender_wire cur (seg_items n l)) = Some toks /\
               unslice scoped n toks = Some (seg_heap n l, seg_vals n l).
Proof. exact vocab_switch_objects_delivered. Qed.
Print Assumptions C01_vocab_switch_objects_delivered.

Theorem C01_roundtrip_any_vocab : forall scoped n t tbl, wf_obj_t scoped n t = true -> NoDup (map snd tbl) ->
  exists toks, devocab tbl (envocab tbl (slice n t)) = Some toks /\ unslice scoped n toks = Some (heap_of n t, [val_of n t]).
Proof. exact roundtrip_any_vocab_t. Qed.
Print Assumptions C01_roundtrip_any_vocab.

(* "Sharing is preserved within one call and never leaks between two calls": (guard) a scoped sequence admitted by the guard
   where nothing outside is visible refers only to objects opened inside itself, and leaves nothing visible behind.  This is a
   statement about which TERMS the guard admits; the statement about the slicer machine itself is C01_machine_scope_is_local; *)
Theorem C01_scope_refs_are_local : forall nm xs imm n vis',
  wf_wide false [] imm n (OCont (CScope nm) xs) = Some vis' -> refs_ge_list (n + 1) xs = true /\ vis' = [].
Proof. exact (scope_refs_are_local false). Qed.
Print Assumptions C01_scope_refs_are_local.

(* (sender MACHINE) a call / arguments / answer scope pushed when no enclosing slicer has a table (a Broker): the machine
   serializes it with a table of its own that starts empty and is dropped at its CLOSE (ss_scopes is [] again), and every
   reference emitted inside points at an object opened inside this very scope *)
Theorem C01_machine_scope_is_local : forall h fuel oid nd n t n' scs',
  sfind oid h = Some nd -> is_scope (sn_kind nd) = true ->
  bcanon fuel h [] n (SObj oid) = Some (t, n', scs') ->
  scs' = [] /\ refs_ge (n + 1) t = true /\
  forall o rest sc r out, exists k,
    ssteps k h (mkst (fr o (SObj oid :: rest) sc :: r) [] n out) = Some (mkst (fr o rest sc :: r) [] n' (out ++ slice n t)).
Proof. exact machine_scope_is_local. Qed.
Print Assumptions C01_machine_scope_is_local.

(* (receiver) after a call has been closed, a reference in the next call to ANY number outside that call is refused *)
Theorem C01_scope_isolation_receiver : forall nm1 xs1 nm2 n k v,
  wf_list_wide false [] [] n [OCont (CScope nm1) xs1] = Some v -> shape_ok (CScope nm2) [] = true ->
  unslice false n (slice_list n [OCont (CScope nm1) xs1; OCont (CScope nm2) [ORef k]]) = None.
Proof. exact (scope_isolation_receiver false). Qed.
Print Assumptions C01_scope_isolation_receiver.

(* a connection that carried a message the receiver rejected part-way (schema Violation: the rest of the rejected
   sequence is discarded) still numbers its objects like the sender: whatever lies in the discarded part, the receiver's
   counter advances by exactly the OPENs the sender spent on it, so the references of every later message resolve *)
Theorem C01_discard_slice : forall t n d cnt rest, 0 < d ->
  discard (slice n t ++ rest) d cnt = discard rest d (cnt + opens t).
Proof. exact discard_slice. Qed.
Print Assumptions C01_discard_slice.
Theorem C01_discard_rest_of_rejected : forall xs n k cnt rest,
  discard (slice_list n xs ++ TClose k :: rest) 1 cnt = (0, cnt + opens_list xs, rest).
Proof. exact discard_rest_of_rejected. Qed.
Print Assumptions C01_discard_rest_of_rejected.

(* Full statement without the guard's last two clauses is FALSE on the faithful model and on the code (known findings):
   a tuple that contains a Copyable whose attribute (or whose dict's key) is that tuple is sent, but cannot be received. *)
Theorem C01_refuted_copy_attr : unslice true 0 (slice 0 witness_copy_attr) = None.
Proof. exact (proj1 refuted_copy_attr). Qed.
Print Assumptions C01_refuted_copy_attr.
Theorem C01_refuted_dict_key : unslice true 0 (slice 0 witness_dict_key) = None.
Proof. exact (proj1 refuted_dict_key). Qed.
Print Assumptions C01_refuted_dict_key.
(* ... and the Deferred-level receiver refuses them at the point where the code raises (receiveChild given a Deferred) *)
Theorem C01_refuted_copy_attr_deferred : doutcome true 0 (slice 0 witness_copy_attr) = 1.
Proof. exact refuted_copy_attr_deferred. Qed.
Print Assumptions C01_refuted_copy_attr_deferred.
Theorem C01_refuted_dict_key_deferred : doutcome true 0 (slice 0 witness_dict_key) = 1.
Proof. exact refuted_dict_key_deferred. Qed.
Print Assumptions C01_refuted_dict_key_deferred.
