From Coq Require Import ZArith List String Bool Lia.
Import ListNotations.
Require Import Verif.lib.PyLite Verif.gen.BananaGen Verif.gen.SlicersGen Verif.lib.Token Verif.lib.TokenProofs Verif.lib.Obj Verif.lib.ObjProofs.
Local Open Scope Z_scope.
Theorem C01_placeholder : unslice true 0 (slice 0 (OList [ORef 0])) = Some (heap_of 0 (OList [ORef 0]), [VPtr 0]).
Proof. exact placeholder_self_list. Qed.
Print Assumptions C01_placeholder.
