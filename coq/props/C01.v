(* C01 -- Serialization round-trip preserves value, type and sharing topology.
   Object layer (Obj.v) on top of the token layer (Token.v, lead) on top of the translated codecs (gen/BananaGen.v);
   opentype strings / trackReferences / setObject flags from gen/SlicersGen.v.
   A graph is given by its emission-order canonical term t; `heap_of n t`, `val_of n t` is the graph the term denotes
   (node k = the container whose OPEN carried number k, `ORef k` = a pointer to node k: sharing and cycles);
   `slice n t` is what the sender emits, `unslice` is the receiver's stack machine. *)
From Coq Require Import ZArith List String Bool Lia.
Import ListNotations.
Require Import Verif.lib.PyLite Verif.gen.BananaGen Verif.gen.SlicersGen Verif.lib.Token Verif.lib.TokenProofs
        Verif.lib.Obj Verif.lib.ObjProofs.
Local Open Scope Z_scope.

(* "Any object graph built from the supported pass-by-value types ... including graphs with shared sub-objects and
   reference cycles, arrives at the other end as a graph that is equal in value and type to the one sent and has the
   same sharing/cycle structure": for EVERY well-formed term (any nesting depth, ints of any magnitude, bool vs int,
   bytes vs text, list vs tuple vs set vs frozenset vs dict vs Copyable, back-references incl. a container inside
   itself, nested call scopes) the receiver rebuilds exactly the denoted graph: same node numbers, same kinds, same
   children, same pointers.  Guard wf_obj = what a sender can emit, minus the known-defective region (below). *)
Theorem C01_slice_unslice : forall scoped n t, wf_obj scoped n t = true ->
  unslice scoped n (slice n t) = Some (heap_of n t, [val_of n t]).
Proof. exact slice_unslice. Qed.
Print Assumptions C01_slice_unslice.

(* the same for a sequence of top-level objects (successive calls/answers; several objects on one storage Banana) *)
Theorem C01_slice_unslice_list : forall scoped n ts v, wf_list scoped [] [] n ts = Some v ->
  unslice scoped n (slice_list n ts) = Some (heap_list n ts, vals_list n ts).
Proof. exact slice_unslice_list. Qed.
Print Assumptions C01_slice_unslice_list.

(* the general form: in ANY admissible receiver state (any stack of open unslicers, any tables) the tokens of t are
   consumed exactly and leave `adv st ..` *)
Theorem C01_run_slice : forall t n sc vis imm vis' st, wf_at sc vis imm n t = Some vis' -> okst sc vis imm n st ->
  run (slice n t) st = Some (adv st [val_of n t] (regs_of n t) (heap_of n t) (opens t)).
Proof. intros t n sc vis imm vis' st W O. exact (proj1 (run_slice t n sc vis imm vis' st W O)). Qed.
Print Assumptions C01_run_slice.

(* "integers of any magnitude ... no matter how the byte stream is split": down to bytes and back, through the
   lead's stream_roundtrip (chunk-independence of the byte-level receiver is C07) *)
Theorem C01_bytes_roundtrip : forall scoped n t bs, wf_obj scoped n t = true -> forallb wf_token (slice n t) = true ->
  encode_stream (slice n t) = Ok bs ->
  exists toks, decode bs = (toks, EndClean) /\ unslice scoped n toks = Some (heap_of n t, [val_of n t]).
Proof. exact bytes_roundtrip. Qed.
Print Assumptions C01_bytes_roundtrip.

(* "... or what vocabulary-compression table is in force" *)
Theorem C01_vocab_transparent : forall tbl ts, NoDup (map snd tbl) -> forallb no_vocab ts = true ->
  devocab tbl (envocab tbl ts) = Some ts.
Proof. exact vocab_transparent. Qed.
Print Assumptions C01_vocab_transparent.

Theorem C01_roundtrip_any_vocab : forall scoped n t tbl, wf_obj scoped n t = true -> NoDup (map snd tbl) ->
  exists toks, devocab tbl (envocab tbl (slice n t)) = Some toks /\ unslice scoped n toks = Some (heap_of n t, [val_of n t]).
Proof. exact roundtrip_any_vocab. Qed.
Print Assumptions C01_roundtrip_any_vocab.

(* "Sharing is preserved within one call and never leaks between two calls": (sender) a scoped sequence emitted where
   nothing outside is visible refers only to objects opened inside itself, and leaves nothing visible behind; *)
Theorem C01_scope_refs_are_local : forall nm xs imm n vis',
  wf_at false [] imm n (OCont (CScope nm) xs) = Some vis' -> refs_ge_list (n + 1) xs = true /\ vis' = [].
Proof. exact scope_refs_are_local. Qed.
Print Assumptions C01_scope_refs_are_local.

(* (receiver) after a call has been closed, a reference in the next call to ANY number outside that call is refused *)
Theorem C01_scope_isolation_receiver : forall nm1 xs1 nm2 n k v,
  wf_list false [] [] n [OCont (CScope nm1) xs1] = Some v -> shape_ok (CScope nm2) [] = true ->
  unslice false n (slice_list n [OCont (CScope nm1) xs1; OCont (CScope nm2) [ORef k]]) = None.
Proof. exact scope_isolation_receiver. Qed.
Print Assumptions C01_scope_isolation_receiver.

(* a connection that carried a message the receiver rejected part-way (schema Violation: the rest of the rejected
   sequence is discarded) still numbers its objects like the sender: whatever lies in the discarded part, the receiver's
   counter advances by exactly the OPENs the sender spent on it, so the references of every later message resolve *)
Theorem C01_discard_slice : forall t n d cnt rest, 0 < d ->
  discard (slice n t ++ rest) d cnt = discard rest d (cnt + opens t).
Proof. exact discard_slice. Qed.
Print Assumptions C01_discard_slice.
Theorem C01_discard_rest_of_rejected : forall xs n k cnt rest,
  discard (slice_list n xs ++ TClose k :: rest) 1 cnt = (0, cnt + opens_list xs, rest).
Proof. exact discard_rest_of_rejected. Qed.
Print Assumptions C01_discard_rest_of_rejected.

(* Full statement without the guard's last two clauses is FALSE on the faithful model and on the code (known findings):
   a tuple that contains a Copyable whose attribute (or whose dict's key) is that tuple is sent, but cannot be received. *)
Theorem C01_refuted_copy_attr : unslice true 0 (slice 0 witness_copy_attr) = None.
Proof. exact (proj1 refuted_copy_attr). Qed.
Print Assumptions C01_refuted_copy_attr.
Theorem C01_refuted_dict_key : unslice true 0 (slice 0 witness_dict_key) = None.
Proof. exact (proj1 refuted_dict_key). Qed.
Print Assumptions C01_refuted_dict_key.
