(* C09 -- Distributed reference counts neither release early nor leak.
   Property theorems only; proofs live in lib/RefsProofs.v.  Model: lib/Refs.v (one connection, owner -> holder);
   `run init ops` ranges over ALL interleavings of: the owner sends a reference (again), a proxy is collected,
   _handleRefLost runs, release / acknowledgement / my-reference / your-reference messages are delivered in FIFO
   order, calls whose payload the receiver discards, connection loss at any point. *)
From Coq Require Import ZArith List Bool.
Import ListNotations.
Require Import Verif.lib.PyLite Verif.gen.RefsGen Verif.lib.Refs Verif.lib.RefsProofs Verif.lib.Gifts Verif.lib.GiftsProofs Verif.lib.Conn Verif.lib.ConnProofs.
Local Open Scope Z_scope.

(* the counting invariant behind everything else, for every reachable state:
   refcount(clid) = sum of received_count over the holder's trackers of that clid + my-references in flight
                    + counts of the decrefs in flight + my-references the receiver discarded *)
Theorem C09_count_invariant : forall ops c,
  let s := run init ops in
  rc (o_tab (ow s)) c = recv_sum (h_trk (hd s)) c + inflight (ch_oh s) c + decs (ch_ho s) c + cnt (leaked s) c.
Proof. exact count_invariant. Qed.
Print Assumptions C09_count_invariant.

(* "keeps it reachable under its connection-local id for as long as the other side holds a live proxy or a message
   carrying the reference is in flight" (in either direction), and the id still designates the object it was allocated for *)
Theorem C09_no_early_release : forall ops,
  let s := run init ops in
  forall c, lost s = false ->
    (exists i t, nth_error (h_trk (hd s)) i = Some t /\ t_proxy t <> None /\ t_clid t = c) \/
    (exists d w, In (MyRef c d w) (ch_oh s)) \/ (exists k, In (ToOwner c k) (ch_ho s)) ->
    exists e, find_clid (o_tab (ow s)) c = Some e /\ 1 <= oe_rc e /\ In (c, oe_obj e) (o_alloc (ow s)).
Proof. exact no_early_release. Qed.
Print Assumptions C09_no_early_release.

(* "never receives a release for more references than it handed out": the assertion of the translated
   ReferenceableTracker.decref never fails, in any history *)
Theorem C09_decref_bounded : forall ops,
  let s := run init ops in
  o_failed (ow s) = false /\
  forall c n rid rest, ch_ho s = Decref c n rid :: rest ->
    exists e, find_clid (o_tab (ow s)) c = Some e /\ 0 < n <= oe_rc e /\ snd (step s RecvHO) = [].
Proof. exact decref_bounded. Qed.
Print Assumptions C09_decref_bounded.

(* (ids of both kinds: Referenceables get the next number of the connection's counter, bound methods its negation --
   getTrackerForMyCall, read from the source -- in one table: Send x with x < 0 is a bound method)
   "never reuses an id for a different object on the same connection": the allocation log has pairwise distinct
   clids, maps each clid to one object, only grows, and the export table is a partial bijection inside it *)
Theorem C09_no_reuse : forall ops,
  let s := run init ops in
  NoDup (map fst (o_alloc (ow s))) /\ NoDup (map oe_clid (o_tab (ow s))) /\ NoDup (map oe_obj (o_tab (ow s))) /\
  Forall (fun e => In (oe_clid e, oe_obj e) (o_alloc (ow s))) (o_tab (ow s)).
Proof. exact no_reuse. Qed.
Print Assumptions C09_no_reuse.

Theorem C09_alloc_functional : forall ops,
  let s := run init ops in forall c x y, In (c, x) (o_alloc (ow s)) -> In (c, y) (o_alloc (ow s)) -> x = y.
Proof. exact alloc_functional. Qed.
Print Assumptions C09_alloc_functional.

Theorem C09_alloc_monotone : forall ops o a,
  In a (o_alloc (ow (run init ops))) -> In a (o_alloc (ow (run init (ops ++ [o])))).
Proof. exact alloc_monotone. Qed.
Print Assumptions C09_alloc_monotone.

(* "once every proxy has been dropped and traffic has drained, the owner's tables no longer pin the object".
   FULL STATEMENT (without `leaked s = []`) is REFUTED below (D9); proved for histories in which the receiver
   discarded no my-reference. *)
Theorem C09_no_leak_partial : forall ops,
  let s := run init ops in
  quiescent s -> no_proxy s -> leaked s = [] -> o_tab (ow s) = [].
Proof. exact no_leak. Qed.
Print Assumptions C09_no_leak_partial.

Theorem C09_no_leak_refuted :
  exists ops, let s := run init ops in quiescent s /\ no_proxy s /\ o_tab (ow s) <> [].
Proof. exact no_leak_refuted. Qed.
Print Assumptions C09_no_leak_refuted.

(* the guard of C09_no_leak_partial is EXACT.  At quiescence with every proxy dropped, in every history, the owner's
   refcount of a clid is precisely the number of my-references with that clid that travelled in calls the receiver
   discarded; so the table drains if and only if no call carrying a reference was discarded (sufficiency and necessity),
   and every discarded reference does pin the object its clid was allocated for (D9) *)
Theorem C09_leak_exact : forall ops,
  let s := run init ops in
  quiescent s -> no_proxy s -> forall c, rc (o_tab (ow s)) c = cnt (leaked s) c.
Proof. exact leak_exact. Qed.
Print Assumptions C09_leak_exact.

Theorem C09_no_leak_iff : forall ops,
  let s := run init ops in
  quiescent s -> no_proxy s -> (o_tab (ow s) = [] <-> leaked s = []).
Proof. exact no_leak_iff. Qed.
Print Assumptions C09_no_leak_iff.

Theorem C09_discarded_reference_pins : forall ops,
  let s := run init ops in
  forall c, In c (leaked s) ->
  exists e, find_clid (o_tab (ow s)) c = Some e /\ cnt (leaked s) c <= oe_rc e /\ In (c, oe_obj e) (o_alloc (ow s)).
Proof. exact discarded_reference_pins. Qed.
Print Assumptions C09_discarded_reference_pins.

(* "when the connection is lost both sides forget everything", and stay that way *)
Theorem C09_loss_forgets : forall ops1 ops2,
  let s := run init (ops1 ++ ConnLost :: ops2) in
  lost s = true /\ o_tab (ow s) = [] /\ h_tab (hd s) = [] /\ ch_oh s = [] /\ ch_ho s = [].
Proof. exact loss_forgets. Qed.
Print Assumptions C09_loss_forgets.


(* ---- three parties (lib/Gifts.v): the giver's gift table (Broker.myGifts), for ALL interleavings of gives, drops by the
   giver's application, deliveries of their-references / lookups / answers / decgifts.
   The counting invariant: the count of a gift = their-references not yet resolved at the recipient (on the wire, being
   looked up, answer on its way) + acknowledgements on their way: each their-reference is acknowledged exactly once, and
   only after the recipient's lookup was answered *)
Theorem C09_gift_count_invariant : forall ops id,
  let s := trun tinit ops in gcount (gifts s) id = outstanding s id.
Proof. exact gift_count_invariant. Qed.
Print Assumptions C09_gift_count_invariant.

(* "never receives a release for more references than it handed out", for gifts: remote_decgift always finds its entry,
   with a sufficient count *)
Theorem C09_decgift_bounded : forall ops,
  let s := trun tinit ops in
  gfail s = false /\
  forall id n rest, ch_cb s = (id, n) :: rest ->
    exists e, find_gift_id (gifts s) id = Some e /\ 0 < n <= ge_count e /\ snd (tstep s TRecvCB) = [].
Proof. exact decgift_bounded. Qed.
Print Assumptions C09_decgift_bounded.

(* "... for as long as ... a message carrying the reference is in flight", third-party form: while a their-reference or
   its lookup is on the way, the giver's entry exists and holds a proxy that is alive at the giver (so the giver sends no
   decref: C09_no_early_release keeps the owner's entry), and the owner's object lives *)
Theorem C09_gift_in_flight_pins : forall ops m,
  let s := trun tinit ops in
  In m (ch_bc s) \/ In m (lookups s) ->
  exists e b, find_gift_id (gifts s) (tr_id m) = Some e /\ In b (bprox s) /\ bp_key b = ge_pin e /\ bp_alive (gifts s) b = true /\
              (fst (bp_key b), bp_obj b) = tr_want m /\ obj_alive s (tr_want m) = true.
Proof. exact gift_in_flight_pins. Qed.
Print Assumptions C09_gift_in_flight_pins.

Theorem C09_gift_entry_holds_proxy : forall ops e,
  let s := trun tinit ops in In e (gifts s) -> exists b, In b (bprox s) /\ bp_key b = ge_pin e /\ 1 <= ge_count e.
Proof. exact gift_entry_holds_proxy. Qed.
Print Assumptions C09_gift_entry_holds_proxy.

(* "once ... traffic has drained, the owner's tables no longer pin the object", for the giver's pin: no gift-table entry
   survives quiescence *)
Theorem C09_no_gift_leak : forall ops,
  let s := trun tinit ops in tquiescent s -> gifts s = [].
Proof. exact no_gift_leak. Qed.
Print Assumptions C09_no_gift_leak.

(* the counting invariant does not depend on how freeYourReferenceTracker deletes the import-table entry: the
   repair of D16 (deletion by identity, ab72d65) left every C09 statement intact *)
Theorem C09_count_invariant_any_deletion_rule : forall k ops c,
  let s := run_k k init ops in
  rc (o_tab (ow s)) c = recv_sum (h_trk (hd s)) c + inflight (ch_oh s) c + decs (ch_ho s) c + cnt (leaked s) c.
Proof. exact count_invariant_k. Qed.
Print Assumptions C09_count_invariant_any_deletion_rule.

(* ---- BOTH directions of one connection at once (lib/Conn.v): A exports to B while B exports to A, the two physical FIFOs
   each carrying the interleaved messages of both directions, for ALL interleavings of local actions and deliveries.
   Product theorem: each direction's state is a reachable state of the one-direction model, so every theorem above about
   `run init ops` holds for it ... *)
Theorem C09_directions_independent : forall ops,
  let s := srun sinit ops in
  (exists opsA, dA s = run init opsA) /\ (exists opsB, dB s = run init opsB) /\ lost (dA s) = lost (dB s).
Proof. exact directions_independent. Qed.
Print Assumptions C09_directions_independent.

(* ... the shared FIFOs are faithful: the tag lists are exactly a merge of the two directions' queues (a delivery always
   finds the message its tag announces) ... *)
Theorem C09_fifo_is_a_merge : forall ops,
  let s := srun sinit ops in
  cnt_inst IA (tAB s) = List.length (ch_oh (dA s)) /\ cnt_inst IB (tAB s) = List.length (ch_ho (dB s)) /\
  cnt_inst IA (tBA s) = List.length (ch_ho (dA s)) /\ cnt_inst IB (tBA s) = List.length (ch_oh (dB s)).
Proof. exact fifo_is_a_merge. Qed.
Print Assumptions C09_fifo_is_a_merge.

(* ... hence the counting invariant and "never reuses an id" hold for both export tables at once *)
Theorem C09_sym_count_invariant : forall ops c,
  let s := srun sinit ops in
  (rc (o_tab (ow (dA s))) c = recv_sum (h_trk (hd (dA s))) c + inflight (ch_oh (dA s)) c + decs (ch_ho (dA s)) c + cnt (leaked (dA s)) c) /\
  (rc (o_tab (ow (dB s))) c = recv_sum (h_trk (hd (dB s))) c + inflight (ch_oh (dB s)) c + decs (ch_ho (dB s)) c + cnt (leaked (dB s)) c).
Proof. exact sym_count_invariant. Qed.
Print Assumptions C09_sym_count_invariant.

Theorem C09_sym_no_reuse : forall ops,
  let s := srun sinit ops in
  NoDup (map fst (o_alloc (ow (dA s)))) /\ NoDup (map oe_clid (o_tab (ow (dA s)))) /\
  NoDup (map fst (o_alloc (ow (dB s)))) /\ NoDup (map oe_clid (o_tab (ow (dB s)))).
Proof. exact sym_no_reuse. Qed.
Print Assumptions C09_sym_no_reuse.

(* "when the connection is lost both sides forget everything", for the whole Broker pair: both export tables, both import
   tables, all four queues, the gift tables (myGifts, myGiftsByGiftID), the calls parsed but never run
   (inboundDeliveryQueue) together with their activeLocalCalls entries (fix 30b3768) -- which tables finish() empties is
   read from the source (finish_clears_*, finish_drops_undelivered_calls) -- and it stays that way.  What remains in
   activeLocalCalls are only calls that were already running. *)
Theorem C09_sym_loss_forgets : forall ops1 ops2,
  let s := srun sinit (ops1 ++ SLost :: ops2) in
  forgotten (dA s) /\ forgotten (dB s) /\ tAB s = [] /\ tBA s = [] /\ qforgotten (xA s) /\ qforgotten (xB s).
Proof. exact sym_loss_forgets. Qed.
Print Assumptions C09_sym_loss_forgets.
