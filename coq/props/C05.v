(* C05 -- A connection is bound to a TubID only if the peer proved that identity.
   Property theorems only; proofs live in lib/IdentityProofs.v.  Everything is stated for an arbitrary type of
   certificates and an arbitrary function tubid_of (the hash): no property of the hash is used.  `evaluate`,
   `session`, `step` are built from the fragments of negotiate.py / pb.py / referenceable.py translated into
   gen/IdentityGen.v on every run. *)
From Coq Require Import ZArith List String Bool.
Import ListNotations.
Require Import Verif.lib.PyLite Verif.gen.NegotiateGen Verif.lib.Negotiate Verif.lib.NegBytes Verif.gen.IdentityGen
               Verif.lib.NegSplit Verif.lib.Identity Verif.lib.IdentityProofs Verif.lib.IdentityBytes Verif.lib.IdentityBytesProofs
               Verif.lib.NegCodec Verif.gen.NegCodecGen Verif.lib.NegWire Verif.lib.IdentityBytesReal Verif.lib.IdentityBytesRealProofs
               Verif.lib.IdentityKeys Verif.lib.IdentityKeysProofs Verif.lib.IdentityComposeProofs.
Local Open Scope Z_scope.

(* "A connection is registered as 'the connection to Tub X' only if the TLS peer presented a certificate whose
   hash is X; a client additionally never accepts a peer other than the Tub named in the FURL it dialled":
   one end's evaluation of the peer's hello passes only then *)
Theorem C05_bound : forall (cert : Type) (tubid_of : cert -> list Z) r me tgt c claimed t m,
  evaluate cert tubid_of r me tgt c claimed = Accept t m ->
  exists crt, c = Some crt /\ tubid_of crt = t /\ claimed = Some t /\ (r = Client -> t = tgt) /\ t <> [] /\
              m = i_am_master me t.
Proof. exact evaluate_bound. Qed.
Print Assumptions C05_bound.

(* ... and the TubRef the Broker is created with and stored under (switchToBanana -> Tub.brokerAttached) is the hash
   of that certificate; for a client it is the dialled id *)
Theorem C05_registered_key_proven : forall (cert : Type) (tubid_of : cert -> list Z) r me tgt c claimed t m,
  evaluate cert tubid_of r me tgt c claimed = Accept t m ->
  exists crt, c = Some crt /\ tubid_of crt = attach_key (is_client r) tgt t /\
              (r = Client -> attach_key (is_client r) tgt t = tgt).
Proof. exact attach_key_proven. Qed.
Print Assumptions C05_registered_key_proven.

(* "Any mismatch between claimed identity, presented certificate and expected identity aborts the negotiation":
   no certificate, no / empty claim, claim different from the certificate's hash, or (client) claim different from
   the dialled id -- each rejects; and nothing else does *)
Theorem C05_mismatch_rejects : forall (cert : Type) (tubid_of : cert -> list Z) r me tgt c claimed,
  mismatch cert tubid_of r tgt c claimed -> exists w, evaluate cert tubid_of r me tgt c claimed = Reject w.
Proof. exact mismatch_rejects. Qed.
Print Assumptions C05_mismatch_rejects.

Theorem C05_accept_iff_no_mismatch : forall (cert : Type) (tubid_of : cert -> list Z) r me tgt c claimed,
  (exists t m, evaluate cert tubid_of r me tgt c claimed = Accept t m) <-> ~ mismatch cert tubid_of r tgt c claimed.
Proof. exact accept_iff_no_mismatch. Qed.
Print Assumptions C05_accept_iff_no_mismatch.

(* "... only if the TLS peer PRESENTED [= proved possession of] a certificate whose hash is X": the identity is taken from
   the leaf certificate of the handshake (crypto.peerFromTransport, as read from crypto.py); whatever further
   certificates the peer sends along (other Tubs' public certificates) never matter *)
Theorem C05_identity_is_leaf : forall (cert : Type) (tubid_of : cert -> list Z) r me tgt (p : presented cert) claimed t m,
  handle_hello cert tubid_of r me tgt p claimed = Accept t m ->
  exists crt, leaf p = Some crt /\ tubid_of crt = t /\ claimed = Some t /\ (r = Client -> t = tgt) /\ t <> [] /\
              m = i_am_master me t.
Proof. exact handle_hello_bound. Qed.
Print Assumptions C05_identity_is_leaf.

Theorem C05_extra_certificates_irrelevant : forall (cert : Type) (tubid_of : cert -> list Z) r me tgt l e1 e2 claimed,
  handle_hello cert tubid_of r me tgt {| leaf := l; extras := e1 |} claimed =
  handle_hello cert tubid_of r me tgt {| leaf := l; extras := e2 |} claimed.
Proof. exact extras_irrelevant. Qed.
Print Assumptions C05_extra_certificates_irrelevant.

(* "Any mismatch ... aborts the negotiation without creating a usable connection", against a peer that does not stop:
   for every sequence of header blocks (hellos, decisions, error blocks, junk) in every chunking -- in particular
   blocks that arrive after a hello was rejected but before the connection is gone -- every key ever given to
   Tub.brokerAttached is the hash of the leaf certificate of that transport and, on a client, the dialled id *)
Theorem C05_peer_keeps_sending : forall (cert : Type) (tubid_of : cert -> list Z) r my tgt (p : presented cert)
                                        (chunks : list (list blk)) k,
  In k (n_attached (recv_all cert tubid_of r my tgt p chunks)) ->
  exists crt, leaf p = Some crt /\ tubid_of crt = k /\ (r = Client -> k = tgt).
Proof. exact recv_attach_proven. Qed.
Print Assumptions C05_peer_keeps_sending.

(* both ends of one connection attempt, for every combination of presented certificates, claimed ids, dialled id and
   requested id: whatever either end ever registers is proven by the certificate that end saw (client: and is the
   dialled id); what remains at quiescence was registered *)
Theorem C05_session_bound : forall (cert : Type) (tubid_of : cert -> list Z) (s : session_cfg cert) oc os,
  session cert tubid_of s = (oc, os) ->
  (forall k, ever oc = Some k ->
       k = dialled s /\ proven cert tubid_of (leaf (pres_c s)) k /\ claim_c s = Some k /\ requested s = srv_id s) /\
  (forall k, ever os = Some k -> proven cert tubid_of (leaf (pres_s s)) k /\ claim_s s = Some k /\ requested s = srv_id s) /\
  (forall k, final oc = Some k -> ever oc = Some k) /\
  (forall k, final os = Some k -> ever os = Some k).
Proof. exact session_bound. Qed.
Print Assumptions C05_session_bound.

(* "... aborts the negotiation without creating a usable connection": a mismatch seen by either end, or a request for
   a Tub the listener does not serve, leaves no connection on either side, and the end that saw it never had one *)
Theorem C05_mismatch_no_connection : forall (cert : Type) (tubid_of : cert -> list Z) (s : session_cfg cert) oc os,
  session cert tubid_of s = (oc, os) ->
  (requested s <> srv_id s \/ requested s = [] \/
   mismatch cert tubid_of Client (dialled s) (leaf (pres_c s)) (claim_c s) \/
   mismatch cert tubid_of Server [] (leaf (pres_s s)) (claim_s s)) ->
  final oc = None /\ final os = None /\
  (mismatch cert tubid_of Client (dialled s) (leaf (pres_c s)) (claim_c s) -> ever oc = None) /\
  (mismatch cert tubid_of Server [] (leaf (pres_s s)) (claim_s s) -> ever os = None).
Proof. exact session_mismatch_no_connection. Qed.
Print Assumptions C05_mismatch_no_connection.

(* the checks are not vacuous: two honest distinct Tubs do get connected, each under the other's id *)
Theorem C05_honest_pair_connects : forall (cert : Type) (tubid_of : cert -> list Z) (s : session_cfg cert) ca cb,
  leaf (pres_c s) = Some cb -> tubid_of cb = srv_id s -> claim_c s = Some (srv_id s) ->
  leaf (pres_s s) = Some ca -> tubid_of ca = cl_id s -> claim_s s = Some (cl_id s) ->
  dialled s = srv_id s -> requested s = srv_id s ->
  cl_id s <> srv_id s -> cl_id s <> [] -> srv_id s <> [] ->
  session cert tubid_of s = (obs_connected (srv_id s), obs_connected (cl_id s)).
Proof. exact session_honest. Qed.
Print Assumptions C05_honest_pair_connects.

(* the Tub's table after ANY history of negotiation attempts (arbitrary certificates and claims, decisions arriving or
   not, old connections dropped or not), detachments and loopback requests: every entry is backed by the certificate
   of its own transport (or is the Tub's loopback under its own id), and there is one entry per id *)
Theorem C05_table_invariant : forall (cert : Type) (tubid_of : cert -> list Z) my (evs : list (event cert)),
  Forall (justified cert tubid_of my) (run cert tubid_of my evs) /\ NoDup (map fst (run cert tubid_of my evs)).
Proof. exact table_invariant. Qed.
Print Assumptions C05_table_invariant.

(* "(and getReference on a FURL naming X succeeds over it) only if ...": the Broker that serves getReference(FURL
   naming X) runs over a transport whose certificate hashes to X *)
Theorem C05_getReference_proven : forall (cert : Type) (tubid_of : cert -> list Z) my (evs : list (event cert)) x c,
  get_broker cert (run cert tubid_of my evs) x = Some c ->
  (conn_loop cert c = true /\ x = my) \/ (conn_loop cert c = false /\ proven cert tubid_of (conn_cert cert c) x).
Proof. exact getref_proven. Qed.
Print Assumptions C05_getReference_proven.

(* inbound references: a my-reference carrying a URL is accepted only if the URL names the connection's tub id, hence
   only if the connection's certificate hashes to the id in the URL *)
Theorem C05_inbound_url : forall k url_id, accept_inbound_ref k url_id = true <-> url_id = k.
Proof. exact inbound_url_rule. Qed.
Print Assumptions C05_inbound_url.

Theorem C05_inbound_ref_proven : forall (cert : Type) (tubid_of : cert -> list Z) my (evs : list (event cert)) x c u,
  get_broker cert (run cert tubid_of my evs) x = Some c -> conn_loop cert c = false ->
  accept_inbound_ref x u = true -> proven cert tubid_of (conn_cert cert c) u.
Proof. exact inbound_ref_proven. Qed.
Print Assumptions C05_inbound_ref_proven.

(* "(and getReference on a FURL naming X succeeds over it) only if ...", request by request: for every history of
   getReference calls made before startService (queued) and after it, the answer delivered to a request was obtained for
   that request's own FURL -- over the Tub.brokers entry of the tub id it names (which C05_getReference_proven ties to the
   leaf certificate) and asking the peer for the name it names *)
Theorem C05_getReference_answers_own_request : forall (evs : list gr_event) r a,
  In (r, a) (g_delivered (gr_run evs)) ->
  exists f, In (r, f) (g_log (gr_run evs)) /\ a_key a = f_tub f /\ a_name a = f_name f /\
            (forall f', In (r, f') (g_log (gr_run evs)) -> f' = f).
Proof. exact gr_answers_match. Qed.
Print Assumptions C05_getReference_answers_own_request.

(* the same with several lookups pending at once and connections -- also inbound ones from the Tubs being dialled
   ("crossed connections") -- completing, failing and going away in every order: a lookup for X is only ever answered with a
   Broker whose transport's leaf certificate hashes to X *)
Theorem C05_pending_lookups_answered_by_proven_connections :
  forall (cert : Type) (tubid_of : cert -> list Z) my (evs : list (tevent cert)),
  table_ok cert tubid_of my (t_tab cert (trun cert tubid_of my evs)) /\
  (forall n x c, In (n, x, Some c) (t_ans cert (trun cert tubid_of my evs)) ->
     (conn_loop cert c = true /\ x = my) \/ (conn_loop cert c = false /\ proven cert tubid_of (conn_cert cert c) x)).
Proof. exact tub_answers_proven. Qed.
Print Assumptions C05_pending_lookups_answered_by_proven_connections.

(* ---------------------------------------------------------------------------------------------------------------------
   ROUND 5: the same statements over RAW BYTES.  brecv_all is Negotiation.dataReceived from the first byte of the
   connection (PLAINTEXT phase): block splitter (header_verdict, translated), phase dispatch (translated),
   handlePLAINTEXTServer / handlePLAINTEXTClient (translated statement by statement, incl. the listener's lookup and the
   redirect branch), handleENCRYPTED, the translated identity checks, handleDECIDING, switchToBanana's key.
   The header parser (D, parse, has_error, claimed_of), UTF-8 decoding (decode), every non-identity check (pre_chk, post_chk,
   decision_chk) and the listener's redirect table are universally quantified: nothing is assumed about them.  The
   C05_real_* corollaries instantiate them with the translated parseLines (strict UTF-8) and the wire-level checks of C13. *)
Notation brecv cert tubid_of decode D parse has_error claimed_of pre_chk post_chk decision_chk redirect :=
  (brecv_all cert tubid_of decode D parse has_error claimed_of pre_chk post_chk decision_chk redirect) (only parsing).

(* "A connection is registered as 'the connection to Tub X' only if the TLS peer presented a certificate whose hash is X; a
   client additionally never accepts a peer other than the Tub named in the FURL it dialled" -- for ARBITRARY BYTES in ANY
   chunking, sent by a peer that never stops, also after errors *)
Theorem C05_bytes_attach_proven :
  forall (cert : Type) (tubid_of : cert -> list Z) decode (D : Type) parse has_error claimed_of pre_chk post_chk decision_chk redirect
         r my tgt (p : presented cert) (chunks : list (list Z)) k,
  In k (b_attached (brecv cert tubid_of decode D parse has_error claimed_of pre_chk post_chk decision_chk redirect r my tgt p chunks)) ->
  exists crt, leaf p = Some crt /\ tubid_of crt = k /\ (r = Client -> k = tgt).
Proof. exact bytes_attach_proven. Qed.
Print Assumptions C05_bytes_attach_proven.

(* "Any mismatch ... aborts the negotiation without creating a usable connection": no Tub.brokerAttached before a hello passed
   evaluateNegotiationVersion1's identity checks -- if a key was registered, one of the header blocks received on this very
   connection parsed, carried no error, passed the earlier checks, and its my-tub-id passed the identity checks against the
   leaf certificate (hence, by C05_identity_is_leaf, no mismatch of claim, certificate and dialled id) *)
Theorem C05_bytes_no_attach_before_identity :
  forall (cert : Type) (tubid_of : cert -> list Z) decode (D : Type) parse has_error claimed_of pre_chk post_chk decision_chk redirect
         r my tgt (p : presented cert) (chunks : list (list Z)),
  b_attached (brecv cert tubid_of decode D parse has_error claimed_of pre_chk post_chk decision_chk redirect r my tgt p chunks) <> [] ->
  exists hdr d t m, parse hdr = Ok d /\ has_error d = false /\ pre_chk d = Ok tt /\
                    handle_hello cert tubid_of r my tgt p (claimed_of d) = Accept t m.
Proof. exact bytes_no_attach_before_identity. Qed.
Print Assumptions C05_bytes_no_attach_before_identity.

(* one transport is registered under at most one key, and under none while it is still negotiating *)
Theorem C05_bytes_at_most_one_attach :
  forall (cert : Type) (tubid_of : cert -> list Z) decode (D : Type) parse has_error claimed_of pre_chk post_chk decision_chk redirect
         r my tgt (p : presented cert) (chunks : list (list Z)),
  let st := brecv cert tubid_of decode D parse has_error claimed_of pre_chk post_chk decision_chk redirect r my tgt p chunks in
  (List.length (b_attached st) <= 1)%nat /\ (b_phase st <> RP PhBanana -> b_attached st = []).
Proof. intros. exact (bytes_at_most_one_attach cert tubid_of decode D parse has_error claimed_of pre_chk post_chk decision_chk redirect r my tgt p chunks). Qed.
Print Assumptions C05_bytes_at_most_one_attach.

(* in the PLAINTEXT phase (before TLS) nothing the peer says is believed: no identity stored, nothing registered; listeners
   with redirects are covered (redirect is arbitrary) *)
Theorem C05_bytes_plaintext_knows_nothing :
  forall (cert : Type) (tubid_of : cert -> list Z) decode (D : Type) parse has_error claimed_of pre_chk post_chk decision_chk redirect
         r my tgt (p : presented cert) (chunks : list (list Z)),
  let st := brecv cert tubid_of decode D parse has_error claimed_of pre_chk post_chk decision_chk redirect r my tgt p chunks in
  b_phase st = RPlaintext -> b_their st = None /\ b_attached st = [].
Proof. intros. exact (bytes_plaintext_knows_nothing cert tubid_of decode D parse has_error claimed_of pre_chk post_chk decision_chk redirect r my tgt p chunks H). Qed.
Print Assumptions C05_bytes_plaintext_knows_nothing.

(* WHAT A REFUSAL DOES ("aborts the negotiation" is: failure recorded + loseConnection(); the object lives on until
   connectionLost).  A header block whose handler raised leaves the receive phase, the unread buffer, the registered keys and
   the record of passed hellos exactly as they were; besides the recorded failure only self.theirTubRef can change, only in the
   ENCRYPTED phase, and only to the hash of this transport's leaf certificate.  In particular after a refused PLAINTEXT block the
   object is in the PLAINTEXT phase again and a second GET / 101 is looked at like the first *)
Theorem C05_bytes_refusal_changes_nothing_but :
  forall (cert : Type) (tubid_of : cert -> list Z) decode (D : Type) parse has_error claimed_of pre_chk post_chk decision_chk redirect
         r my tgt (p : presented cert) st hdr st',
  bhandle cert tubid_of decode D parse has_error claimed_of pre_chk post_chk decision_chk redirect r my tgt p st hdr = (st', true) ->
  b_phase st' = b_phase st /\ b_attached st' = b_attached st /\ b_passed st' = b_passed st /\ b_buf st' = b_buf st /\
  b_fail st' <> None /\
  (b_their st' = b_their st \/
   (b_phase st = RP PhEncrypted /\ exists crt, leaf p = Some crt /\ b_their st' = Some (tubid_of crt))).
Proof. exact refusal_changes_nothing_but. Qed.
Print Assumptions C05_bytes_refusal_changes_nothing_but.

(* ... input alone never ends the object's life (only the hand-over to the Broker or connectionLost do), so after any refusal
   the next chunk goes through the same code ... *)
Theorem C05_bytes_never_abandoned :
  forall (cert : Type) (tubid_of : cert -> list Z) decode (D : Type) parse has_error claimed_of pre_chk post_chk decision_chk redirect
         r my tgt (p : presented cert) (chunks : list (list Z)),
  b_phase (brecv cert tubid_of decode D parse has_error claimed_of pre_chk post_chk decision_chk redirect r my tgt p chunks) <> RP PhAbandoned.
Proof. exact bytes_never_abandoned. Qed.
Print Assumptions C05_bytes_never_abandoned.

Theorem C05_bytes_keeps_reading :
  forall (cert : Type) (tubid_of : cert -> list Z) decode (D : Type) parse has_error claimed_of pre_chk post_chk decision_chk redirect
         r my tgt (p : presented cert) (chunks : list (list Z)) chunk,
  let st := brecv cert tubid_of decode D parse has_error claimed_of pre_chk post_chk decision_chk redirect r my tgt p chunks in
  b_phase st <> RP PhBanana ->
  brecv cert tubid_of decode D parse has_error claimed_of pre_chk post_chk decision_chk redirect r my tgt p (chunks ++ [chunk]) =
  bdrain cert tubid_of decode D parse has_error claimed_of pre_chk post_chk decision_chk redirect
         (S (List.length (b_buf st ++ chunk))) r my tgt p (with_bbuf st (b_buf st ++ chunk)).
Proof. intros. exact (bytes_keeps_reading cert tubid_of decode D parse has_error claimed_of pre_chk post_chk decision_chk redirect r my tgt p chunks chunk H). Qed.
Print Assumptions C05_bytes_keeps_reading.

(* ... and the identity checks apply to every later hello from scratch: what handleENCRYPTED does with a block (refuse / wait for
   the decision / register) depends neither on earlier failures nor on a theirTubRef left behind by an earlier rejected hello.
   (That whatever is registered later is still proven is C05_bytes_attach_proven, which covers every continuation.) *)
Theorem C05_bytes_hello_evaluation_is_memoryless :
  forall (cert : Type) (tubid_of : cert -> list Z) (D : Type) parse has_error claimed_of pre_chk post_chk
         r my tgt (p : presented cert) st1 st2 hdr,
  let h := handle_encrypted cert tubid_of D parse has_error claimed_of pre_chk post_chk r my tgt p in
  b_phase st1 = b_phase st2 -> b_attached st1 = b_attached st2 ->
  snd (h st1 hdr) = snd (h st2 hdr) /\ b_phase (fst (h st1 hdr)) = b_phase (fst (h st2 hdr)) /\
  b_attached (fst (h st1 hdr)) = b_attached (fst (h st2 hdr)) /\
  (snd (h st1 hdr) = false -> b_their (fst (h st1 hdr)) = b_their (fst (h st2 hdr))).
Proof. intros. exact (hello_evaluation_is_memoryless cert tubid_of D parse has_error claimed_of pre_chk post_chk r my tgt p st1 st2 hdr H H0). Qed.
Print Assumptions C05_bytes_hello_evaluation_is_memoryless.

(* the byte-level statements for the REAL checks: parse = the translated Negotiation.parseLines (strict UTF-8), pre / post /
   decision checks = evaluateHello, the decider's vocabulary decision and acceptDecision at wire level (lib/NegWire.v, C13),
   for any endpoint parameters `me` and any table-hash rendering hf *)
Theorem C05_real_attach_proven :
  forall (cert : Type) (tubid_of : cert -> list Z) hf me redirect r my tgt (p : presented cert) (chunks : list (list Z)) k,
  In k (b_attached (real_recv_all hf me cert tubid_of redirect r my tgt p chunks)) ->
  exists crt, leaf p = Some crt /\ tubid_of crt = k /\ (r = Client -> k = tgt).
Proof. exact real_attach_proven. Qed.
Print Assumptions C05_real_attach_proven.

Theorem C05_real_no_attach_before_identity :
  forall (cert : Type) (tubid_of : cert -> list Z) hf me redirect r my tgt (p : presented cert) (chunks : list (list Z)),
  b_attached (real_recv_all hf me cert tubid_of redirect r my tgt p chunks) <> [] ->
  exists hdr d ver t m, parseLines hdr = Ok d /\ dget d error_key = None /\ eval_hello_wire me d = Ok ver /\ forced_chk d = Ok tt /\
                        handle_hello cert tubid_of r my tgt p (dget d hello_key_tubid_written) = Accept t m.
Proof. exact real_no_attach_before_identity. Qed.
Print Assumptions C05_real_no_attach_before_identity.

(* `assert theirTubID` (not executed under python -O): without the asserts the translated checks additionally accept exactly
   the anonymous peer on a listener (no certificate AND no my-tub-id), stored as TubRef(None); every id they accept is still
   the hash of the presented certificate (client: and the dialled id) ... *)
Theorem C05_without_asserts : forall (cert : Type) (tubid_of : cert -> list Z) ic target c claimed r,
  ev1_identity_noassert cert tubid_of ic target c claimed = Ok r ->
  (r = None /\ c = None /\ claimed = None /\ ic = false) \/
  (exists crt t, c = Some crt /\ tubid_of crt = t /\ claimed = Some t /\ r = Some t /\ (ic = true -> t = target)).
Proof. exact ev1_noassert_sound. Qed.
Print Assumptions C05_without_asserts.

(* ... and since crypto.peerFromTransport raises when the peer presented no certificate (peer_from_transport), the anonymous
   case cannot arise: with a certificate the unchecked statements accept only its hash *)
Theorem C05_without_asserts_certificate_still_required : forall (cert : Type) (tubid_of : cert -> list Z) ic target crt claimed r,
  ev1_identity_noassert cert tubid_of ic target (Some crt) claimed = Ok r ->
  r = Some (tubid_of crt) /\ claimed = Some (tubid_of crt) /\ (ic = true -> tubid_of crt = target).
Proof. exact ev1_noassert_with_certificate. Qed.
Print Assumptions C05_without_asserts_certificate_still_required.

(* "(URL inside an inbound reference must carry the connection's tub id)" as a HISTORY: whatever sequence of my-reference
   sequences (with or without URL, for new or already known clids) the peer sends over the connection registered under k,
   every reference-tracker that carries a URL names k -- hence, by C05_getReference_proven, the id its transport's leaf
   certificate hashes to.  ref_step is built on the translated inbound_url_check and known_clid_url_policy. *)
Theorem C05_inbound_reference_history : forall k (ms : list (Z * option (list Z))) clid u,
  In (clid, Some u) (ref_run k ms) -> u = k.
Proof. exact ref_urls_proven. Qed.
Print Assumptions C05_inbound_reference_history.

(* ---------------------------------------------------------------------------------------------------------------------
   THE KEY PATH of "(and getReference on a FURL naming X succeeds over it) only if ...".  Tub.brokers is a dict keyed by TubRef
   objects; everything about the keys is translated into gen/IdentityGen.v: TubRef._distinguishers (what __eq__ compares and
   __hash__ hashes), SturdyRef.getTubRef, TubRef.__init__, Tub._getReference's key, Tub.getBrokerForTubRef's decision,
   evaluateNegotiationVersion1's TubRef(theirTubID).  s is the SturdyRef that SturdyRef(furl) produced (FURL text parsing: C20). *)

(* what "naming X" means: a probe TubRef finds a stored TubRef exactly when their tubID attributes are equal; location hints (and
   the object name) play no part *)
Theorem C05_naming_is_tubid : forall a b, dict_match a b = true <-> sr_tub a = sr_tub b.
Proof. exact dict_match_iff. Qed.
Print Assumptions C05_naming_is_tubid.

(* after ANY history of negotiations (arbitrary certificates, claims, dialled TubRefs with any hints), detachments and lookups: the
   Broker that Tub.brokers finds for the TubRef made from the SturdyRef is stored under a key with the SturdyRef's tub id, and runs over
   a transport whose leaf certificate hashes to that tub id (or is the loopback and the SturdyRef names this very Tub) *)
Theorem C05_getReference_key_proven : forall (cert : Type) (tubid_of : cert -> list Z) my (evs : list (kevent cert)) k c s,
  getReference_broker cert (krun cert tubid_of my evs) s = Some (k, c) ->
  sr_tub k = sr_tub s /\
  ((conn_loop cert c = true /\ sr_tub s = Some my) \/
   (conn_loop cert c = false /\ exists x, sr_tub s = Some x /\ proven cert tubid_of (conn_cert cert c) x)).
Proof. exact getReference_key_proven. Qed.
Print Assumptions C05_getReference_key_proven.

(* two SturdyRefs naming the same tub id -- other hints, other object name -- are served by the same table entry *)
Theorem C05_same_tub_same_broker : forall (cert : Type) (t : ktable cert) s1 s2,
  sr_tub s1 = sr_tub s2 -> getReference_broker cert t s1 = getReference_broker cert t s2.
Proof. exact getReference_same_tub_same_broker. Qed.
Print Assumptions C05_same_tub_same_broker.

(* the client's wrong-Tub test, modelled on tub ids in ev1_identity, is TubRef's own (translated) equality *)
Theorem C05_client_check_is_tubref_eq : forall t target,
  ostr_eqb (Some t) (Some (tub_of target)) = true -> sr_tub target <> None -> tubref_eqb (tubref_of_id t) target = true.
Proof. exact client_check_is_tubref_eq. Qed.
Print Assumptions C05_client_check_is_tubref_eq.

(* ... and conversely -- the SAFETY direction: whatever TubRef's own (translated) __eq__ lets through as "the dialled Tub", the
   id-level test of the translated identity checks lets through too, so the model's client test refuses at least what
   `theirTubRef != self.target` refuses.  No side condition.  (The side condition of the completeness direction is needed:
   IdentityKeysProofs.client_check_side_condition_needed.) *)
Theorem C05_client_check_is_tubref_eq_converse : forall t target,
  tubref_eqb (tubref_of_id t) target = true -> ostr_eqb (Some t) (Some (tub_of target)) = true.
Proof. exact client_check_is_tubref_eq_converse. Qed.
Print Assumptions C05_client_check_is_tubref_eq_converse.

(* ---------------------------------------------------------------------------------------------------------------------
   REVIEW 2.  (1) THE CLOSED WORLD of switchToBanana.  brecv_all starts at Negotiation.connectionMade (b_connection_made), whose
   non-negotiating branch `else: self.switchToBanana({})` is a third path to Tub.brokerAttached besides sendDecision and
   handleDECIDING.  The translator enumerates EVERY mention of switchToBanana / sendDecision / brokerAttached / doNegotiation in the
   package outside test/ (gen/IdentityGen.v: switch_sites, do_negotiation, connection_made_switches) and refuses any it does not
   know; doNegotiation must be the class constant True that nothing stores to.  On such a tree connectionMade registers nothing: *)
Theorem C05_connection_made_registers_nothing : forall r tgt, b_connection_made r tgt = b_init.
Proof. exact bytes_start_is_init. Qed.
Print Assumptions C05_connection_made_registers_nothing.

(* the excluded region: were that branch live, a client would register the dialled id with no hello seen at all *)
Theorem C05_without_negotiation_refuted : forall tgt,
  b_attached (b_connection_made_with true Client tgt) = [tgt] /\ b_passed (b_connection_made_with true Client tgt) = [].
Proof. exact without_negotiation_refuted. Qed.
Print Assumptions C05_without_negotiation_refuted.

(* (2) THE PLAINTEXT GUARDS ARE NOT OPAQUE.  In the PLAINTEXT phase a header block is handled by the translated guard of this end's
   role and by nothing else: passed -> ENCRYPTED phase entered; refused -> exception, everything as before *)
Theorem C05_bytes_plaintext_block_is_the_guard :
  forall (cert : Type) (tubid_of : cert -> list Z) decode (D : Type) parse has_error claimed_of pre_chk post_chk decision_chk redirect
         r my tgt (p : presented cert) st hdr,
  b_phase st = RPlaintext ->
  bhandle cert tubid_of decode D parse has_error claimed_of pre_chk post_chk decision_chk redirect r my tgt p st hdr =
  match plain_guard decode redirect r my hdr with
  | Ok _ => (enter_encrypted st, false)
  | Exc w => (raised st (b_phase st) (b_their st) w, true)
  end.
Proof. exact bhandle_plaintext_exact. Qed.
Print Assumptions C05_bytes_plaintext_block_is_the_guard.

(* for ARBITRARY BYTES in ANY chunking: the object has left the PLAINTEXT phase (TLS started, own hello sent, the peer's hello looked
   at, anything registered) only if one of the blocks received passed this end's plaintext handler *)
Theorem C05_bytes_leaves_plaintext_only_through_guard :
  forall (cert : Type) (tubid_of : cert -> list Z) decode (D : Type) parse has_error claimed_of pre_chk post_chk decision_chk redirect
         r my tgt (p : presented cert) (chunks : list (list Z)),
  b_phase (brecv cert tubid_of decode D parse has_error claimed_of pre_chk post_chk decision_chk redirect r my tgt p chunks) <> RPlaintext ->
  exists hdr, plain_guard decode redirect r my hdr = Ok tt.
Proof. exact bytes_leaves_plaintext_only_through_guard. Qed.
Print Assumptions C05_bytes_leaves_plaintext_only_through_guard.

(* handlePLAINTEXTServer reaches sendPlaintextServerAndStartENCRYPTED exactly when its statements before the listener lookup yield an
   id on which the SESSION model's server_lookup (C05_session_bound, C05_mismatch_no_connection) succeeds; the redirect table never
   makes it accept *)
Theorem C05_server_guard_is_server_lookup : forall decode redirect my hdr,
  plaintext_server_guard decode my redirect hdr = Ok tt <->
  exists req, plaintext_server_requested decode hdr = Ok req /\ server_lookup req my = Ok tt.
Proof. exact server_guard_is_server_lookup. Qed.
Print Assumptions C05_server_guard_is_server_lookup.

(* hence: a listener registers a key only on a connection over which a GET naming this very Tub arrived *)
Theorem C05_bytes_listener_attach_needs_get :
  forall (cert : Type) (tubid_of : cert -> list Z) decode (D : Type) parse has_error claimed_of pre_chk post_chk decision_chk redirect
         my tgt (p : presented cert) (chunks : list (list Z)),
  b_attached (brecv cert tubid_of decode D parse has_error claimed_of pre_chk post_chk decision_chk redirect Server my tgt p chunks) <> [] ->
  exists hdr, plaintext_server_requested decode hdr = Ok my /\ server_lookup my my = Ok tt /\ my <> [].
Proof. exact bytes_listener_attach_needs_get. Qed.
Print Assumptions C05_bytes_listener_attach_needs_get.

Theorem C05_real_listener_attach_needs_get :
  forall (cert : Type) (tubid_of : cert -> list Z) hf me redirect my tgt (p : presented cert) (chunks : list (list Z)),
  b_attached (real_recv_all hf me cert tubid_of redirect Server my tgt p chunks) <> [] ->
  exists hdr, plaintext_server_requested real_decode hdr = Ok my /\ server_lookup my my = Ok tt /\ my <> [].
Proof. exact real_listener_attach_needs_get. Qed.
Print Assumptions C05_real_listener_attach_needs_get.

(* (3) THE JOINTS between the three models.  A key the byte-level receive loop of a transport hands to Tub.brokerAttached is exactly
   this step of the Tub.brokers model (C05_table_invariant, C05_getReference_proven speak about `run` of such steps) ... *)
Theorem C05_bytes_attach_is_table_step :
  forall (cert : Type) (tubid_of : cert -> list Z) decode (D : Type) parse has_error claimed_of pre_chk post_chk decision_chk redirect
         r my tgt (p : presented cert) (chunks : list (list Z)) k t dropped arrives,
  In k (b_attached (brecv cert tubid_of decode D parse has_error claimed_of pre_chk post_chk decision_chk redirect r my tgt p chunks)) ->
  step cert tubid_of my t (Negotiated cert r tgt p (Some k) true dropped) =
    broker_attached cert k {| conn_cert := leaf p; conn_loop := false |} (if dropped then tbl_remove cert k t else t) /\
  (i_am_master my k = true ->
   step cert tubid_of my t (Negotiated cert r tgt p (Some k) arrives dropped) =
    broker_attached cert k {| conn_cert := leaf p; conn_loop := false |} (if dropped then tbl_remove cert k t else t)).
Proof. exact bytes_attach_is_table_step. Qed.
Print Assumptions C05_bytes_attach_is_table_step.

(* ... and this step of the TubRef-keyed model (C05_getReference_key_proven speaks about `krun` of such steps); on a client the key is
   the connector's own TubRef object, whose tub id is k *)
Theorem C05_bytes_attach_is_key_step :
  forall (cert : Type) (tubid_of : cert -> list Z) decode (D : Type) parse has_error claimed_of pre_chk post_chk decision_chk redirect
         r my (target : sref) (p : presented cert) (chunks : list (list Z)) k (t : ktable cert),
  In k (b_attached (brecv cert tubid_of decode D parse has_error claimed_of pre_chk post_chk decision_chk redirect r my (tub_of target) p chunks)) ->
  kstep cert tubid_of my t (KNegotiated cert r target p (Some k) true) =
    k_attached cert (if is_client r then target else tubref_of_id k) {| conn_cert := leaf p; conn_loop := false |} t /\
  (r = Client -> sr_tub target = Some k).
Proof. exact bytes_attach_is_key_step. Qed.
Print Assumptions C05_bytes_attach_is_key_step.
