from h import *
from foolscap.connections.tcp import convert_legacy_hint, DefaultTCP
import foolscap.connections.tcp as tcp, re
# use a fast equivalent to test the int() limit in isolation
try:
    print(int("1"*5000) > 0)
except Exception as e: print("C20 int limit:", type(e).__name__, str(e)[:60])
try:
    r = convert_legacy_hint("a:" + "1"*5000)   # matches immediately (no backtracking on success)
    print("C20 legacy ok", r[:20])
except Exception as e: print("C20 convert_legacy_hint raised:", type(e).__name__)
# C07 FLOAT split at constrained base root
from foolscap import banana, storage
from foolscap.constraint import IntegerConstraint
from foolscap.tokens import FLOAT
import struct
def run(chunks):
    b = storage.StorageBanana(); b.transport = storage.SerializerTransport(__import__('io').BytesIO())
    viol=[]; objs=[]
    b.connectionMade(); b.rootUnslicer.setConstraint(IntegerConstraint())
    b.reportViolation = lambda why: viol.append(str(why.value)) 
    b.rootUnslicer.receiveChild = lambda obj, rd=None: objs.append(obj)
    b.reportReceiveError = lambda f: viol.append("RXERR "+str(f.value))
    for c in chunks: b.dataReceived(c)
    return len(viol), objs
data = FLOAT + struct.pack("!d", 1.5) + b"\x05\x81"
print("C07 float whole:", run([data]))
print("C07 float split:", run([data[:3], data[3:]]))
print("C07 float bytewise:", run([data[i:i+1] for i in range(len(data))]))
