import sys, itertools
sys.path.insert(0,'/repo/src')
from twisted.internet import task, defer
from twisted.python import failure
import foolscap.reconnector as rc
class FakeRandom:
    def __init__(s): s.z=0.0
    def normalvariate(s, mu, sigma): return mu + s.z*sigma
class FakeTime:
    def __init__(s, clock): s.c=clock
    def time(s): return s.c.seconds()
def run(events):
    clock = task.Clock(); rc.reactor = clock; fr=FakeRandom(); rc.random=fr; rc.time=FakeTime(clock)
    log=[]
    class RRef:
        def __init__(s): s.cb=None
        def notifyOnDisconnect(s, cb, *a, **k): s.cb=cb; log.append("watch")
    class Tub:
        def __init__(s): s.pending=[]; s.n=0
        def getReference(s, url): d=defer.Deferred(); s.pending.append(d); s.n+=1; log.append("attempt"); return d
        def getConnectionInfoForFURL(s,u): return None
        def _removeReconnector(s, r): pass
    tub=Tub(); cbs=[]
    r = rc.Reconnector("pb://x@h:1/n", lambda rref: cbs.append(rref), (), {})
    r.startConnecting(tub)
    rrefs=[]; stopped=False; after_stop=[]; viol=[]
    def activities():
        a=0
        a+= len([d for d in tub.pending if not d.called])
        a+= len([x for x in rrefs if x.cb is not None])
        a+= len(clock.getDelayedCalls())
        return a
    for e in events:
        mark=(len(cbs), tub.n, len(clock.getDelayedCalls()))
        if e=="ok":
            ds=[d for d in tub.pending if not d.called]
            if not ds: continue
            x=RRef(); rrefs.append(x); ds[0].callback(x)
        elif e=="fail":
            ds=[d for d in tub.pending if not d.called]
            if not ds: continue
            ds[0].errback(failure.Failure(RuntimeError("nope")))
        elif e=="lost":
            xs=[x for x in rrefs if x.cb is not None]
            if not xs: continue
            cb=xs[0].cb; xs[0].cb=None; cb()
        elif e=="timer":
            dcs=clock.getDelayedCalls()
            if not dcs: continue
            clock.advance(max(0, dcs[0].getTime()-clock.seconds()))
        elif e=="reset": r.reset()
        elif e=="stop":
            if stopped: continue
            r.stopConnecting(); stopped=True
        if stopped:
            now=(len(cbs), tub.n, len(clock.getDelayedCalls()))
            if e!="stop" and (now[0]>mark[0] or now[1]>mark[1] or now[2]>mark[2]): viol.append(("after-stop", e, mark, now))
            if e=="stop" and now[2]!=0: viol.append(("timer-after-stop",))
        else:
            if activities()!=1: viol.append(("activities", activities(), e))
            for dc in clock.getDelayedCalls():
                dl = dc.getTime()-clock.seconds()
                if dl<0 or dl>3600*1.2: viol.append(("delay", dl))
    return viol
alphabet=["ok","fail","lost","timer","reset","stop"]
n=0; bad=[]
for L in range(1,7):
    for ev_ in itertools.product(alphabet, repeat=L):
        n+=1
        v=run(ev_)
        if v: bad.append((ev_, v))
print("C16 sequences:", n, "violations:", len(bad)); print(bad[:5])
