import sys, io, contextlib
sys.path.insert(0,'/repo/src')
from twisted.internet import task, defer
import foolscap.eventual as ev
clock=task.Clock(); ev.reactor=clock
from foolscap import storage
def turn():
    for i in range(10000):
        if not clock.getDelayedCalls(): return
        clock.advance(0)
def rt(obj, chunk=None):
    r=[]; storage.serialize(obj).addBoth(r.append); turn()
    data=r[0]
    if not isinstance(data, bytes): return ("SERFAIL", data)
    b=storage.StorageBanana(); b.unslicerClass=storage.StorageRootUnslicer; b.connectionMade(); d=b.prepare(); out=[]
    d.addBoth(out.append)
    try:
        if chunk:
            for i in range(0,len(data),chunk): b.dataReceived(data[i:i+chunk])
        else: b.dataReceived(data)
    except Exception as e: return ("RXEXC", type(e).__name__, str(e)[:80])
    turn()
    if b.violation: return ("VIOL", str(b.violation.value)[:80])
    return ("OK", out[0] if out else "NOTHING")
def show(name, obj, check):
    for ch in (None, 1):
        try:
            res=rt(obj, ch)
            ok = res[0]=="OK" and check(res[1])
        except Exception as e:
            res=("EXC", type(e).__name__, str(e)[:60]); ok=False
        print("C01 %-28s chunk=%-4s %s %s" % (name, ch, "ok" if ok else "FAIL", "" if ok else repr(res)[:160]))
l=[]; l.append(l)
show("list in itself", l, lambda r: r[0] is r)
t=([],); t[0].append(t)
show("tuple<->list cycle", t, lambda r: isinstance(r,tuple) and r[0][0] is r)
shared=[1,2]; show("aliasing", [shared, shared, (shared,)], lambda r: r[0] is r[1] and r[2][0] is r[0])
tt=(1,2); show("tuple aliasing", [tt, tt], lambda r: r[0] is r[1] and r[0]==(1,2))
s=set(); show("set in list twice", [s, s], lambda r: r[0] is r[1])
d={}; d['self']=d; show("dict in itself", d, lambda r: r['self'] is r)
lst=[]; fs=frozenset([ (1, 2) ]); show("frozenset", [fs, fs], lambda r: r[0]==fs and isinstance(r[0],frozenset))
# cycle through tuple inside a set-like? list -> tuple -> list
a=[]; tup=(a, 1); a.append(tup); show("list->tuple->list", a, lambda r: r[0][0] is r)
# tuple containing tuple that references outer list
outer=[]; inner=((outer,),); outer.append(inner); show("nested tuple cycle", outer, lambda r: r[0][0][0] is r)
# dict with tuple key whose element is shared
k=(1,2); show("dict tuple key", {k: [k]}, lambda r: list(r.keys())[0]==(1,2))
for v in (2**31-1, 2**31, -2**31, -2**31-1, 2**64, -(2**64), 0, -1, 2**448, 2**8000):
    show("int %s"%(str(v)[:12]), v, lambda r, v=v: r==v and type(r) is int)
import math, struct
nanbits = struct.unpack("!d", bytes.fromhex("7ff0000000000001"))[0]
show("float sNaN payload", nanbits, lambda r: struct.pack("!d", r)==bytes.fromhex("7ff0000000000001"))
show("float -0.0", -0.0, lambda r: math.copysign(1,r)==-1)
show("mixed keys dict", {1:2,'a':3}, lambda r: r=={1:2,'a':3})
show("bytes/text/none/bool", [b"", "", None, True, False, "\U0001f600", b"\x00\xff"], lambda r: r==[b"", "", None, True, False, "\U0001f600", b"\x00\xff"] and r[3] is True)
import decimal
show("decimal", [decimal.Decimal("1.10"), decimal.Decimal("-0"), decimal.Decimal("NaN")], lambda r: str(r[0])=="1.10" and str(r[1])=="-0" and str(r[2])=="NaN")
