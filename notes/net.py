import sys
sys.path.insert(0,'/repo/src')
from zope.interface import implementer
from twisted.internet import task, defer, interfaces
from twisted.python import failure
from twisted.internet.error import ConnectionDone
import foolscap.eventual as ev, foolscap.negotiate as neg, foolscap.connection as conn, foolscap.banana as ban
from foolscap import pb, broker
from foolscap.ipb import IConnectionHintHandler
from foolscap.api import Tub, Referenceable
from n0 import mk
clock = task.Clock()
for m in (ev, neg, conn, ban): m.reactor = clock
class FakeTime:
    def time(s): return clock.seconds()
ban.time = FakeTime(); neg.time = FakeTime(); conn.time=FakeTime()
neg.crypto.peerFromTransport = lambda transport: transport.peer_cert
class Addr: host="fake"; port=0
class End:
    """one end of an in-memory connection; bytes written are queued on the Link"""
    def __init__(s, link, side): s.link=link; s.side=side; s.closed=False; s.peer_cert=None; s.protocol=None
    def write(s, d):
        if not s.closed: s.link.q[s.side].append(d)
    def startTLS(s, ctx): pass
    def setTcpNoDelay(s, x): pass
    def getPeer(s): return broker.LoopbackAddress()
    def getHost(s): return broker.LoopbackAddress()
    def loseConnection(s, *a):
        if not s.closed:
            s.closed=True; s.link.q[s.side].append(None)   # FIN travels in order
            s.link.pending_local_close.append(s)
class Link:
    def __init__(s, net, name): s.q={0:[],1:[]}; s.ends=[End(s,0),End(s,1)]; s.name=name; s.pending_local_close=[]; net.links.append(s)
class Net:
    def __init__(s): s.links=[]; s.tubs={}
    def deliverable(s):
        out=[]
        for l in s.links:
            for side in (0,1):
                if l.q[side]: out.append((l,side))
            for e in l.pending_local_close: out.append((l,('close',e)))
        return out
    def step(s, choice):
        l, what = choice
        if isinstance(what, tuple):
            e=what[1]; l.pending_local_close.remove(e)
            if e.protocol and not getattr(e,'lost',False): e.lost=True; e.protocol.connectionLost(failure.Failure(ConnectionDone()))
        else:
            d = l.q[what].pop(0); dst = l.ends[1-what]
            if d is None:
                if not getattr(dst,'lost',False):
                    dst.lost=True; dst.closed=True; dst.protocol.connectionLost(failure.Failure(ConnectionDone()))
            elif not dst.closed and not getattr(dst,'lost',False):
                dst.protocol.dataReceived(d)
        s.turn()
    def turn(s):
        for i in range(10000):
            if not any(dc.getTime()<=clock.seconds() for dc in clock.getDelayedCalls()): return
            clock.advance(0)
    def run(s, rng=None, maxsteps=100000):
        n=0
        while True:
            c=s.deliverable()
            if not c: return n
            s.step(rng.choice(c) if rng else c[0]); n+=1
            if n>maxsteps: raise RuntimeError("no quiescence")
net=Net()
@implementer(interfaces.IStreamClientEndpoint)
class FakeEndpoint:
    def __init__(s, target_tub): s.t=target_tub
    def connect(s, factory):
        link=Link(net, "L%d"%len(net.links))
        cend, send_ = link.ends
        pc = factory.buildProtocol(Addr())
        lst = s.t.getListeners()[0]
        ps = lst.buildProtocol(Addr())
        cend.protocol=pc; send_.protocol=ps
        cend.peer_cert = s.t.myCertificate; send_.peer_cert = factory.tc.tub.myCertificate
        ps.makeConnection(send_); pc.makeConnection(cend)
        return defer.succeed(pc)
@implementer(IConnectionHintHandler)
class FakeHandler:
    def hint_to_endpoint(s, hint, reactor, update_status):
        name = hint.split(":")[1]
        return FakeEndpoint(net.tubs[name]), name
def make_tub(name, negclass=None):
    t=Tub(certData=mk())
    if negclass: t.negotiationClass=negclass
    t.removeAllConnectionHintHandlers(); t.addConnectionHintHandler("fake", FakeHandler())
    # a Listener object without a real port
    l = pb.Listener.__new__(pb.Listener); l._tub=t; l._test_options={}; l._redirects={}; l._negotiationClass=t.negotiationClass; l._lp=None; l._ep="fake"
    t.listeners.append(l)
    t.setLocation("fake:%s:1"%name); t.startService(); net.tubs[name]=t
    return t
