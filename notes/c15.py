import sys, random
sys.path.insert(0,'/repo/src')
from twisted.internet import task, defer
import foolscap.eventual as ev, foolscap.banana as ban
from foolscap import broker
from foolscap.referenceable import TubRef
from foolscap.tokens import PING, PONG
class FT:
    def __init__(s, clock): s.out=[]; s.closed_at=None; s.c=clock
    def write(s,d): s.out.append((s.c.seconds(), d))
    def loseConnection(s, why=None):
        if s.closed_at is None: s.closed_at=s.c.seconds()
    def getPeer(s): return broker.LoopbackAddress()
    def getHost(s): return broker.LoopbackAddress()
class FakeTime:
    def __init__(s,c): s.c=c
    def time(s): return s.c.seconds()
def run(K, T, arrivals, horizon):
    clock=task.Clock(); ev.reactor=clock; ban.reactor=clock; ban.time=FakeTime(clock)
    b=broker.Broker(TubRef("x"), keepaliveTimeout=K, disconnectTimeout=T)
    t=FT(clock); b.transport=t; b.connectionMade()
    events=sorted(arrivals)
    now=0.0
    while now < horizon:
        nxt=[dc.getTime() for dc in clock.getDelayedCalls()]
        cand=[x for x in events if x>=now]
        tnext=min(nxt+cand[:1]+[horizon])
        clock.advance(max(0,tnext-clock.seconds())); now=clock.seconds()
        while events and events[0]<=now:
            events.pop(0)
            if t.closed_at is None: b.dataReceived(PONG)
        if t.closed_at is not None: break
        if now>=horizon: break
    return t, b, clock
rng=random.Random(1); bad=[]
for trial in range(3000):
    K=rng.choice([None,2,5]); T=rng.choice([None,3,7,10])
    n=rng.randint(0,12); arrivals=[]; cur=0.0
    for i in range(n):
        cur+= rng.choice([0.5, 1, 2, T-0.001 if T else 1, T+0.001 if T else 1, (2*T if T else 3)])
        arrivals.append(round(cur,3))
    horizon=(arrivals[-1] if arrivals else 0)+ 3*(T or 10)+1
    t,b,clock=run(K,T,arrivals,horizon)
    pts=[0.0]+arrivals
    if T:
        gaps=[(pts[i+1]-pts[i]) for i in range(len(pts)-1)]
        # first idle period longer than T (including trailing)
        must=None
        for i in range(len(pts)):
            end = pts[i+1] if i+1<len(pts) else float('inf')
            if end-pts[i] > 2*T+0.2: must=pts[i]+2*T+0.2; break
        if must is not None and (t.closed_at is None or t.closed_at>must+1e-6): bad.append(("late/never",K,T,arrivals,t.closed_at,must))
        if all(g<=T for g in gaps) and t.closed_at is not None and t.closed_at <= (arrivals[-1] if arrivals else 0)+1e-9: bad.append(("early",K,T,arrivals,t.closed_at))
    else:
        if t.closed_at is not None: bad.append(("closed-without-T",K,T))
print("C15 trials 3000 bad:", len(bad)); print(bad[:3])
# timers cancelled on close
clock=task.Clock(); ev.reactor=clock; ban.reactor=clock; ban.time=FakeTime(clock)
b=broker.Broker(TubRef("x"), keepaliveTimeout=2, disconnectTimeout=3); t=FT(clock); b.transport=t; b.connectionMade()
from twisted.python import failure; from twisted.internet.error import ConnectionDone
b.connectionLost(failure.Failure(ConnectionDone())); 
for i in range(5): clock.advance(0)
print("C15 leftover delayed calls after close:", [str(dc.func) for dc in clock.getDelayedCalls()])
