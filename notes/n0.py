import sys, time
sys.path.insert(0,'/repo/src')
t0=time.time()
from cryptography import x509
from cryptography.x509.oid import NameOID
from cryptography.hazmat.primitives import hashes, serialization
from cryptography.hazmat.primitives.asymmetric import rsa, ec
import datetime
def mk():
    key = ec.generate_private_key(ec.SECP256R1())
    name = x509.Name([x509.NameAttribute(NameOID.COMMON_NAME, u"newpb_thingy")])
    now = datetime.datetime(2020,1,1)
    cert = (x509.CertificateBuilder().subject_name(name).issuer_name(name).public_key(key.public_key())
            .serial_number(1).not_valid_before(now).not_valid_after(now+datetime.timedelta(days=36500))
            .sign(key, hashes.SHA256()))
    pem = key.private_bytes(serialization.Encoding.PEM, serialization.PrivateFormat.TraditionalOpenSSL, serialization.NoEncryption()) + cert.public_bytes(serialization.Encoding.PEM)
    return pem
if __name__=='__main__':
  pem = mk(); print("pem made %.2fs"%(time.time()-t0))
from foolscap.api import Tub
if __name__=='__main__':
  try:
      t = Tub(certData=pem); print("Tub from certData ok:", t.tubID)
  except Exception as e:
      import traceback; traceback.print_exc()
