from net import *
import random, io, contextlib
class T(Referenceable):
    def remote_hi(s): return 42
def trial(seed):
    net.links.clear(); net.tubs.clear()
    A=make_tub("a"); B=make_tub("b")
    fa=A.registerReference(T()); fb=B.registerReference(T())
    res={}
    for k,(tub,furl) in {"a->b":(A,fb),"b->a":(B,fa)}.items():
        res[k]=[]; tub.getReference(furl).addCallback(lambda rr: rr.callRemote("hi")).addBoth(res[k].append)
    net.turn()
    steps=net.run(random.Random(seed))
    def ends(tub):
        bs=list(tub.brokers.values())
        return [(b.transport.link.name) for b in bs if not b.disconnected]
    return ends(A), ends(B), {k:[getattr(x,'type',x) for x in v] for k,v in res.items()}, steps, len(net.links)
bad=0
with contextlib.redirect_stdout(io.StringIO()) as junk:
    out=[trial(s) for s in range(300)]
for ea,eb,res,steps,nl in out:
    if ea!=eb or len(ea)>1 or any(len(v)!=1 for v in res.values()): bad+=1
print("C14 crossfire trials:", len(out), "non-converged or unresolved:", bad)
print("sample:", out[0]); print("outcomes:", { (tuple(ea),tuple(eb)) for ea,eb,_,_,_ in out}.__len__(), "distinct; results kinds", {str(sorted((k,str(v)) for k,v in r.items())) for _,_,r,_,_ in out})
