import sys
sys.path.insert(0,'/repo/src')
from twisted.internet import task, defer
import foolscap.eventual as ev
clock = task.Clock(); ev.reactor = clock
from foolscap import broker
from foolscap.referenceable import TubRef
from foolscap.api import Referenceable
import gc
def turn():
    for i in range(10000):
        if not clock.getDelayedCalls(): return
        clock.advance(0)
class QT:
    """transport whose writes are queued as separate messages until deliver()"""
    connected=True
    def __init__(s): s.q=[]; s.cur=[]
    def write(s, data): s.cur.append(data)
    def endmsg(s):
        if s.cur: s.q.append(b"".join(s.cur)); s.cur=[]
    def deliver(s, n=1):
        s.endmsg()
        for i in range(n):
            if s.q: s.peer.dataReceived(s.q.pop(0)); turn_no_io()
    def loseConnection(s, why=None): pass
    def getPeer(s): return broker.LoopbackAddress()
    def getHost(s): return broker.LoopbackAddress()
def turn_no_io():
    turn()
    for t in TR: t.endmsg()
O = broker.Broker(TubRef("owner")); H = broker.Broker(TubRef("holder"))
tO=QT(); tO.peer=H; O.transport=tO      # O -> H
tH=QT(); tH.peer=O; H.transport=tH      # H -> O
TR=[tO,tH]
O.connectionMade(); H.connectionMade()
class Target(Referenceable):
    def __init__(s): s.got=[]
    def remote_take(s, x): s.got.append(x)
    def remote_drop(s): s.got.clear()
target = Target()
# bootstrap: O holds a proxy to H's target
tr = H.getTrackerForMyReference(target.processUniqueID(), target); tr.send()
rr = O.getTrackerForYourReference(tr.clid, None).getRef()
class X(Referenceable): pass
x = X()
def show(tag):
    print(tag, "| O.refcount", {k:v.refcount for k,v in O.myReferenceByCLID.items()},
          "| H.import", {k:(v.received_count, v.ref is not None and v.ref() is not None) for k,v in H.yourReferenceByCLID.items() if k!=0},
          "| got", [id(p) for p in target.got], "| O->H q", len(tO.q), "H->O q", len(tH.q))
rr.callRemoteOnly("take", x); turn_no_io(); tO.deliver(); show("send1 delivered")
p1 = target.got[0]
target.got.clear(); del p1; gc.collect(); turn_no_io(); show("proxy1 dropped, decref#1 queued")
rr.callRemoteOnly("take", x); turn_no_io(); show("send2 queued")         # before O sees decref#1
tH.deliver(); show("O processed decref#1 (ack#1 queued)")
tO.deliver(1); show("H got MyRef#2")                                     # H gets send2, NOT yet ack#1
target.got.clear(); gc.collect(); turn_no_io(); show("proxy2 dropped, decref#2 queued")
tO.deliver(1); show("H got ack#1")
rr.callRemoteOnly("take", x); turn_no_io(); show("send3 queued")         # before O sees decref#2
tO.deliver(1); show("H got MyRef#3")
p3 = target.got[0]
tH.deliver(); show("O processed decref#2")
tO.deliver(); show("H got ack#2")
rr.callRemoteOnly("take", x); turn_no_io(); tO.deliver(); show("send4 delivered")
print("same proxy for send3 and send4 while held:", target.got[0] is target.got[1], "interfaces:", [p.tracker.interfaceName for p in target.got])
