(* THROW-AWAY SPIKE from the design round (not part of the development). *)
From Coq Require Import List NArith Lia Bool Arith.
Import ListNotations.
Open Scope N_scope.

(* ---- header scan: up to 64 bytes < 128, then a type byte >= 128 ---- *)
Inductive hres := HNeed | HBad | HOk (h : list N) (t : N) (rest : list N).

Fixpoint scan (n : nat) (acc : list N) (l : list N) {struct l} : hres :=
  match l with
  | [] => HNeed
  | b :: r => if 128 <=? b then HOk (rev acc) b r
              else match n with O => HBad | S n' => scan n' (b :: acc) r end
  end.

Lemma scan_ok_app n acc l m h t r :
  scan n acc l = HOk h t r -> scan n acc (l ++ m) = HOk h t (r ++ m).
Proof.
  revert n acc; induction l as [|b l IH]; intros n acc; cbn [scan app]; [discriminate|].
  destruct (128 <=? b); [intros H; inversion H; subst; reflexivity|].
  destruct n; [discriminate|]. apply IH.
Qed.

Lemma scan_bad_app n acc l m : scan n acc l = HBad -> scan n acc (l ++ m) = HBad.
Proof.
  revert n acc; induction l as [|b l IH]; intros n acc; cbn [scan app]; [discriminate|].
  destruct (128 <=? b); [discriminate|]. destruct n; [reflexivity|]. apply IH.
Qed.

Lemma scan_ok_length n acc l h t r : scan n acc l = HOk h t r -> (length r < length l)%nat.
Proof.
  revert n acc; induction l as [|b l IH]; intros n acc; cbn [scan app]; [discriminate|].
  destruct (128 <=? b); [intros H; inversion H; subst; cbn [length]; lia|].
  destruct n; [discriminate|]. intros H; apply IH in H; cbn [length]; lia.
Qed.

Fixpoint b128 (h : list N) : N := match h with [] => 0 | d :: r => d + 128 * b128 r end.

(* ---- a two-token language: INT (0x81, no body) and STRING (0x82, body = header) ---- *)
Inductive ev := EInt (n : N) | EStr (b : list N) | ERej (t : N) | EBad.

Section Feed.
Variable accept : N -> N -> bool.   (* type byte, header value: the schema's verdict *)

Record st := { buf : list N; skip : N; dead : bool }.
Definition st0 := {| buf := []; skip := 0; dead := false |}.

(* one pass over an accumulated buffer; fuel = S (length buffer) *)
Fixpoint loop (fuel : nat) (b : list N) : st * list ev :=
  match fuel with
  | O => ({| buf := b; skip := 0; dead := false |}, [])
  | S f =>
    match scan 64 [] b with
    | HNeed => ({| buf := b; skip := 0; dead := false |}, [])
    | HBad => ({| buf := []; skip := 0; dead := true |}, [EBad])
    | HOk h t rest =>
      let n := b128 h in
      if t =? 129 then
        let e := if accept t n then EInt n else ERej t in
        let '(s, es) := loop f rest in (s, e :: es)
      else if t =? 130 then
        if accept t n then
          if n <=? N.of_nat (length rest) then
            let '(s, es) := loop f (skipn (N.to_nat n) rest) in
            (s, EStr (firstn (N.to_nat n) rest) :: es)
          else ({| buf := b; skip := 0; dead := false |}, [])       (* wait, header kept *)
        else
          if n <=? N.of_nat (length rest) then
            let '(s, es) := loop f (skipn (N.to_nat n) rest) in (s, ERej t :: es)
          else ({| buf := []; skip := n - N.of_nat (length rest); dead := false |}, [ERej t])
      else ({| buf := []; skip := 0; dead := true |}, [EBad])
    end
  end.

Definition feed (s : st) (c : list N) : st * list ev :=
  if dead s then (s, [])
  else if (0 <? skip s) && (N.of_nat (length c) <=? skip s)
       then ({| buf := []; skip := skip s - N.of_nat (length c); dead := false |}, [])
       else let c' := skipn (N.to_nat (skip s)) c in
            let b := buf s ++ c' in loop (S (length b)) b.

Definition feed2 (s : st) (a b : list N) : st * list ev :=
  let '(s1, e1) := feed s a in let '(s2, e2) := feed s1 b in (s2, e1 ++ e2).

(* invariant of reachable states: when skipping, the buffer is empty *)
Definition wf (s : st) := (skip s <> 0 -> buf s = []) /\ (dead s = true -> buf s = [] /\ skip s = 0).


Lemma loop_fuel : forall f1 f2 b, (length b < f1)%nat -> (length b < f2)%nat -> loop f1 b = loop f2 b.
Proof.
  induction f1 as [|f1 IH]; intros f2 b H1 H2; [lia|].
  destruct f2 as [|f2]; [lia|]. cbn [loop].
  destruct (scan 64 [] b) as [| |h t rest] eqn:Es; try reflexivity.
  pose proof (scan_ok_length _ _ _ _ _ _ Es) as Hl.
  assert (Hs: forall k, (length (skipn k rest) <= length rest)%nat) by (intros; rewrite skipn_length; lia).
  destruct (t =? 129).
  - rewrite (IH f2 rest) by lia. reflexivity.
  - destruct (t =? 130); [|reflexivity].
    destruct (accept t (b128 h)); destruct (b128 h <=? N.of_nat (length rest)); try reflexivity;
      rewrite (IH f2 (skipn (N.to_nat (b128 h)) rest)) by (specialize (Hs (N.to_nat (b128 h))); lia); reflexivity.
Qed.

(* spike ends here: loop_fuel closes in 12 lines; run_app (loop on x++y = loop on x, then feed y)
   is a case analysis on scan/verdict/body-complete whose cases close with scan_ok_app, firstn/skipn
   arithmetic and loop_fuel.  See DESIGN.md C07. *)
End Feed.
