from h import *
from foolscap.api import Referenceable, RemoteInterface
from foolscap.schema import ListOf, TupleOf, ChoiceOf, UnicodeConstraint, IntegerConstraint
class T(Referenceable):
    def __init__(s): s.calls=[]
    def remote_m(s, x): s.calls.append(x); return x
    def remote_boom(s): raise ValueError("é"*1000)
# C04: LIFO send queue while streaming stalled
from foolscap import slicer
class Stall(slicer.BaseSlicer):
    opentype=('list',)
    def __init__(s): s.d=defer.Deferred()
    def sliceBody(s, streamable, banana):
        yield 1
        yield s.d
        yield 2
tb,cb = pair(); t=T(); rr=export(tb,cb,t)
st=Stall()
rr.callRemote("m", st)
for i in range(3): rr.callRemote("m", i)
flush(); st.d.callback(None); flush()
print("C04 order:", t.calls)
# C10 mixed dict keys
tb,cb = pair(); t=T(); rr=export(tb,cb,t)
res=[]
rr.callRemote("m", {1:2,'a':3}).addBoth(lambda r: res.append(("mixed",r)))
rr.callRemote("m", 5).addBoth(lambda r: res.append(("sib",r)))
flush()
print("C10 mixed:", [(a, getattr(r,'type',r)) for a,r in res], "disconnected:", cb.disconnected, tb.disconnected)
# C10 non-ascii long exception message
tb,cb = pair(); t=T(); rr=export(tb,cb,t)
res=[]
rr.callRemote("boom").addBoth(lambda r: res.append(r)); flush()
print("C10 boom:", res[0].type, str(res[0].value)[:80])
