from h import *
from zope.interface import implementer
from foolscap.api import Referenceable, RemoteInterface
from foolscap.schema import ListOf, Any
import gc, weakref, io, os, tempfile, json
class RI(RemoteInterface):
    def m(a=int, b=Any()): return None
@implementer(RI)
class T(Referenceable):
    def remote_m(s,a,b): pass
class Obj(Referenceable): pass
tb,cb = pair(); t=T(); rr=export(tb,cb,t,None)   # caller has no schema -> sends bad 'a'
o=Obj(); res=[]
rr.callRemote("m", "notint", o).addBoth(res.append); flush(); gc.collect(); flush()
print("C09 after rejected call: result", [getattr(r,'type',r) for r in res])
print("C09 owner(cb) export table:", {k:v.refcount for k,v in cb.myReferenceByCLID.items()}, "holder(tb) import:", {k:v.received_count for k,v in tb.yourReferenceByCLID.items() })
# C18 json
from foolscap.logging import log, flogfile
L = log.FoolscapLogger()
d = tempfile.mkdtemp()
class Bad:
    def __repr__(s): raise RuntimeError("no repr")
cyc=[]; cyc.append(cyc)
for name, kw in [("tuplekey", {"x": {(1,2):3}}), ("cycle", {"x": cyc}), ("badrepr", {"x": Bad()}), ("ok", {"x":1})]:
    f = io.BytesIO()
    n = L.msg("hello", **kw)
    ev_ = [e for e in L.get_buffered_events() if e['num']==n][0]
    try:
        flogfile.serialize_wrapper(f, ev_, from_="local", rx_time=0.0); print("C18", name, "serialized ok", len(f.getvalue()))
    except Exception as e:
        print("C18", name, "serialize raised", type(e).__name__, e)
L.setLogDir(d)
from foolscap.logging.incident import NonTrailingIncidentReporter
L.setIncidentReporterFactory(NonTrailingIncidentReporter)
r = L.msg("trigger", level=log.WEIRD); flush()
print("C18 incident files:", os.listdir(d), "declared", L.incidents_declared, "recorded", L.incidents_recorded)
print("C18 format_message missing key:", repr(log.format_message({"format":"%(a)s %(b)s","a":1})) if True else None)
