import sys
sys.path.insert(0,'/repo/src')
from twisted.internet import task, defer
from twisted.python import failure, log as twlog
import foolscap.eventual as ev
clock = task.Clock()
ev.reactor = clock
import foolscap.banana as banana_mod
from foolscap import broker
from foolscap.referenceable import TubRef
from foolscap.test.common import Loopback
def flush(n=100000):
    for i in range(n):
        if not clock.getDelayedCalls(): return
        clock.advance(0)
    raise RuntimeError("no quiesce")
def pair():
    tb = broker.Broker(TubRef("targetBroker")); cb = broker.Broker(TubRef("callingBroker"))
    t1 = Loopback(); t1.peer=cb; t1.protocol=tb; tb.transport=t1
    t2 = Loopback(); t2.peer=tb; t2.protocol=cb; cb.transport=t2
    tb.connectionMade(); cb.connectionMade()
    return tb, cb
def export(tb, cb, target, iname=None):
    tr = tb.getTrackerForMyReference(target.processUniqueID(), target); tr.send()
    return cb.getTrackerForYourReference(tr.clid, iname).getRef()
