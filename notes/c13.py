from net import *
import io, contextlib, itertools
class T(Referenceable):
    def remote_hi(s): return 42
def mkneg(vmin,vmax,vocmin,vocmax):
    class N(neg.Negotiation):
        minVersion=vmin; maxVersion=vmax; initialVocabTableRange=(vocmin,vocmax)
    return N
certs=[mk(), mk()]
def trial(ra, rb, swap):
    net.links.clear(); net.tubs.clear()
    import foolscap.api
    pems = certs[::-1] if swap else certs
    def mt(name, pem, r):
        t=Tub(certData=pem); t.negotiationClass=mkneg(*r)
        t.removeAllConnectionHintHandlers(); t.addConnectionHintHandler("fake", FakeHandler())
        l = pb.Listener.__new__(pb.Listener); l._tub=t; l._test_options={}; l._redirects={}; l._negotiationClass=t.negotiationClass; l._lp=None; l._ep="fake"
        t.listeners.append(l); t.setLocation("fake:%s:1"%name); t.startService(); net.tubs[name]=t; return t
    A=mt("a",pems[0],ra); B=mt("b",pems[1],rb)
    fb=B.registerReference(T()); res=[]
    A.getReference(fb).addCallback(lambda rr: rr.callRemote("hi")).addBoth(res.append)
    net.turn(); net.run()
    def params(t):
        bs=[b for b in t.brokers.values() if not b.disconnected]
        return [(b._banana_decision_version, len(b.incomingVocabulary)) for b in bs]
    return params(A), params(B), [getattr(x,'type',x) for x in res], A.tubID > B.tubID
ranges=[(a,b,c,d) for a in (1,2,3) for b in (1,2,3) if a<=b for c in (0,1) for d in (0,1) if c<=d]
bad=[]; n=0; kinds={}
with contextlib.redirect_stdout(io.StringIO()):
    for ra in ranges:
        for rb in ranges:
            for swap in (False,True):
                n+=1
                pa,pb_,res,amaster=trial(ra,rb,swap)
                vs=set(range(ra[0],ra[1]+1))&set(range(rb[0],rb[1]+1)); vo=set(range(ra[2],ra[3]+1))&set(range(rb[2],rb[3]+1))
                expect = [(max(vs), {0:0,1:25}[max(vo)])] if vs and vo else []
                ok = (pa==pb_==expect) and len(res)==1 and ((res==[42]) == bool(expect))
                kinds[(bool(expect), str(res[0]) if res else None)] = kinds.get((bool(expect), str(res[0]) if res else None),0)+1
                if not ok: bad.append((ra,rb,swap,pa,pb_,res,expect))
print("C13 configs:", n, "bad:", len(bad)); print(bad[:3]); print(kinds)
