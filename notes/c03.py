import sys
sys.path.insert(0,'/repo/src')
from twisted.internet import task, defer
from twisted.python import failure, log as twlog
from twisted.internet.error import ConnectionDone, ConnectionLost
import foolscap.eventual as ev
clock = task.Clock(); ev.reactor = clock
from foolscap import broker
from foolscap.referenceable import TubRef
from foolscap.api import Referenceable
from foolscap.ipb import DeadReferenceError
import io, contextlib
def turn():
    for i in range(100000):
        if not clock.getDelayedCalls(): return
        clock.advance(0)
class QT:
    def __init__(s): s.out=bytearray(); s.closed=False
    def write(s, d):
        if not s.closed: s.out += d
    def loseConnection(s, why=None): s.closed=True
    def getPeer(s): return broker.LoopbackAddress()
    def getHost(s): return broker.LoopbackAddress()
class Unsendable: pass
class T(Referenceable):
    def __init__(s): s.pending=[]
    def remote_ok(s, x): return x
    def remote_boom(s): raise ValueError("boom")
    def remote_late(s): d=defer.Deferred(); s.pending.append(d); return d
    def remote_badresult(s): return Unsendable()
def scenario(cutA, cutB):
    """A=caller, B=callee. deliver at most cutA bytes A->B and cutB bytes B->A (in 7-byte chunks), then cut."""
    A = broker.Broker(TubRef("callee")); B = broker.Broker(TubRef("caller"))
    tA=QT(); tB=QT(); A.transport=tA; B.transport=tB
    A.connectionMade(); B.connectionMade()
    t=T(); tr = B.getTrackerForMyReference(t.processUniqueID(), t); tr.send()
    rr = A.getTrackerForYourReference(tr.clid, None).getRef()
    fired = {}
    def watch(name, d):
        fired[name]=[]
        d.addCallbacks(lambda r: fired[name].append(("cb",)), lambda f: fired[name].append(("eb", f.type.__name__)))
    watch("ok", rr.callRemote("ok", [1,2,3]))
    watch("boom", rr.callRemote("boom"))
    watch("late", rr.callRemote("late"))
    watch("unsendable_arg", rr.callRemote("ok", Unsendable()))
    watch("badresult", rr.callRemote("badresult"))
    rr.callRemoteOnly("ok", 5)
    watch("ok2", rr.callRemote("ok", b"x"*50))
    turn()
    sentA=0; sentB=0
    progress=True
    while progress:
        progress=False
        if sentA < min(cutA, len(tA.out)):
            n=min(7, min(cutA,len(tA.out))-sentA); B.dataReceived(bytes(tA.out[sentA:sentA+n])); sentA+=n; progress=True; turn()
        if sentB < min(cutB, len(tB.out)):
            n=min(7, min(cutB,len(tB.out))-sentB); A.dataReceived(bytes(tB.out[sentB:sentB+n])); sentB+=n; progress=True; turn()
    totalA, totalB = len(tA.out), len(tB.out)
    why = failure.Failure(ConnectionDone())
    A.connectionLost(why); B.connectionLost(why); turn()
    for d in t.pending:
        d.callback("late-result")   # callee finishes after loss
    turn()
    bad = {k:v for k,v in fired.items() if len(v)!=1}
    return bad, dict(A.waitingForAnswers), totalA, totalB, fired
with contextlib.redirect_stdout(io.StringIO()):
    _,_,totalA,totalB,f0 = scenario(10**9,10**9)
print("full run:", {k:v for k,v in f0.items()}, "bytes A->B", totalA, "B->A", totalB)
problems=[]
n=0
with contextlib.redirect_stdout(io.StringIO()):
    for cutA in list(range(0,totalA+1,3))+[totalA]:
        for cutB in (0, totalB//3, totalB):
            n+=1
            bad, waiting, *_ = scenario(cutA, cutB)
            if bad or waiting: problems.append((cutA,cutB,bad,list(waiting)))
    for cutB in range(0,totalB+1,2):
        n+=1
        bad, waiting, *_ = scenario(10**9, cutB)
        if bad or waiting: problems.append(("all",cutB,bad,list(waiting)))
print("scenarios:", n, "problems:", len(problems)); print(problems[:5])
