from h import *
from zope.interface import implementer
from foolscap.api import Referenceable, RemoteInterface
from foolscap.schema import ListOf, TupleOf, ChoiceOf, UnicodeConstraint, IntegerConstraint, ByteStringConstraint
from foolscap.tokens import *
from foolscap.banana import int2b128
import weakref, gc
# C07 sendError with long message: 65 header bytes with no type byte
tb,cb = pair()
try:
    tb.dataReceived(b"\x00"*70 + b"\x00"*300)
    print("C07 longheader: no exception; abandoned=", tb.connectionAbandoned, "connected:", tb.transport.connected)
except Exception as e:
    print("C07 longheader: exception escaped:", type(e).__name__, e)
# C12 ChoiceOf containers
class RI(RemoteInterface):
    def m(x=ChoiceOf(ListOf(int), TupleOf(int,int))): return None
    def r(): return TupleOf(int,int)
    def u(): return UnicodeConstraint(maxLength=3)
    def i(): return IntegerConstraint(maxBytes=-1)
    def lu(x=ListOf(UnicodeConstraint(maxLength=3), maxLength=2)): return None
@implementer(RI)
class T(Referenceable):
    def __init__(s): s.calls=[]
    def remote_m(s,x): s.calls.append(x)
    def remote_lu(s,x): s.calls.append(x)
tb,cb = pair(); t=T(); rr=export(tb,cb,t,"RI")
res=[]
rr.callRemote("m",[1,2]).addBoth(res.append); flush()
print("C12 choice:", res, "disconnected", cb.disconnected)
# C02 results: craft answer tokens by hand: caller cb waits for answer to req 1
def tok_int(n): 
    out=[]; int2b128(n,out.append); return b"".join(out)+INT
def tok_str(s):
    out=[]; int2b128(len(s),out.append); return b"".join(out)+STRING+s
def OPEN_(n): 
    out=[]; int2b128(n,out.append); return b"".join(out)+OPEN
def CLOSE_(n):
    out=[]; int2b128(n,out.append); return b"".join(out)+CLOSE
for meth, body in [("r", OPEN_(1)+tok_str(b"tuple")+tok_int(7)+CLOSE_(1)),   # short tuple
                   ("u", OPEN_(1)+tok_str(b"unicode")+tok_str(b"toolong")+CLOSE_(1)),
                   ("i", tok_int(2**40))]:
    tb,cb = pair(); t=T(); rr=export(tb,cb,t,"RI")
    res=[]
    tb.transport.write = lambda data: None   # silence real target
    rr.callRemote(meth).addBoth(res.append); flush()
    cb.dataReceived(OPEN_(0)+tok_str(b"answer")+tok_int(1)+body+CLOSE_(0)); flush()
    print("C02 result", meth, "->", res)
# C11 unicode buffering
tb,cb = pair(); t=T(); rr=export(tb,cb,t,"RI")
hdr = OPEN_(0)+tok_str(b"call")+tok_int(1)+tok_int(1)+tok_str(b"lu")+OPEN_(1)+tok_str(b"arguments")+tok_int(1)+OPEN_(2)+tok_str(b"list")+OPEN_(3)+tok_str(b"unicode")
tb.dataReceived(hdr)
out=[]; int2b128(10**7,out.append); tb.dataReceived(b"".join(out)+STRING)
hw=0
for i in range(100):
    tb.dataReceived(b"x"*10000); hw=max(hw,len(tb.buffer))
print("C11 unicode buffered bytes high-water:", hw)
