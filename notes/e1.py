import sys, time
sys.path.insert(0,'/repo/src')
from twisted.internet import task, defer
import foolscap.eventual as ev
clock = task.Clock()
ev.reactor = clock
def flush():
    for i in range(10000):
        if not clock.getDelayedCalls(): break
        clock.advance(0)
# --- C17 promise break
from foolscap.promise import makePromise, when, send
from twisted.python.failure import Failure
p, r = makePromise()
r(Failure(ValueError("x")))
print("state after break:", p._state)
try:
    d = when(p); print("when ok", d)
except Exception as e: print("when after break raised", type(e), e)
try:
    p2 = send(p).foo(); print("send ok")
except Exception as e: print("send after break raised", type(e), e)
try:
    r(3); print("second resolve accepted!")
except Exception as e: print("second resolve raised", type(e).__name__, e)

# --- C17 flush re-entrancy
log=[]
def a():
    d = ev.flushEventualQueue(); d.addCallback(lambda _: log.append("flushed"))
    log.append("a")
def b(): log.append("b")
ev.eventually(a); ev.eventually(b); flush()
print("flush order:", log)

# --- C20 regex timing
from foolscap.connections.tcp import convert_legacy_hint, DefaultTCP
for n in (50,100,200,400):
    s = "a:" + "1"*n + "x"
    t=time.time(); convert_legacy_hint(s); print("legacy hint n=%d %.3fs"%(n,time.time()-t))
from foolscap.furl import decode_furl
for n in (2000,4000,8000):
    s = "pb://"*n
    t=time.time()
    try: decode_furl(s)
    except Exception as e: pass
    print("furl n=%d %.3fs"%(n*5,time.time()-t))
