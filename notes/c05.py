from net import *
import io, contextlib
class T(Referenceable):
    def remote_hi(s): return 42
class NoCert:
    original=None
def trial(server_cert_mode, client_cert_mode):
    net.links.clear(); net.tubs.clear()
    A=make_tub("a"); B=make_tub("b"); C=make_tub("c")
    fb=B.registerReference(T(), name="svc")
    # the impostor: C pretends to be B (claims B's tubid, registers the same name) but only owns C's certificate
    if server_cert_mode!="honest":
        C.tubID=B.tubID; C.registerReference(T(), name="svc"); net.tubs["b"]=C
    orig_connect=FakeEndpoint.connect
    def connect(s, factory):
        d=orig_connect(s, factory)
        link=net.links[-1]; cend,send_=link.ends
        if server_cert_mode=="nocert": cend.peer_cert=None
        if server_cert_mode=="othercert": cend.peer_cert=C.myCertificate
        if server_cert_mode=="stolen-claim-right-cert": cend.peer_cert=B.myCertificate   # control: what TLS would never allow
        if client_cert_mode=="nocert": send_.peer_cert=None
        if client_cert_mode=="othercert": send_.peer_cert=C.myCertificate if server_cert_mode=="honest" else B.myCertificate
        return d
    FakeEndpoint.connect=connect
    try:
        res=[]; A.getReference(fb).addCallback(lambda rr: rr.callRemote("hi")).addBoth(res.append)
        net.turn(); net.run()
    finally: FakeEndpoint.connect=orig_connect
    return [getattr(x,'type',x) for x in res], [str(k) for k in A.brokers], [str(k)[:12] for t in (B,C) for k in t.brokers]
with contextlib.redirect_stdout(io.StringIO()), contextlib.redirect_stderr(io.StringIO()):
    rows=[(s,c,trial(s,c)) for s in ("honest","nocert","othercert") for c in ("honest","nocert","othercert")]
for r in rows: print("C05 server=%-10s client=%-10s -> %s" % (r[0], r[1], r[2]))
