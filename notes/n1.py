import sys, time
sys.path.insert(0,'/repo/src')
from twisted.internet import task, defer
from twisted.python import failure
import foolscap.eventual as ev
clock = task.Clock(); ev.reactor = clock
import foolscap.negotiate as neg, foolscap.connection as conn, foolscap.banana as ban
neg.reactor = clock; conn.reactor = clock; ban.reactor = clock
from foolscap import pb, crypto, broker
from foolscap.api import Tub, Referenceable
t0=time.time()
from n0 import mk
tubs=[Tub(certData=mk()) for i in range(2)]
print("2 tubs generated in %.2fs"%(time.time()-t0), [t.tubID[:6] for t in tubs])
for t in tubs: t.startService()
# fake transports
class FT:
    def __init__(s, name): s.name=name; s.q=[]; s.closed=False; s.tls=False; s.cert=None; s.disconnecting=False
    def write(s, d): 
        if not s.closed: s.q.append(d)
    def startTLS(s, ctx): s.tls=True
    def loseConnection(s, *a): 
        if not s.closed: s.closed=True; s.want_close=True
    def getPeer(s): return broker.LoopbackAddress()
    def getHost(s): return broker.LoopbackAddress()
    def setTcpNoDelay(s, x): pass
class FakeCert:
    def __init__(s, real): s.original=real.original; s._d=real.digest("sha1")
    def digest(s, alg): return s._d
neg.crypto.peerFromTransport = lambda transport: transport.peer_cert
A,B = tubs
B.setLocation("tcp:fake:1"); 
class T(Referenceable):
    def remote_hi(s): return 42
furl = B.registerReference(T())
# client side: A dials B: build the Negotiation the way TubConnectorFactory does
from foolscap.referenceable import SturdyRef
from foolscap.info import ConnectionInfo
sr = SturdyRef(furl)
tc = conn.TubConnector(A, sr.getTubRef(), {})   # no plugins; we hand-make the protocol
A.tubConnectors[sr.getTubRef()] = tc; tc.active=True; A.connectorStarted(tc)
d = defer.Deferred(); A.waitingForBrokers[sr.getTubRef()] = [d]
fac = conn.TubConnectorFactory(tc, "fake", "tcp:fake:1", None)
pc = fac.buildProtocol(None)
class L: pass
lst = pb.Listener.__new__(pb.Listener); lst._tub=B; lst._test_options={}; lst._redirects={}; lst._negotiationClass=neg.Negotiation; lst._lp=None; lst._ep="fake"
class Addr: host="h"; port=1
ps = lst.buildProtocol(Addr())
tc.pendingNegotiations[pc]="tcp:fake:1"
ta, tb_ = FT("a"), FT("b")
ta.peer_cert = FakeCert(B.myCertificate); tb_.peer_cert = FakeCert(A.myCertificate)
pc.makeConnection(ta); ps.makeConnection(tb_)
def pump():
    progress=True
    while progress:
        progress=False
        for src, dstproto in ((ta, ps), (tb_, pc)):
            while src.q:
                data = src.q.pop(0); progress=True
                dstproto.dataReceived(data)
        for i in range(100):
            if not any(dc.getTime() <= clock.seconds() for dc in clock.getDelayedCalls()): break
            clock.advance(0); progress=True
pump()
print("A.brokers", list(A.brokers.keys()), "B.brokers", list(B.brokers.keys()))
res=[]
d.addCallback(lambda b: b.getYourReferenceByName(sr.name)).addCallback(lambda rr: rr.callRemote("hi")).addBoth(res.append)
pump(); print("call result:", res, "pending delayed calls:", len(clock.getDelayedCalls()))
print("total %.2fs"%(time.time()-t0))
