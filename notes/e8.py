from h import *
from zope.interface import implementer
from foolscap.api import Referenceable, RemoteInterface
from foolscap.schema import SetOf, ListOf
import gc
class RI(RemoteInterface):
    def s(x=SetOf(int, maxLength=3)): return None
    def i(x=int): return None
@implementer(RI)
class T(Referenceable):
    def __init__(s): s.calls=[]
    def remote_s(s,x): s.calls.append(x)
    def remote_i(s,x): s.calls.append(x)
for meth, val in [("s", frozenset([1,2])), ("s", set([1,2])), ("i", True), ("i", 5)]:
    tb,cb = pair(); t=T(); rr=export(tb,cb,t,"RI")
    res=[]
    rr.callRemote(meth, val).addBoth(res.append); flush()
    print("C12", meth, repr(val), "->", [getattr(r,'type',r) for r in res], "calls", t.calls, "disconnected", cb.disconnected)
