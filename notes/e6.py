from h import *
import os, tempfile, gc
from foolscap.api import Referenceable
from foolscap.appserver.services import FileUploader
class Opt(dict): pass
base = tempfile.mkdtemp(); target = os.path.join(base,"up"); os.mkdir(target)
o = Opt(mode=0o644); o.targetdir = target
fu = FileUploader(base, None, o)
class Src:
    def __init__(s, blocks): s.blocks=list(blocks)
    def callRemote(s, name, n):
        if not s.blocks: return defer.succeed(b"")
        b = s.blocks.pop(0)
        if isinstance(b, Exception): return defer.fail(b)
        return defer.succeed(b)
for name in ["", ".", "..", "a/b", "/etc/x", "ok", "x\x00y", "a"*300]:
    try:
        d = fu.remote_putfile(name, Src([b"data"])); r=[]; d.addBoth(r.append)
        print("C19 name=%r -> %s" % (name[:20], [getattr(x,'type',x) for x in r]))
    except Exception as e:
        print("C19 name=%r raised %s" % (name[:20], type(e).__name__))
print("C19 listing base:", sorted(os.listdir(base)), "target:", sorted(os.listdir(target)))
# C08 bound-method reference resurrect
tb,cb = pair()
class T(Referenceable):
    def __init__(s): s.got=[]
    def remote_m(s, x): s.got.append(x); 
    def cbm(s): return 1
t=T(); rr=export(tb,cb,t)
class Holder:
    def meth(self): return 7
hd = Holder(); bm = hd.meth
rr.callRemote("m", bm); flush()
print("C08 first:", t.got)
t.got.clear(); gc.collect()      # drop proxy, weakref dies, _handleRefLost queued but not run
rr.callRemote("m", bm)
# deliver without letting eventual queue order matter: just flush
flush()
print("C08 second:", t.got)
