#!/bin/bash
# Build the framework offline from files on disk: regenerate the translated Coq files
# from /repo's current source and compile the whole Coq development (full .vo build).
set -e
cd "$(dirname "$0")"
export PYTHONPATH=/repo/src:/verif PYTHONHASHSEED=0 PYTHONDONTWRITEBYTECODE=1
mkdir -p _build evidence replays
/venv/bin/python translate/gen.py || echo "setup: translator reported errors (checks will report them)"
cd coq
coq_makefile -f _CoqProject -o Makefile >/dev/null
timeout 3000 make -j16 2>&1 | tail -5 || echo "setup: coq build reported errors (checks will report them)"
