#!/bin/bash
# Build the framework offline from files on disk: regenerate the translated Coq files
# from /repo's current source and compile the whole Coq development (full .vo build).
cd "$(dirname "$0")"
export VERIF_REPO="${VERIF_REPO:-/repo}"
export PYTHONPATH="$VERIF_REPO/src:/verif" PYTHONHASHSEED=0 PYTHONDONTWRITEBYTECODE=1
mkdir -p _build evidence replays
/venv/bin/python translate/gen.py || echo "setup: translator reported errors (the checks will report them)"
/venv/bin/python -c "from harness import common; common.refresh_coqproject()"
cd coq
timeout 3000 make -j16 2>&1 | tail -5
exit 0
