"""C06: statement-by-statement translation of the inbound-call dispatch path into Gallina terms (gen/ReachDispGen.v).

Each function below is SYMBOLICALLY EXECUTED into one Gallina decision tree: every `if`, `assert`, `raise`, `try/except`,
assignment and `return` of the Python body ends up in the generated term, so an edit of the source changes the term the
theorems of lib/ReachDeepProofs.v are about (they prove that the dispatcher assembled from these terms equals the
hand-written model lib/Reach.v for ALL inputs; the existing theorems of props/C06.v are thereby theorems about the
translated code).

  Broker.getMyReferenceByCLID                -> gen_get_my_reference   (clid 0 = the Broker, else table lookup / KeyError)
  CallUnslicer.receiveChild, stage 1 block   -> gen_stage1             (KeyError -> Violation; interface None for negative ids)
  CallUnslicer.receiveChild, stage 2 block   -> gen_stage2             (negative id: name ignored; ensure_str; interface check)
  Broker._doCall                             -> gen_docall             (methodname None: call the object; else adapt + doRemoteCall)
  Referenceable.doRemoteCall                 -> gen_doremotecall       (getattr(self, <prefix> + methodname), then call it)
  YourReferenceUnslicer.receiveClose         -> gen_yourref_close      (None -> BananaError; lookup; falsy -> Violation)
  Broker.remote_decref                       -> gen_remote_decref      (asserts; .get; tracker.decref; delete BOTH tables when done)

The Python subset: assignments to locals and `self.<attr>`, `if/elif/else`, `assert`, `raise <Exc>(...)`, `return`,
`try: <stmts> except KeyError: <stmts>`, `del <table>[<key>]`, expression statements that are calls of declared effect-free
primitives.  Expressions: names / attributes declared in the per-function table below, int / None / str literals, comparisons,
`is None`, `not`, `and` / `or`, `<str literal> % name`, `<str literal> + name`, calls and subscripts of declared primitives
(each with its Gallina meaning, its type and whether it may raise).  Truthiness is type-directed (int: non-zero; optional
value: not None -- and not empty for optional strings; objects: true, ASSUMING application objects, trackers and interface objects
do not define __bool__/__len__).  Message strings built for an exception (`why = "..." % (...)`; used only as the argument
of the raised exception) are not evaluated: ASSUMED not to raise themselves.  Logging (`if self.debug: log.msg(...)`) and the
`assert not isinstance(i, defer.Deferred)` loop of _doCall are skipped when they have exactly that text.
Everything else raises Untranslatable (fail closed).
"""
import ast
from translate import pylite as P

PROPERTIES = ["C06"]
OUTPUTS = ["ReachDispGen.v"]


def U(msg):
    raise P.Untranslatable(msg)


PRELUDE = """
From Coq Require Import Ascii NArith.
(* what a Python exception is, as far as the dispatch path distinguishes them *)
Inductive exn := EKeyError | EViolation | EBanana | EAssert | EAttribute | EType | EUnicode.
Inductive xres (A : Type) : Type := XOk (a : A) | XRaise (e : exn).
Arguments XOk {A} a.
Arguments XRaise {A} e.
(* what a clid denotes *)
Inductive target := TBroker | TObj (o : Z).
(* what Broker._doCall finally does *)
Inductive action := ACallObject | ADoRemoteCall (m : string).
(* the method-name token: UTF-8 text | undecodable bytes *)
Inductive mtoken := TokStr (s : string) | TokBad.
Definition ensure_str (t : mtoken) : xres string := match t with TokStr s => XOk s | TokBad => XRaise EUnicode end.
Definition truthy_ostr (x : option string) : bool := match x with Some EmptyString => false | Some _ => true | None => false end.
Definition truthy_str (x : string) : bool := match x with EmptyString => false | _ => true end.
Definition is_some_ {T} (o : option T) : bool := match o with Some _ => true | None => false end.
Definition is_none_ {T} (o : option T) : bool := match o with Some _ => false | None => true end.
Fixpoint zget_ {V} (k : Z) (l : list (Z * V)) : option V :=
  match l with [] => None | (k', v) :: r => if k =? k' then Some v else zget_ k r end.
Fixpoint zdel_ {V} (k : Z) (l : list (Z * V)) : list (Z * V) :=
  match l with [] => [] | (k', v) :: r => if k =? k' then zdel_ k r else (k', v) :: zdel_ k r end.
Definition zhas_ {V} (k : Z) (l : list (Z * V)) : bool := is_some_ (zget_ k l).
Definition mem_str_ (s : string) (l : list string) : bool := existsb (String.eqb s) l.
Definition zset_ {V} (k : Z) (v : V) (l : list (Z * V)) : list (Z * V) := (k, v) :: zdel_ k l.
Fixpoint sget_ {V} (k : string) (l : list (string * V)) : option V :=
  match l with [] => None | (k', v) :: r => if String.eqb k k' then Some v else sget_ k r end.
Fixpoint sdel_ {V} (k : string) (l : list (string * V)) : list (string * V) :=
  match l with [] => [] | (k', v) :: r => if String.eqb k k' then sdel_ k r else (k', v) :: sdel_ k r end.
Definition sset_ {V} (k : string) (v : V) (l : list (string * V)) : list (string * V) := (k, v) :: sdel_ k l.
Definition shas_ {V} (k : string) (l : list (string * V)) : bool := is_some_ (sget_ k l).
(* RemoteInterface.get(name): the method's schema if the interface declares it *)
Definition iface_get (i : list string) (m : string) : option unit := if mem_str_ m i then Some tt else None.
(* a ReferenceableTracker as the tables hold it: (puid, obj, refcount); puid = the object's identity *)
Definition tracker := (Z * Z)%type.      (* (obj, refcount); its puid is obj *)
"""


# --------------------------------------------------------------------------------------------- the symbolic executor
class V:
    """a symbolic value: Gallina expression text + type tag"""
    def __init__(self, g, ty):
        self.g, self.ty = g, ty


OPAQUE = "opaque-message"
EXC = {"Violation": "EViolation", "BananaError": "EBanana", "KeyError": "EKeyError", "AssertionError": "EAssert",
       "AttributeError": "EAttribute", "TypeError": "EType", "UnicodeDecodeError": "EUnicode"}


def tfn(keyty, what):
    return {"Z": "z", "str": "s"}[keyty] + what + "_"


class Sym:
    def sub(self, name):
        """-> (table text function, value type, key type)"""
        t = self.subs[name]
        return (t[0], t[1], t[2] if len(t) > 2 else "Z")

    def __init__(self, name, env, prims, subs, outs, skip=()):
        self.name = name
        self.env0 = env          # lvalue text -> V
        self.prims = prims       # unparse(func) -> (fn(list of V) -> gallina text, result type, may_raise)
        self.subs = subs         # unparse(table expr) -> (gallina table text, value type)
        self.outs = outs         # [lvalue text] returned (in this order) besides the function's return value
        self.skip = set(skip)    # statement texts that are skipped (logging, typing assertions)
        self.n = 0

    def fresh(self, p="v"):
        self.n += 1
        return "%s%d" % (p, self.n)

    # ---- truthiness
    def truth(self, v, node):
        t = v.ty
        if t == "bool":
            return v.g
        if t == "Z":
            return "(negb (%s =? 0))" % v.g
        if t == "ostr":
            return "(truthy_ostr %s)" % v.g
        if t == "str":
            return "(truthy_str %s)" % v.g
        if t.startswith("o:"):          # optional object / schema / interface: truthy iff not None (see docstring)
            return "(is_some_ %s)" % v.g
        if t in ("target", "tracker"):
            return "true"
        if t == "none":
            return "false"
        U("%s: truthiness of a %s value is not defined: %s" % (self.name, t, ast.unparse(node)))

    # ---- expressions, in continuation-passing style: k(V) -> term text
    def expr(self, e, env, hs, k):
        txt = ast.unparse(e)
        if txt in env:
            v = env[txt]
            if v is OPAQUE:
                U("%s: a message string is used as a value: %s" % (self.name, txt))
            return k(v)
        if isinstance(e, ast.Constant):
            c = e.value
            if c is None:
                return k(V("None", "none"))
            if c is True or c is False:
                return k(V("true" if c else "false", "bool"))
            if isinstance(c, int):
                return k(V(P.zlit(c), "Z"))
            if isinstance(c, str):
                return k(V(coq_string(c), "str"))
            U("%s: literal %r" % (self.name, c))
        if isinstance(e, ast.UnaryOp) and isinstance(e.op, ast.Not):
            return self.expr(e.operand, env, hs, lambda v: k(V("(negb %s)" % self.truth(v, e.operand), "bool")))
        if isinstance(e, ast.UnaryOp) and isinstance(e.op, ast.USub):
            return self.expr(e.operand, env, hs, lambda v: k(V("(- %s)" % self.need(v, "Z", e), "Z")))
        if isinstance(e, ast.BoolOp):
            # operands are evaluated left to right with short-circuit; only operands that cannot raise are accepted, so
            # andb / orb of their truth values is the truth value of the Python expression (which is all an `if` / `assert` uses)
            op = "andb" if isinstance(e.op, ast.And) else "orb"
            def go(i, acc):
                if i == len(e.values):
                    return k(V(acc, "bool"))
                return self.expr(e.values[i], env, None,
                                 lambda v: go(i + 1, self.truth(v, e.values[i]) if acc is None
                                              else "(%s %s %s)" % (op, acc, self.truth(v, e.values[i]))))
            return go(0, None)
        if isinstance(e, ast.Compare) and len(e.ops) == 1:
            op, a, b = e.ops[0], e.left, e.comparators[0]
            if isinstance(op, (ast.Is, ast.IsNot)) and isinstance(b, ast.Constant) and b.value is None:
                def fin(v):
                    if not (v.ty.startswith("o:") or v.ty in ("ostr", "oZ", "none")):
                        U("%s: `is None` on a %s value: %s" % (self.name, v.ty, txt))
                    g = "true" if v.ty == "none" else "(is_none_ %s)" % v.g
                    return k(V(g if isinstance(op, ast.Is) else "(negb %s)" % g, "bool"))
                return self.expr(a, env, hs, fin)
            cmpz = {ast.Eq: "(%s =? %s)", ast.NotEq: "(negb (%s =? %s))", ast.Lt: "(%s <? %s)", ast.LtE: "(%s <=? %s)",
                    ast.Gt: "(%s >? %s)", ast.GtE: "(%s >=? %s)"}
            for cls, fmt in cmpz.items():
                if isinstance(op, cls):
                    return self.expr(a, env, hs, lambda va: self.expr(b, env, hs, lambda vb: k(
                        V(fmt % (self.need(va, "Z", a), self.need(vb, "Z", b)), "bool"))))
            if isinstance(op, (ast.In, ast.NotIn)) and ast.unparse(b) in self.subs:
                tbl, _, kty = self.sub(ast.unparse(b))
                def fin2(va):
                    g = "(%s %s %s)" % (tfn(kty, "has"), self.need(va, kty, a), tbl(env))
                    return k(V(g if isinstance(op, ast.In) else "(negb %s)" % g, "bool"))
                return self.expr(a, env, hs, fin2)
            U("%s: comparison %s" % (self.name, txt))
        if isinstance(e, ast.BinOp) and isinstance(e.left, ast.Constant) and isinstance(e.left.value, str):
            fmt = e.left.value
            if isinstance(e.op, ast.Mod) and fmt.count("%") == 1 and fmt.endswith("%s"):
                r = e.right.elts[0] if isinstance(e.right, ast.Tuple) and len(e.right.elts) == 1 else e.right
                return self.expr(r, env, hs, lambda v: k(V("(%s ++ %s)%%string" % (coq_string(fmt[:-2]), self.need(v, "str", r)), "str")))
            if isinstance(e.op, ast.Add):
                return self.expr(e.right, env, hs, lambda v: k(V("(%s ++ %s)%%string" % (coq_string(fmt), self.need(v, "str", e.right)), "str")))
        if isinstance(e, ast.JoinedStr) and len(e.values) == 2 and isinstance(e.values[0], ast.Constant) \
                and isinstance(e.values[1], ast.FormattedValue) and e.values[1].conversion == -1 and e.values[1].format_spec is None:
            return self.expr(e.values[1].value, env, hs,
                             lambda v: k(V("(%s ++ %s)%%string" % (coq_string(e.values[0].value), self.need(v, "str", e)), "str")))
        if isinstance(e, ast.Tuple) and len(e.elts) == 2 and isinstance(e.elts[1], ast.Constant) and e.elts[1].value is None:
            return self.expr(e.elts[0], env, hs, k)          # (obj, None): the ready_deferred slot carries nothing
        if isinstance(e, ast.Subscript) and ast.unparse(e.value) in self.subs:
            tbl, vty, kty = self.sub(ast.unparse(e.value))
            def fin3(vk):
                x = self.fresh("t")
                return "(match %s %s %s with Some %s => %s | None => %s end)" % (
                    tfn(kty, "get"), self.need(vk, kty, e.slice), tbl(env), x, k(V(x, vty)), self.raise_("EKeyError", env, hs))
            return self.expr(e.slice, env, hs, fin3)
        if isinstance(e, ast.Attribute) and not isinstance(e.value, ast.Name):
            # attribute of a computed value: only tracker fields
            def fin4(v):
                if v.ty == "tracker" and e.attr == "obj":
                    return k(V("(TObj (fst %s))" % v.g, "target"))
                if v.ty == "tracker" and e.attr == "puid":
                    return k(V("(fst %s)" % v.g, "Z"))
                U("%s: attribute .%s of a %s value" % (self.name, e.attr, v.ty))
            return self.expr(e.value, env, hs, fin4)
        if isinstance(e, ast.Attribute) and isinstance(e.value, ast.Name) and e.value.id in env and env[e.value.id] is not OPAQUE \
                and env[e.value.id].ty == "tracker":
            v = env[e.value.id]
            if e.attr == "obj":
                return k(V("(TObj (fst %s))" % v.g, "target"))
            if e.attr == "puid":
                return k(V("(fst %s)" % v.g, "Z"))
        if isinstance(e, ast.Call):
            f = ast.unparse(e.func)
            if f in self.prims and not e.keywords:
                fn, rty, may_raise, nargs = self.prims[f]
                if nargs is not None and len(e.args) != nargs:
                    U("%s: %s called with %d arguments" % (self.name, f, len(e.args)))
                def go(i, acc):
                    if i == len(e.args):
                        g = fn(acc, env)
                        if not may_raise:
                            return k(V(g, rty))
                        x, ex = self.fresh("r"), self.fresh("e")
                        return "(match %s with XOk %s => %s | XRaise %s => %s end)" % (
                            g, x, k(V(x, rty)), ex, self.raise_var(ex, env, hs))
                    return self.expr(e.args[i], env, hs, lambda v: go(i + 1, acc + [v]))
                return go(0, [])
        U("%s: expression not in the subset: %s" % (self.name, txt))

    def need(self, v, ty, node):
        if v.ty != ty:
            U("%s: expected a %s value, found %s: %s" % (self.name, ty, v.ty, ast.unparse(node) if isinstance(node, ast.AST) else node))
        return v.g

    # ---- raising: hs is the stack of enclosing try statements: [(set of caught exn constructors, handler body, env-at-entry, rest continuation)]
    def raise_(self, exn, env, hs):
        if hs is None:
            U("%s: an operand that may raise inside and/or" % self.name)
        for i in range(len(hs) - 1, -1, -1):
            caught, body, kk = hs[i]
            if exn in caught:
                return self.block(body, dict(env), hs[:i], kk)
        return "(XRaise %s)" % exn

    def raise_var(self, var, env, hs):
        """re-raise the exception bound to the Gallina variable `var`"""
        if hs is None:
            U("%s: an operand that may raise inside and/or" % self.name)
        if not hs:
            return "(XRaise %s)" % var
        caught = sorted(set(c for h in hs for c in h[0]))
        arms = " | ".join("%s => %s" % (c, self.raise_(c, env, hs)) for c in caught)
        return "(match %s with %s | _ => XRaise %s end)" % (var, arms, var)

    # ---- statements; k(env) -> term for falling off the end of the block
    def block(self, stmts, env, hs, k):
        if not stmts:
            return k(env)
        st, rest = stmts[0], stmts[1:]
        txt = ast.unparse(st)
        cont = lambda env2: self.block(rest, env2, hs, k)
        if txt in self.skip or (isinstance(st, ast.Expr) and isinstance(st.value, ast.Constant)) or isinstance(st, ast.Pass):
            return cont(env)
        if isinstance(st, ast.If) and ast.unparse(st.test) == "self.debug" and not st.orelse and \
                all(isinstance(x, ast.Expr) and isinstance(x.value, ast.Call) and ast.unparse(x.value.func) == "log.msg" for x in st.body):
            return cont(env)
        if isinstance(st, ast.Assign) and len(st.targets) == 1 and isinstance(st.targets[0], ast.Subscript) \
                and ast.unparse(st.targets[0].value) in self.subs:
            tname = ast.unparse(st.targets[0].value)
            tbl, vty, kty = self.sub(tname)
            def store(vk):
                def store2(vv):
                    e2 = dict(env)
                    e2["@" + tname] = V("(%s %s %s %s)" % (tfn(kty, "set"), self.need(vk, kty, st.targets[0].slice),
                                                          self.need(vv, vty, st.value), tbl(env)), "table")
                    return cont(e2)
                return self.expr(st.value, env, hs, store2)
            return self.expr(st.targets[0].slice, env, hs, store)
        if isinstance(st, ast.For) and not st.orelse and ast.unparse(st.iter) in getattr(self, "fors", {}) and isinstance(st.target, ast.Name):
            # iteration over a collection DECLARED to hold exactly one element (see the function's entry in generate()): the body
            # runs once with the loop variable bound, then the statements after the loop; break / continue are not in the subset
            for n in ast.walk(st):
                if isinstance(n, (ast.Break, ast.Continue)):
                    U("%s: break / continue in a loop" % self.name)
            e2 = dict(env)
            e2[st.target.id] = self.fors[ast.unparse(st.iter)]
            return self.block(st.body + rest, e2, hs, k)
        if isinstance(st, ast.If) and isinstance(st.test, ast.Name) and st.test.id in env and env[st.test.id] is not OPAQUE \
                and env[st.test.id].ty in ("oZ",):
            # `if x:` on an optional object narrows x in the body (objects are truthy, see the module docstring)
            v = env[st.test.id]
            x = self.fresh("n")
            e2 = dict(env)
            e2[st.test.id] = V(x, v.ty[1:])
            return "(match %s with Some %s => %s | None => %s end)" % (
                v.g, x, self.block(st.body + rest, e2, hs, k), self.block(st.orelse + rest, dict(env), hs, k))
        if isinstance(st, ast.Assign) and len(st.targets) == 1 and isinstance(st.targets[0], ast.Name) \
                and isinstance(st.value, ast.Subscript) and isinstance(st.value.slice, ast.Slice):
            # a slice of a string (`hint = name[:2]`): only ever used inside an exception message
            env = dict(env)
            env[st.targets[0].id] = OPAQUE
            return cont(env)
        if isinstance(st, ast.Assign) and len(st.targets) == 1:
            t = ast.unparse(st.targets[0])
            if isinstance(st.targets[0], ast.Name) or (isinstance(st.targets[0], ast.Attribute) and ast.unparse(st.targets[0].value) == "self"):
                if isinstance(st.targets[0], ast.Name) and self.is_message(st.value):
                    env = dict(env)
                    env[t] = OPAQUE
                    return cont(env)
                def bind(v):
                    e2 = dict(env)
                    e2[t] = v
                    return cont(e2)
                return self.expr(st.value, env, hs, bind)
            U("%s: assignment target %s" % (self.name, t))
        if isinstance(st, ast.If):
            def both(v):
                c = fold(self.truth(v, st.test))
                if c == "true":          # decided at translation time (e.g. `not obj` where obj was just bound to None)
                    return self.block(st.body + rest, dict(env), hs, k)
                if c == "false":
                    return self.block(st.orelse + rest, dict(env), hs, k)
                return "(if %s\n then %s\n else %s)" % (c, self.block(st.body + rest, dict(env), hs, k),
                                                       self.block(st.orelse + rest, dict(env), hs, k))
            return self.expr(st.test, env, hs, both)
        if isinstance(st, ast.Assert):
            return self.expr(st.test, env, hs, lambda v: "(if %s then %s else %s)" % (
                self.truth(v, st.test), cont(env), self.raise_("EAssert", env, hs)))
        if isinstance(st, ast.Raise) and st.exc is not None:
            exc = st.exc
            nm = ast.unparse(exc.func) if isinstance(exc, ast.Call) else ast.unparse(exc)
            if nm not in EXC:
                U("%s: raise of %s" % (self.name, nm))
            if isinstance(exc, ast.Call):
                for a in exc.args:
                    if not (self.is_message(a) or (isinstance(a, ast.Name) and env.get(a.id) is OPAQUE)):
                        U("%s: argument of the raised exception is not a message string: %s" % (self.name, ast.unparse(a)))
            return self.raise_(EXC[nm], env, hs)
        if isinstance(st, ast.Return):
            if st.value is None:
                return self.leaf(None, env)
            return self.expr(st.value, env, hs, lambda v: self.leaf(v, env))
        if isinstance(st, ast.Try) and not st.orelse and not st.finalbody and len(st.handlers) == 1:
            h = st.handlers[0]
            if h.name is not None or h.type is None or ast.unparse(h.type) not in EXC:
                U("%s: handler %s" % (self.name, ast.unparse(h)[:60]))
            frame = ({EXC[ast.unparse(h.type)]}, h.body + rest, k)
            return self.block(st.body, env, hs + [frame], lambda env2: self.block(rest, env2, hs, k))
        if isinstance(st, ast.Delete) and len(st.targets) == 1 and isinstance(st.targets[0], ast.Subscript) \
                and ast.unparse(st.targets[0].value) in self.subs:
            tname = ast.unparse(st.targets[0].value)
            tbl, _, kty = self.sub(tname)
            def dele(vk):
                kz = self.need(vk, kty, st.targets[0].slice)
                e2 = dict(env)
                e2["@" + tname] = V("(%s %s %s)" % (tfn(kty, "del"), kz, tbl(env)), "table")
                return "(if %s %s %s then %s else %s)" % (tfn(kty, "has"), kz, tbl(env), cont(e2), self.raise_("EKeyError", env, hs))
            return self.expr(st.targets[0].slice, env, hs, dele)
        if isinstance(st, ast.Expr) and isinstance(st.value, ast.Call):
            return self.expr(st.value, env, hs, lambda v: cont(env))
        U("%s: statement not in the subset: %s" % (self.name, txt[:120]))

    def is_message(self, e):
        return self._is_message(e)

    def _is_message(self, e):
        """a string built for an exception message: literal, or literal % (...) / literal + ... (possibly continued)"""
        if isinstance(e, ast.Constant) and isinstance(e.value, str):
            return True
        if isinstance(e, ast.BinOp) and isinstance(e.op, (ast.Mod, ast.Add)):
            return self.is_message(e.left)
        return False

    def leaf(self, v, env):
        parts = []
        if self.outs and self.outs[0] == "@return":
            rt = getattr(self, "ret_ty", None)
            if v is None:
                parts.append("None")
            elif rt == "ostr" and v.ty == "str":
                parts.append("(Some %s)" % v.g)
            elif rt == "ostr" and v.ty == "none":
                parts.append("None")
            elif rt is not None and v.ty != rt:
                U("%s: returns a %s value, expected %s" % (self.name, v.ty, rt))
            else:
                parts.append(v.g)
        for o in self.outs:
            if o == "@return":
                continue
            want = None
            if isinstance(o, tuple):
                o, want = o
            x = env.get(o)
            if x is None or x is OPAQUE:
                U("%s: output %s has no value at a return" % (self.name, o))
            g = x.g
            if want is not None and x.ty != want:
                if x.ty == "none" and (want.startswith("o:") or want in ("ostr", "oZ")):
                    g = "None"
                elif (want == "ostr" and x.ty == "str") or (want.startswith("o:") and x.ty == want[2:]):
                    g = "(Some %s)" % x.g
                else:
                    U("%s: output %s is a %s value at a return, expected %s" % (self.name, o, x.ty, want))
            parts.append(g)
        if not parts:
            return "(XOk tt)"
        return "(XOk (%s))" % ", ".join(parts)

    def run(self, body):
        return self.block(body, dict(self.env0), [], lambda env: self.leaf(None, env))


def fold(c):
    """constant folding of a condition: negb of a literal"""
    while True:
        c2 = c.replace("(negb true)", "false").replace("(negb false)", "true")
        if c2 == c:
            return c
        c = c2


def coq_string(s):
    b = s.encode("utf-8")
    if all(32 <= c < 127 and c != 34 for c in b):
        return '"%s"%%string' % b.decode("ascii")
    U("non-ASCII string literal %r" % s)


def body_nodoc(fn):
    b = fn.body
    if b and isinstance(b[0], ast.Expr) and isinstance(b[0].value, ast.Constant) and isinstance(b[0].value.value, str):
        b = b[1:]
    return b


def stage_block(rc, n):
    blocks = [s for s in rc.body if isinstance(s, ast.If) and ast.unparse(s.test) == "self.stage == %d" % n and not s.orelse]
    if len(blocks) != 1:
        U("CallUnslicer.receiveChild: expected exactly one `if self.stage == %d:` block" % n)
    b = blocks[0]
    if not isinstance(b.body[-1], ast.Return) or b.body[-1].value is not None:
        U("CallUnslicer.receiveChild: the stage %d block does not end with a bare return" % n)
    # nothing before the block may touch the fields the block reads
    for s in rc.body[:rc.body.index(b)]:
        ok = isinstance(s, ast.Assert) or (isinstance(s, ast.If) and ast.unparse(s.test) in ("self.debug", "self.stage == 0", "self.stage == 1")) \
            or (isinstance(s, ast.Expr) and isinstance(s.value, ast.Constant))
        if not ok:
            U("CallUnslicer.receiveChild: unexpected statement before the stage %d block: %s" % (n, ast.unparse(s)[:80]))
    return b.body


def args_of(fn, want):
    if [a.arg for a in fn.args.args] != want or fn.args.vararg or fn.args.kwarg or fn.args.kwonlyargs or fn.decorator_list:
        U("%s: signature changed: %s" % (fn.name, [a.arg for a in fn.args.args]))


def generate():
    out = [P.PRELUDE % dict(src="broker.py, call.py, referenceable.py (dispatch path, statement by statement)"), PRELUDE]
    bm, cm, rm = P.load("broker.py"), P.load("call.py"), P.load("referenceable.py")
    const = lambda g, ty: (lambda a, env: g, ty, False, 0)

    # ---- class Broker: requireSchema
    consts = P.module_consts(bm, body=P.find_class(bm, "Broker").body)
    if consts.get("requireSchema") not in (True, False):
        U("Broker.requireSchema is not a bool literal")
    out.append("Definition broker_require_schema : bool := %s." % ("true" if consts["requireSchema"] else "false"))

    # ---- Broker.getMyReferenceByCLID(self, clid)
    f = P.find_def(bm, "Broker.getMyReferenceByCLID")
    args_of(f, ["self", "clid"])
    s = Sym("getMyReferenceByCLID",
            env={"clid": V("clid", "Z"), "self": V("TBroker", "target")},
            prims={"isinstance": (lambda a, env: "true", "bool", False, 2)},
            subs={"self.myReferenceByCLID": (lambda env: "tbl", "tracker")},
            outs=["@return"], skip=["assert isinstance(clid, int)"])
    out.append("Definition gen_get_my_reference (tbl : list (Z * tracker)) (clid : Z) : xres target :=\n %s." % s.run(body_nodoc(f)))

    # ---- CallUnslicer.receiveChild(self, token, ready_deferred=None): stages 1 and 2
    rc = P.find_def(cm, "CallUnslicer.receiveChild")
    args_of(rc, ["self", "token", "ready_deferred"])
    s = Sym("CallUnslicer.receiveChild[stage 1]",
            env={"token": V("token", "Z"), "ready_deferred": V("None", "none"),
                 "self.objID": V("0", "Z"), "self.obj": V("None", "o:target"), "self.interface": V("None", "o:iface"),
                 "self.stage": V("1", "Z")},
            prims={"self.broker.getMyReferenceByCLID": (lambda a, env: "(lookup %s)" % a[0].g, "target", True, 1),
                   "self.obj.getInterface": (lambda a, env: "(get_interface %s)" % env["self.obj"].g, "o:iface", False, 0)},
            subs={}, outs=[("self.objID", "Z"), ("self.obj", "target"), ("self.interface", "o:iface"), ("self.stage", "Z")])
    out.append("Definition gen_stage1 (lookup : Z -> xres target) (get_interface : target -> option (list string)) (token : Z)\n"
               "  : xres (Z * target * option (list string) * Z) :=\n %s." % s.run(stage_block(rc, 1)))
    s = Sym("CallUnslicer.receiveChild[stage 2]",
            env={"token": V("token", "mtoken"), "ready_deferred": V("None", "none"),
                 "self.objID": V("objID", "Z"), "self.interface": V("interface", "o:iface"),
                 "self.methodname": V("None", "ostr"), "self.methodSchema": V("None", "o:schema"), "self.stage": V("2", "Z"),
                 "self.broker.requireSchema": V("require_schema", "bool")},
            prims={"six.ensure_str": (lambda a, env: "(ensure_str %s)" % a[0].g, "str", True, 1),
                   "self.interface.get": (lambda a, env: "(match %s with Some i_ => iface_get i_ %s | None => None end)"
                                          % (env["self.interface"].g, a[0].g), "o:schema", False, 1),
                   "getattr": (lambda a, env: "obj_schema", "o:schema", False, 3)},
            subs={}, outs=[("self.stage", "Z"), ("self.methodname", "ostr"), ("self.methodSchema", "o:schema")])
    body2 = stage_block(rc, 2)
    # `getattr(self.obj, 'methodSchema', None)` is the only getattr accepted in the block
    for n in ast.walk(ast.Module(body=body2, type_ignores=[])):
        if isinstance(n, ast.Call) and ast.unparse(n.func) == "getattr" and ast.unparse(n) != "getattr(self.obj, 'methodSchema', None)":
            U("CallUnslicer.receiveChild[stage 2]: unexpected getattr: " + ast.unparse(n))
    # the three-argument getattr's arguments are not evaluated symbolically
    s.prims["getattr"] = (lambda a, env: "obj_schema", "o:schema", False, None)
    body2 = [RewriteGetattr().visit(x) for x in body2]
    s.prims["OBJ_SCHEMA"] = (lambda a, env: "obj_schema", "o:schema", False, 0)
    out.append("Definition gen_stage2 (objID : Z) (interface : option (list string)) (token : mtoken) (require_schema : bool)\n"
               "  (obj_schema : option unit) : xres (Z * option string * option unit) :=\n %s." % s.run(body2))

    # ---- the mapping that turns a string result of ensure_str into the optional method name: assignments of a str to self.methodname
    # ---- Broker._doCall(self, delivery)
    f = P.find_def(bm, "Broker._doCall")
    args_of(f, ["self", "delivery"])
    s = Sym("Broker._doCall",
            env={"delivery.obj": V("obj", "target"), "delivery.allargs.args": V("tt", "args"), "delivery.allargs.kwargs": V("tt", "args"),
                 "delivery.methodSchema": V("schema", "o:schema"), "delivery.methodname": V("methodname", "ostr")},
            prims={"delivery.methodSchema.checkAllArgs": (lambda a, env: "(if args_fit then XOk tt else XRaise EViolation)", "unit", True, None),
                   "callable": (lambda a, env: "(is_callable %s)" % a[0].g, "bool", False, 1),
                   "ipb.IRemotelyCallable": (lambda a, env: "(if adaptable %s then XOk %s else XRaise EType)" % (a[0].g, a[0].g), "target", True, 1),
                   "obj": (lambda a, env: "(XOk (%s, ACallObject))" % env["obj"].g, "result", True, None),
                   "obj.doRemoteCall": (lambda a, env: "(XOk (%s, ADoRemoteCall %s))" % (env["obj"].g, somestr(a[0])), "result", True, 3)},
            subs={}, outs=["@return"],
            skip=["for i in args + list(kwargs.values()):\n    assert not isinstance(i, defer.Deferred)"])
    body = [StarArgs().visit(x) for x in body_nodoc(f)]
    out.append("Definition gen_docall (obj : target) (methodname : option string) (schema : option unit) (args_fit : bool)\n"
               "  (is_callable adaptable : target -> bool) : xres (target * action) :=\n %s." % s.run(body))

    # ---- Referenceable.doRemoteCall(self, methodname, args, kwargs)
    f = P.find_def(rm, "Referenceable.doRemoteCall")
    args_of(f, ["self", "methodname", "args", "kwargs"])
    getattrs = [n for n in ast.walk(f) if isinstance(n, ast.Call) and ast.unparse(n.func) == "getattr"]
    if len(getattrs) != 1 or len(getattrs[0].args) != 2 or ast.unparse(getattrs[0].args[0]) != "self":
        U("doRemoteCall: expected exactly one two-argument getattr on self")
    tgt = [x for x in body_nodoc(f) if isinstance(x, ast.Assign) and x.value is getattrs[0] and isinstance(x.targets[0], ast.Name)]
    if len(tgt) != 1:
        U("doRemoteCall: the looked-up attribute is not bound to a local")
    mv = tgt[0].targets[0].id
    s = Sym("Referenceable.doRemoteCall",
            env={"methodname": V("methodname", "str"), "self": V("tt", "selfobj"), "args": V("tt", "args"), "kwargs": V("tt", "args")},
            prims={"getattr": (lambda a, env: "(if mem_str_ %s attrs then XOk %s else XRaise EAttribute)" % (a[1].g, a[1].g), "str", True, 2),
                   mv: (lambda a, env: "(XOk %s)" % env[mv].g, "str", True, None)},
            subs={}, outs=["@return"])
    body = [StarArgs().visit(x) for x in body_nodoc(f)]
    out.append("(* -> the attribute of self that is called *)\n"
               "Definition gen_doremotecall (attrs : list string) (methodname : string) : xres string :=\n %s." % s.run(body))

    # ---- YourReferenceUnslicer.receiveClose(self)
    f = P.find_def(rm, "YourReferenceUnslicer.receiveClose")
    args_of(f, ["self"])
    s = Sym("YourReferenceUnslicer.receiveClose",
            env={"self.clid": V("clid", "oZ")},
            prims={"self.broker.getMyReferenceByCLID": (lambda a, env: "(match %s with Some k_ => lookup k_ | None => XRaise EType end)" % a[0].g,
                                                        "target", True, 1)},
            subs={}, outs=["@return"])
    out.append("Definition gen_yourref_close (lookup : Z -> xres target) (clid : option Z) : xres target :=\n %s." % s.run(body_nodoc(f)))

    # ---- Broker.remote_decref(self, clid, count)
    f = P.find_def(bm, "Broker.remote_decref")
    args_of(f, ["self", "clid", "count"])
    s = Sym("Broker.remote_decref", env={"clid": V("clid", "Z"), "count": V("count", "Z")}, prims={}, subs={}, outs=[],
            skip=["assert isinstance(clid, int)"])
    out.append(remote_decref_term(s, f))
    out += name_table_terms()
    return {"ReachDispGen.v": "\n\n".join(out) + "\n"}


def name_table_terms():
    """pb.py: Tub._assignName and Tub.getReferenceForName, statement by statement.  The tables: nameToReference (name -> object),
    referenceToName (object -> name).  ASSUMED (stated in ctx.assumptions): weak tables behave as dicts while the objects are alive;
    at most ONE name-lookup handler is registered (the loop over self.nameLookupHandlers is translated as a loop over a one-element
    list whose element answers `handler name`; no handler = a handler that answers nothing)."""
    pm = P.load("pb.py")
    out = []

    def tb(name, default):
        return lambda env: env["@" + name].g if "@" + name in env else default
    subs = {"self.nameToReference": (tb("self.nameToReference", "n2r"), "Z", "str"),
            "self.referenceToName": (tb("self.referenceToName", "r2n"), "str", "Z")}
    outs = ["@return", ("@self.nameToReference", "table"), ("@self.referenceToName", "table")]

    f = P.find_def(pm, "Tub._assignName")
    if [a.arg for a in f.args.args] != ["self", "ref", "preferred_name"] or f.args.vararg or f.args.kwarg or f.decorator_list:
        U("Tub._assignName: signature changed")
    s = Sym("Tub._assignName",
            env={"ref": V("ref", "Z"), "preferred_name": V("preferred_name", "str"), "self.locationHints": V("has_hints", "bool"),
                 "@self.nameToReference": V("n2r", "table"), "@self.referenceToName": V("r2n", "table")},
            prims={"self.generateSwissnumber": (lambda a, env: "sw", "str", False, 1)},
            subs=subs, outs=outs)
    s.env0["self.NAMEBITS"] = V("0", "Z")
    s.ret_ty = "ostr"
    out.append("(* preferred_name: the empty string stands for None (both are falsy); sw: what generateSwissnumber returns *)\n"
               "Definition gen_assign_name (has_hints : bool) (n2r : list (string * Z)) (r2n : list (Z * string)) (ref : Z)\n"
               "  (preferred_name sw : string) : xres (option string * list (string * Z) * list (Z * string)) :=\n %s." % s.run(body_nodoc(f)))

    f = P.find_def(pm, "Tub.getReferenceForName")
    if [a.arg for a in f.args.args] != ["self", "name"] or f.args.vararg or f.args.kwarg or f.decorator_list:
        U("Tub.getReferenceForName: signature changed")
    s = Sym("Tub.getReferenceForName",
            env={"name": V("name", "str"), "@self.nameToReference": V("n2r", "table"), "@self.referenceToName": V("r2n", "table")},
            prims={"lookup": (lambda a, env: "(sget_ %s handler)" % a[0].g, "oZ", False, 1)},
            subs=subs, outs=outs)
    s.fors = {"self.nameLookupHandlers": V("handler", "handler")}
    s.ret_ty = "Z"
    out.append("Definition gen_get_reference_for_name (n2r : list (string * Z)) (r2n : list (Z * string)) (handler : list (string * Z))\n"
               "  (name : string) : xres (Z * list (string * Z) * list (Z * string)) :=\n %s." % s.run(body_nodoc(f)))
    return out


def somestr(v):
    """delivery.methodname where a str is required: the optional name, known to be present on this path"""
    if v.ty == "ostr":
        return "(match %s with Some s_ => s_ | None => EmptyString end)" % v.g
    if v.ty == "str":
        return v.g
    U("doRemoteCall is given a %s value as method name" % v.ty)


class StarArgs(ast.NodeTransformer):
    """f(*args, **kwargs) -> f(): the argument values are not part of the model (only what is called is)"""
    def visit_Call(self, n):
        self.generic_visit(n)
        if len(n.args) == 1 and isinstance(n.args[0], ast.Starred) and ast.unparse(n.args[0].value) == "args" \
                and len(n.keywords) == 1 and n.keywords[0].arg is None and ast.unparse(n.keywords[0].value) == "kwargs":
            return ast.copy_location(ast.Call(func=n.func, args=[], keywords=[]), n)
        return n


class RewriteGetattr(ast.NodeTransformer):
    def visit_Call(self, n):
        self.generic_visit(n)
        if ast.unparse(n) == "getattr(self.obj, 'methodSchema', None)":
            return ast.copy_location(ast.Call(func=ast.Name(id="OBJ_SCHEMA", ctx=ast.Load()), args=[], keywords=[]), n)
        return n


def remote_decref_term(s, f):
    """remote_decref: the tracker is an optional (obj, refcount) pair; tracker.decref is the PyLite-translated
    ReferenceableTracker.decref of gen/ReachGen.v (passed in as `decref_fn`), whose new refcount is written back into BOTH tables
    (they hold the same tracker object)"""
    body = body_nodoc(f)
    cur = {"self.myReferenceByCLID": "byclid", "self.myReferenceByPUID": "bypuid"}     # dynamic scope: the Gallina name of each table

    def tb(name):
        return lambda env: env["@" + name].g if "@" + name in env else cur[name]

    class TrackerSym(Sym):
        def expr(self, e, env, hs, k):
            txt = ast.unparse(e)
            if txt == "tracker.decref(count)":
                t = env.get("tracker")
                if t is None or t is OPAQUE or t.ty != "tracker":
                    U("remote_decref: tracker.decref on a value that may be None")
                if any(k_.startswith("@") for k_ in env):
                    U("remote_decref: a table entry is deleted before tracker.decref")
                d, rc, c1, p1 = self.fresh("done"), self.fresh("rc"), self.fresh("byclid"), self.fresh("bypuid")
                upd = lambda tblname, key: "(match zget_ %s %s with Some _ => (%s, (fst %s, %s)) :: zdel_ %s %s | None => %s end)" % (
                    key, cur[tblname], key, t.g, rc, key, cur[tblname], cur[tblname])
                u1, u2 = upd("self.myReferenceByCLID", env["clid"].g), upd("self.myReferenceByPUID", "(fst %s)" % t.g)
                old = dict(cur)
                cur["self.myReferenceByCLID"], cur["self.myReferenceByPUID"] = c1, p1
                try:
                    inner = k(V(d, "bool"))       # the whole rest of this path is generated inside: it sees the updated tables
                finally:
                    cur.update(old)
                return "(match decref_fn %s (snd %s) with Ok (%s, %s) => let %s := %s in let %s := %s in %s | Exc _ => %s end)" % (
                    env["count"].g, t.g, d, rc, c1, u1, p1, u2, inner, self.raise_("EAssert", env, hs))
            return Sym.expr(self, e, env, hs, k)

        def block(self, stmts, env, hs, k):
            # `if not tracker: return` narrows the optional tracker
            if stmts and isinstance(stmts[0], ast.If) and ast.unparse(stmts[0].test) == "not tracker" and not stmts[0].orelse \
                    and env.get("tracker") is not None and env["tracker"] is not OPAQUE and env["tracker"].ty == "o:tracker":
                x = self.fresh("tr")
                e2 = dict(env)
                e2["tracker"] = V(x, "tracker")
                return "(match %s with None => %s | Some %s => %s end)" % (
                    env["tracker"].g, Sym.block(self, stmts[0].body + stmts[1:], dict(env), hs, k), x,
                    self.block(stmts[1:], e2, hs, k))
            return Sym.block(self, stmts, env, hs, k)

        def leaf(self, v, env):
            return "(XOk (%s, %s))" % (tb("self.myReferenceByCLID")(env), tb("self.myReferenceByPUID")(env))
    def table_get(a, env):
        # d.get(k, None) and -- on a receiver that is provably a builtin dict (every store to the attribute anywhere in the
        # package assigns `{}`: g_reach.attribute_is_always_empty_dict, equivalence E3 there) -- d.get(k)
        if len(a) == 2 and a[1].ty == "none":
            pass
        elif len(a) == 1:
            from translate import g_reach
            if not g_reach.attribute_is_always_empty_dict("myReferenceByCLID"):
                U("remote_decref uses .get(clid) but myReferenceByCLID is not provably a builtin dict")
        else:
            U("remote_decref: myReferenceByCLID.get with an unexpected default")
        return "(zget_ %s %s)" % (a[0].g, tb("self.myReferenceByCLID")(env))
    prims = {"isinstance": (lambda a, env: "true", "bool", False, 2),
             "self.myReferenceByCLID.get": (table_get, "o:tracker", False, None)}
    subs = {"self.myReferenceByCLID": (tb("self.myReferenceByCLID"), "tracker"),
            "self.myReferenceByPUID": (tb("self.myReferenceByPUID"), "tracker")}
    t = TrackerSym(s.name, s.env0, prims, subs, s.outs, s.skip)
    term = t.run(body)
    return ("(* -> the two tables afterwards *)\n"
            "Definition gen_remote_decref (decref_fn : Z -> Z -> res (bool * Z)) (byclid bypuid : list (Z * tracker)) (clid count : Z)\n"
            "  : xres (list (Z * tracker) * list (Z * tracker)) :=\n %s." % term)
