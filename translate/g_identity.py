"""C05: the identity checks of negotiate.py / pb.py / referenceable.py / broker.py, translated.

Generated file IdentityGen.v contains
  * ev1_identity      -- the statements of Negotiation.evaluateNegotiationVersion1 from
                         `theirTubID = offer.get("my-tub-id")` up to and including the `if self.isClient:` block,
                         translated statement by statement by the small translator below (tests, raises, assert),
                         parameterised over `cert` and `tubid_of` (= crypto.digest32 . digest("sha1"));
  * attach_key        -- the `if self.isClient: theirTubRef = self.target else: theirTubRef = self.theirTubRef`
                         of Negotiation.switchToBanana, and the fact that this value is what Tub.brokerAttached and
                         the Broker constructor receive;
  * server_lookup     -- handlePLAINTEXTServer's empty-id test + Listener.lookupTubID's comparison;
  * inbound_url_check -- the comparison in RemoteReferenceTracker.__init__;
  * broker_attached_* -- Tub.brokerAttached: duplicate test raises, then `self.brokers[tubref] = broker`.
Anything that does not have the expected form raises Untranslatable (fail closed)."""
import ast
from translate import pylite as P

PROPERTIES = ["C05"]
OUTPUTS = ["IdentityGen.v"]      # on failure only this file is replaced by the stub (then nothing of C05 builds); on success generate()
                                 # also refreshes gen/NegCodecGen.v (C13), which the C05 closure imports

U = P.Untranslatable


def un(n):
    return ast.unparse(n)


# ------------------------------------------------------------------ the fragment translator
# kinds: "ostr" = native string or None (option (list Z)); "ocert" = certificate or None; "bool"
class Frag:
    def __init__(self, env, patterns):
        self.env = dict(env)            # python expression text -> (gallina term, kind)
        self.patterns = patterns        # python expression text of an assigned value -> (gallina term builder, kind)

    def term(self, e):
        s = un(e)
        if s in self.env:
            return self.env[s]
        if isinstance(e, ast.Constant) and e.value is None:
            return ("None", "none")
        raise U("identity fragment: unknown expression %r at line %s" % (s, getattr(e, "lineno", "?")))

    def test(self, e):
        """python condition -> gallina bool"""
        if isinstance(e, ast.UnaryOp) and isinstance(e.op, ast.Not):
            return "(negb %s)" % self.test(e.operand)
        if isinstance(e, ast.BoolOp):
            f = "andb" if isinstance(e.op, ast.And) else "orb"
            parts = [self.test(v) for v in e.values]
            out = parts[0]
            for p in parts[1:]:
                out = "(%s %s %s)" % (f, out, p)
            return out
        if isinstance(e, ast.Compare) and len(e.ops) == 1:
            op, a, b = e.ops[0], e.left, e.comparators[0]
            if isinstance(op, (ast.Is, ast.IsNot)):
                if not (isinstance(b, ast.Constant) and b.value is None):
                    raise U("identity fragment: `is` against something other than None: " + un(e))
                t, k = self.term(a)
                if k not in ("ostr", "ocert"):
                    raise U("identity fragment: None test on %s" % k)
                return "(%s %s)" % ("opt_is_none" if isinstance(op, ast.Is) else "opt_is_some", t)
            if isinstance(op, (ast.Eq, ast.NotEq)):
                ta, ka = self.term(a)
                tb, kb = self.term(b)
                if ka != "ostr" or kb != "ostr":
                    raise U("identity fragment: comparison of %s with %s in %s" % (ka, kb, un(e)))
                t = "(ostr_eqb %s %s)" % (ta, tb)
                return t if isinstance(op, ast.Eq) else "(negb %s)" % t
            raise U("identity fragment: comparison operator in " + un(e))
        t, k = self.term(e)
        if k == "bool":
            return t
        if k == "ostr":
            return "(ostr_truthy %s)" % t       # None and '' are false
        if k == "ocert":
            return "(opt_is_some %s)" % t
        raise U("identity fragment: truthiness of " + un(e))

    def exc(self, r):
        e = r.exc
        if isinstance(e, ast.Call):
            e = e.func
        if isinstance(e, ast.Name):
            return e.id
        raise U("identity fragment: raise of " + un(r))

    def block(self, stmts, k):
        """k() -> gallina text of what follows"""
        if not stmts:
            return k()
        st, rest = stmts[0], stmts[1:]
        nxt = lambda: self.block(rest, k)
        if isinstance(st, ast.Expr) and isinstance(st.value, ast.Call) and un(st.value.func) == "self.log":
            return nxt()
        if isinstance(st, ast.Expr) and isinstance(st.value, ast.Constant):
            return nxt()
        if isinstance(st, ast.Pass):
            return nxt()
        if isinstance(st, ast.Raise):
            return 'Exc "%s"' % self.exc(st)
        if isinstance(st, ast.Assert):
            if getattr(self, "drop_asserts", False):      # python -O: the statement is not compiled at all
                return nxt()
            return '(if %s then %s else Exc "AssertionError")' % (self.test(st.test), nxt())
        if isinstance(st, ast.If):
            c = self.test(st.test)
            # special form: the certificate is bound in the branch where it is known to be present
            if un(st.test) == "self.theirCertificate is None":
                saved = dict(self.env)
                a = self.block(st.body, nxt)
                self.env = dict(saved)
                self.env["self.theirCertificate!"] = ("the_cert", "cert")
                b = self.block(st.orelse, nxt)
                self.env = saved
                return "(match theirCertificate with\n | None => %s\n | Some the_cert => %s\n end)" % (a, b)
            saved = dict(self.env)
            a = self.block(st.body, nxt)
            self.env = dict(saved)
            b = self.block(st.orelse, nxt)
            self.env = saved
            return "(if %s\n then %s\n else %s)" % (c, a, b)
        if isinstance(st, ast.Assign) and len(st.targets) == 1:
            tgt, val = un(st.targets[0]), un(st.value)
            if val in self.patterns:
                build, kind = self.patterns[val]
                term = build(self)
                name = tgt.replace("self.", "self_")
                self.env[tgt] = (name, kind)
                return "(let %s := %s in\n %s)" % (name, term, nxt())
            if val in self.env:      # alias, e.g. self.theirTubRef = theirTubRef
                self.env[tgt] = self.env[val]
                return nxt()
            raise U("identity fragment: unrecognised assignment `%s` at line %d" % (un(st), st.lineno))
        raise U("identity fragment: unrecognised statement `%s` at line %d" % (un(st)[:80], st.lineno))


def has_if(fn, test, first_stmt):
    return any(isinstance(n, ast.If) and un(n.test) == test and un(n.body[0]) == first_stmt for n in ast.walk(fn))


def need_cert(fr):
    if "self.theirCertificate!" not in fr.env:
        raise U("identity fragment: the certificate digest is taken where the certificate may be None")
    return "(Some (tubid_of the_cert))"


_EV1 = {}


class _Rename(ast.NodeTransformer):
    def __init__(self, m):
        self.m = m

    def visit_Name(self, n):
        if n.id in self.m:
            return ast.copy_location(ast.Name(id=self.m[n.id], ctx=n.ctx), n)
        return n


def the_ev1(mod):
    """evaluateNegotiationVersion1 as the translators below read it.

    ACCEPTED FORM (besides the identity checks standing in the method itself): the checks live in ONE helper method of
    Negotiation that evaluateNegotiationVersion1 calls as a top-level statement
            <t1>, <t2> = self.<helper>(<name>)
    Then the helper's body is put in place of that statement (names of the helper's two results renamed to <t1>, <t2>, its
    parameter to <name>) and everything below works on the result.
    Equivalence (for all inputs, no assumption on value types): a call `self.h(x)` of a method with parameters (self, p), no
    defaults / star-args / decorators, whose body contains no nested scope (def, lambda, comprehension-free of its own names is
    not needed: comprehensions are refused too), no yield, global, nonlocal, try, with, and exactly one `return a, b` as its
    LAST statement with a, b distinct local names, evaluates `x` (a plain name: no effect), binds p to it, runs the body and
    binds t1, t2 to the values of a, b: exactly what the substituted statements do, provided the helper's other locals do not
    occur in the caller (checked: otherwise refused) -- so no caller variable is captured or clobbered -- and p, a, b are
    not otherwise bound to caller names.  An exception raised in the body propagates from the same point in both forms; the
    attribute stores on self happen in the same order.  (Overriding the helper in a subclass is outside what any of these
    translators read: they read class Negotiation.)"""
    if id(mod) in _EV1:
        return _EV1[id(mod)]
    import copy
    ev1 = P.find_def(mod, "Negotiation.evaluateNegotiationVersion1")
    res = ev1
    if not any(isinstance(s_, ast.Assign) and un(s_.targets[0]) == "theirTubID" for s_ in ev1.body):
        cands = [i for i, s_ in enumerate(ev1.body)
                 if isinstance(s_, ast.Assign) and len(s_.targets) == 1 and isinstance(s_.targets[0], ast.Tuple)
                 and len(s_.targets[0].elts) == 2 and all(isinstance(e, ast.Name) for e in s_.targets[0].elts)
                 and isinstance(s_.value, ast.Call) and isinstance(s_.value.func, ast.Attribute)
                 and isinstance(s_.value.func.value, ast.Name) and s_.value.func.value.id == "self"
                 and len(s_.value.args) == 1 and isinstance(s_.value.args[0], ast.Name) and not s_.value.keywords]
        if len(cands) == 1:
            i = cands[0]
            call = ev1.body[i]
            t1, t2 = [e.id for e in call.targets[0].elts]
            h = P.find_def(mod, "Negotiation." + call.value.func.attr)
            a = h.args
            if not isinstance(h, ast.FunctionDef) or h.decorator_list or a.vararg or a.kwarg or a.kwonlyargs or a.defaults \
                    or getattr(a, "posonlyargs", []) or [x.arg for x in a.args][:1] != ["self"] or len(a.args) != 2:
                raise U("identity helper %s: unsupported signature" % h.name)
            hb = [x for x in h.body if not (isinstance(x, ast.Expr) and isinstance(x.value, ast.Constant))]
            last = hb[-1] if hb else None
            if not (isinstance(last, ast.Return) and isinstance(last.value, ast.Tuple) and len(last.value.elts) == 2
                    and all(isinstance(e, ast.Name) for e in last.value.elts)):
                raise U("identity helper %s: does not end in `return <name>, <name>`" % h.name)
            r1, r2 = [e.id for e in last.value.elts]
            bad = (ast.Return, ast.Yield, ast.YieldFrom, ast.Lambda, ast.FunctionDef, ast.AsyncFunctionDef, ast.ClassDef, ast.Global,
                   ast.Nonlocal, ast.Try, ast.With, ast.ListComp, ast.SetComp, ast.DictComp, ast.GeneratorExp, ast.NamedExpr, ast.Delete)
            for st in hb[:-1]:
                for n in ast.walk(st):
                    if isinstance(n, bad):
                        raise U("identity helper %s: %s at line %d" % (h.name, type(n).__name__, n.lineno))
            param = a.args[1].arg
            stores = {n.id for st in hb for n in ast.walk(st) if isinstance(n, ast.Name) and isinstance(n.ctx, ast.Store)}
            if r1 == r2 or param in stores or r1 not in stores or r2 not in stores or t1 == t2:
                raise U("identity helper %s: parameter / result names are not plain locals" % h.name)
            caller_names = {n.id for st in ev1.body[:i] + ev1.body[i + 1:] for n in ast.walk(st) if isinstance(n, ast.Name)}
            caller_names |= {x.arg for x in ev1.args.args}
            helper_names = {n.id for st in hb for n in ast.walk(st) if isinstance(n, ast.Name)}
            ren = {r1: t1, r2: t2, param: call.value.args[0].id}
            for nm in helper_names:
                if nm in ren:
                    continue
                if nm in (t1, t2):
                    raise U("identity helper %s: local %s would be captured by the caller's result name" % (h.name, nm))
                if nm in stores and nm in caller_names:
                    raise U("identity helper %s: local %s also occurs in evaluateNegotiationVersion1" % (h.name, nm))
            new = [_Rename(ren).visit(copy.deepcopy(st)) for st in hb[:-1]]
            res = copy.copy(ev1)
            res.body = ev1.body[:i] + new + ev1.body[i + 1:]
    _EV1[id(mod)] = res
    return res


def gen_ev1(mod, out):
    ev1 = the_ev1(mod)
    body = ev1.body
    starts = [i for i, s in enumerate(body) if isinstance(s, ast.Assign) and un(s.targets[0]) == "theirTubID"]
    if len(starts) != 1:
        raise U("evaluateNegotiationVersion1: expected exactly one top-level assignment to theirTubID")
    i0 = starts[0]
    if un(body[i0].value) not in ("offer.get('my-tub-id')", "offer.get('my-tub-id', None)"):
        raise U("evaluateNegotiationVersion1: theirTubID is no longer offer.get('my-tub-id'): " + un(body[i0].value))
    ends = [i for i, s in enumerate(body) if isinstance(s, ast.If) and un(s.test) == "self.isClient"]
    if len(ends) != 1 or ends[0] < i0:
        raise U("evaluateNegotiationVersion1: expected one top-level `if self.isClient:` after the claim is read")
    i1 = ends[0]
    # nothing before the fragment may return, or touch the values the fragment reads
    watched = ("theirTubID", "theirTubRef", "self.theirTubRef", "self.theirCertificate", "self.target", "self.isClient")
    for s in body[:i0]:
        for n in ast.walk(s):
            if isinstance(n, ast.Return):
                raise U("evaluateNegotiationVersion1: return before the identity checks (line %d)" % n.lineno)
            if isinstance(n, (ast.Assign, ast.AugAssign)):
                ts = n.targets if isinstance(n, ast.Assign) else [n.target]
                for t in ts:
                    if un(t) in watched:
                        raise U("evaluateNegotiationVersion1: %s assigned before the identity checks" % un(t))
    # ... and nothing after it may rebind them (the value computed here is what switchToBanana uses)
    for s in body[i1 + 1:]:
        for n in ast.walk(s):
            if isinstance(n, (ast.Assign, ast.AugAssign)):
                ts = n.targets if isinstance(n, ast.Assign) else [n.target]
                for t in ts:
                    for tt in (t.elts if isinstance(t, ast.Tuple) else [t]):
                        if un(tt) in watched:
                            raise U("evaluateNegotiationVersion1: %s re-assigned after the identity checks (line %d)"
                                    % (un(tt), n.lineno))
    # try/except around the fragment would swallow the raises
    for n in ast.walk(ev1):
        if isinstance(n, ast.Try):
            raise U("evaluateNegotiationVersion1 contains try/except (line %d)" % n.lineno)
    env = {"theirTubID": ("theirTubID", "ostr"), "self.isClient": ("isClient", "bool"),
           "self.target": ("(Some target)", "ostr"), "self.theirCertificate": ("theirCertificate", "ocert")}
    patterns = {
        "crypto.digest32(self.theirCertificate.digest('sha1'))": (need_cert, "ostr"),
        "referenceable.TubRef(theirTubID)": (lambda fr: "theirTubID", "ostr"),   # TubRef equality is by tubID (checked below)
    }
    fr = Frag(env, patterns)

    def done():
        if "self.theirTubRef" not in fr.env:
            raise U("evaluateNegotiationVersion1: self.theirTubRef is not set by the identity checks")
        return "Ok %s" % fr.env["self.theirTubRef"][0]
    seg = body[i0 + 1:i1 + 1]
    i_cert = [i for i, x in enumerate(seg) if isinstance(x, ast.If) and un(x.test) == "self.theirCertificate is None"]
    i_assert = [i for i, x in enumerate(seg) if isinstance(x, ast.Assert)]
    i_store = [i for i, x in enumerate(seg) if isinstance(x, ast.Assign) and un(x.targets[0]) == "self.theirTubRef"]
    if not (len(i_cert) == 1 and len(i_assert) == 1 and len(i_store) == 1 and i_cert[0] < i_assert[0] < i_store[0] < len(seg) - 1):
        raise U("evaluateNegotiationVersion1: expected certificate test, assert, `self.theirTubRef = ..`, client test in that order")
    text = fr.block(seg, done)
    fr2 = Frag(env, patterns)
    fr2.drop_asserts = True
    fr, fr_keep = fr2, fr
    text2 = fr2.block(seg, done)
    fr = fr_keep
    out.append("Section Ev1.\nVariable cert : Type.\nVariable tubid_of : cert -> list Z.\n\n"
               "(* evaluateNegotiationVersion1, identity checks: result = the tub id stored in self.theirTubRef *)\n"
               "Definition ev1_identity (isClient : bool) (target : list Z) (theirCertificate : option cert)\n"
               "   (theirTubID : option (list Z)) : res (option (list Z)) :=\n %s.\n\n"
               "(* the same statements as python -O runs them: `assert` statements are not executed *)\n"
               "Definition ev1_identity_noassert (isClient : bool) (target : list Z) (theirCertificate : option cert)\n"
               "   (theirTubID : option (list Z)) : res (option (list Z)) :=\n %s.\nEnd Ev1."
               % (text, text2))
    # where the certificate comes from: handleENCRYPTED
    hef = P.find_def(mod, "Negotiation.handleENCRYPTED")
    he = un(hef)
    for frag in ("self.theirCertificate = None", "them = crypto.peerFromTransport(self.transport)"):
        if frag not in he:
            raise U("handleENCRYPTED no longer contains: " + frag)
    if not has_if(hef, "them and them.original", "self.theirCertificate = them"):
        raise U("handleENCRYPTED no longer contains: if them and them.original: self.theirCertificate = them")
    cls = P.find_class(mod, "Negotiation")
    n_assign = sum(1 for n in ast.walk(cls) if isinstance(n, ast.Assign) for t in n.targets if un(t) == "self.theirCertificate")
    if n_assign != 2:
        raise U("self.theirCertificate is assigned in %d places (expected the 2 in handleENCRYPTED)" % n_assign)
    n_ref = sum(1 for n in ast.walk(cls) if isinstance(n, ast.Assign) for t in n.targets if un(t) == "self.theirTubRef")
    if n_ref != 1:
        raise U("self.theirTubRef is assigned in %d places (expected 1)" % n_ref)
    n_tgt = sum(1 for n in ast.walk(cls) if isinstance(n, ast.Assign) for t in n.targets if un(t) == "self.target")
    if n_tgt != 1 or "self.target = connector.target" not in un(P.find_def(mod, "Negotiation.initClient")):
        raise U("self.target is no longer exactly connector.target")


def gen_switch(mod, out):
    sw = P.find_def(mod, "Negotiation.switchToBanana")
    ifs = [s for s in sw.body if isinstance(s, ast.If) and un(s.test) == "self.isClient"
           and len(s.body) == 1 and isinstance(s.body[0], ast.Assign) and un(s.body[0].targets[0]) == "theirTubRef"]
    if len(ifs) != 1 or len(ifs[0].orelse) != 1 or not isinstance(ifs[0].orelse[0], ast.Assign) \
            or un(ifs[0].orelse[0].targets[0]) != "theirTubRef":
        raise U("switchToBanana: expected `if self.isClient: theirTubRef = .. else: theirTubRef = ..`")
    names = {"self.target": "target", "self.theirTubRef": "their"}
    a, b = un(ifs[0].body[0].value), un(ifs[0].orelse[0].value)
    if a not in names or b not in names:
        raise U("switchToBanana: theirTubRef chosen from %s / %s" % (a, b))
    n_assign = sum(1 for n in ast.walk(sw) if isinstance(n, ast.Assign) for t in n.targets if un(t) == "theirTubRef")
    if n_assign != 2:
        raise U("switchToBanana: theirTubRef assigned %d times" % n_assign)
    out.append("(* switchToBanana: which TubRef the new Broker is created with and registered under *)\n"
               "Definition attach_key (isClient : bool) (target their : list Z) : list Z :=\n"
               " if isClient then %s else %s." % (names[a], names[b]))
    calls = [n for n in ast.walk(sw) if isinstance(n, ast.Call)]
    ba = [c for c in calls if un(c.func) == "self.tub.brokerAttached"]
    if len(ba) != 1 or [un(x) for x in ba[0].args] != ["theirTubRef", "b", "self.isClient"]:
        raise U("switchToBanana: brokerAttached call changed: %s" % [un(c) for c in ba])
    bc = [c for c in calls if un(c.func) == "self.brokerClass"]
    if len(bc) != 1 or not bc[0].args or un(bc[0].args[0]) != "theirTubRef":
        raise U("switchToBanana: the Broker is no longer created with theirTubRef")
    # Broker.__init__ keeps it as remote_tubref
    br = P.find_def(P.load("broker.py"), "Broker.__init__")
    if br.args.args[1].arg != "remote_tubref" or "self.remote_tubref = remote_tubref" not in un(br):
        raise U("Broker.__init__ no longer stores its first argument as remote_tubref")


# ------------------------------------------------------------------ the closed world of switchToBanana
WATCHED = ("switchToBanana", "sendDecision", "brokerAttached", "doNegotiation")


def package_modules(override=None):
    """[(rel, module AST)] for every module of the package outside test/ -- negotiate.py and pb.py as the other translators of this
    file see them (pylite.load: new helpers inlined), every other module as it is written.  override: {rel: AST} used instead of the
    file (the mutation test below)"""
    import os
    out = []
    for d, dirs, files in os.walk(P.SRC):
        dirs[:] = sorted(x for x in dirs if x not in ("test", "__pycache__"))
        for f in sorted(files):
            if not f.endswith(".py"):
                continue
            path = os.path.join(d, f)
            rel = os.path.relpath(path, P.SRC)
            if override and rel in override:
                out.append((rel, override[rel]))
            elif rel in ("negotiate.py", "pb.py"):
                out.append((rel, P.load(rel)))
            else:
                if path not in _RAW:
                    try:
                        with open(path) as fh:
                            _RAW[path] = ast.parse(fh.read())
                    except SyntaxError as e:
                        raise U("%s does not parse (%s): cannot enumerate the callers of switchToBanana" % (rel, e))
                out.append((rel, _RAW[path]))
    return out


_RAW = {}
_OCC = {}


def occurrences(mod):
    """every syntactic occurrence of a WATCHED name in mod: (name, kind, qualified owner, node, chain of enclosing nodes).
    kinds: def, class, attr (x.NAME, any context), name (bare NAME, any context), str (a string constant equal to NAME: getattr /
    setattr / __dict__ access), kw (keyword argument), param (parameter), import (imported or aliased name)"""
    if id(mod) in _OCC and _OCC[id(mod)][0] is mod:
        return _OCC[id(mod)][1]
    found = []

    def walk(n, owner, chain):
        if isinstance(n, (ast.FunctionDef, ast.AsyncFunctionDef)):
            if n.name in WATCHED:
                found.append((n.name, "def", owner, n, chain))
            owner = (owner + "." if owner else "") + n.name
        elif isinstance(n, ast.ClassDef):
            if n.name in WATCHED:
                found.append((n.name, "class", owner, n, chain))
            owner = (owner + "." if owner else "") + n.name
        elif isinstance(n, ast.Attribute) and n.attr in WATCHED:
            found.append((n.attr, "attr", owner, n, chain))
        elif isinstance(n, ast.Name) and n.id in WATCHED:
            found.append((n.id, "name", owner, n, chain))
        elif isinstance(n, ast.Constant) and isinstance(n.value, (str, bytes)) and \
                (n.value.decode("latin-1") if isinstance(n.value, bytes) else n.value) in WATCHED:
            found.append((n.value if isinstance(n.value, str) else n.value.decode("latin-1"), "str", owner, n, chain))
        elif isinstance(n, ast.keyword) and n.arg in WATCHED:
            found.append((n.arg, "kw", owner, n, chain))
        elif isinstance(n, ast.arg) and n.arg in WATCHED:
            found.append((n.arg, "param", owner, n, chain))
        elif isinstance(n, ast.alias) and (n.name.split(".")[-1] in WATCHED or n.asname in WATCHED):
            found.append((n.asname if n.asname in WATCHED else n.name.split(".")[-1], "import", owner, n, chain))
        elif isinstance(n, (ast.Global, ast.Nonlocal)) and any(x in WATCHED for x in n.names):
            found.append(([x for x in n.names if x in WATCHED][0], "import", owner, n, chain))
        for c in ast.iter_child_nodes(n):
            walk(c, owner, chain + [n])
    walk(mod, "", [])
    _OCC[id(mod)] = (mod, found)
    return found


def nodoc(stmts):
    return [x for x in stmts if not (isinstance(x, ast.Expr) and isinstance(x.value, ast.Constant))]


def gen_entry(mod, out, override=None):
    """WHO CAN REACH switchToBanana / Tub.brokerAttached.  lib/IdentityBytes.v lets a Broker be created and registered from exactly two
    places: handleENCRYPTED's accepted hello at the deciding end (evaluateNegotiationVersion1 -> sendDecision -> switchToBanana) and
    handleDECIDING.  That is a statement about the WHOLE package, so it is read from the whole package: every syntactic occurrence of
    the names switchToBanana, sendDecision, brokerAttached and doNegotiation outside test/ (attribute, bare name, string constant equal
    to the name, keyword, parameter, import, definition) has to be one of the sites listed here, in the listed form; anything else --
    a new caller, a bound-method reference stored somewhere, getattr by name -- is refused.

    Negotiation.connectionMade holds a third call, `else: self.switchToBanana({})`, taken when `self.doNegotiation` is false: it would
    register self.target (client) with no check at all.  It is accepted only as the else-branch of `if self.doNegotiation:` and only
    when doNegotiation is the class constant True of Negotiation and nothing in the package stores to that name (no assignment to an
    attribute or a bare name doNegotiation, no keyword, no setattr-able string); then the branch is dead and the model starts at
    b_init.  (A subclass defined outside the package that overrides these is outside what any translator of this file reads; inside
    the package a class deriving from Negotiation is refused.)"""
    mods = package_modules(override)
    occ = [(rel,) + o for rel, m in mods for o in occurrences(m)]

    def where(o):
        rel, name, kind, owner, node, chain = o
        return "%s:%s %s of %s in %s" % (rel, getattr(node, "lineno", "?"), kind, name, owner or "<module>")
    # classes deriving from Negotiation inside the package
    for rel, m in mods:
        for n in ast.walk(m):
            if isinstance(n, ast.ClassDef) and any(un(b).split(".")[-1] == "Negotiation" for b in n.bases):
                raise U("%s: class %s derives from Negotiation (it may override connectionMade / switchToBanana / doNegotiation)" % (rel, n.name))
    cls = P.find_class(mod, "Negotiation")
    # ---- doNegotiation
    dn = [s for s in cls.body if isinstance(s, (ast.Assign, ast.AnnAssign, ast.AugAssign))
          and any(isinstance(t, ast.Name) and t.id == "doNegotiation" for t in ast.walk(s))]
    if len(dn) != 1 or not isinstance(dn[0], ast.Assign) or len(dn[0].targets) != 1 or un(dn[0].targets[0]) != "doNegotiation" \
            or not isinstance(dn[0].value, ast.Constant) or dn[0].value.value is not True:
        raise U("Negotiation.doNegotiation is not the class constant True (%s): connectionMade would call switchToBanana -- register "
                "the dialled TubRef -- without any negotiation" % "; ".join(un(s) for s in dn))
    cm = P.find_def(mod, "Negotiation.connectionMade")
    cmb = nodoc(cm.body)
    if [a.arg for a in cm.args.args] != ["self"] or len(cmb) != 1 or not isinstance(cmb[0], ast.If) or un(cmb[0].test) != "self.doNegotiation":
        raise U("connectionMade: expected a single `if self.doNegotiation:` statement")
    neg = cmb[0]
    if len(neg.body) != 1 or not isinstance(neg.body[0], ast.If) or un(neg.body[0].test) != "self.isClient" \
            or [un(x) for x in neg.body[0].body] != ["self.connectionMadeClient()"] \
            or [un(x) for x in neg.body[0].orelse] != ["self.connectionMadeServer()"]:
        raise U("connectionMade: the negotiating branch is no longer `if self.isClient: connectionMadeClient() else: connectionMadeServer()`")
    orelse = [un(x) for x in neg.orelse]
    if orelse not in ([], ["self.switchToBanana({})"]):
        raise U("connectionMade: the non-negotiating branch is %r" % orelse)
    sites = {}           # id(node) -> site name, for every accepted occurrence

    def accept(o, site):
        sites[id(o[4])] = site
    for o in occ:
        rel, name, kind, owner, node, chain = o
        parent = chain[-1] if chain else None
        gparent = chain[-2] if len(chain) > 1 else None
        is_call_stmt = kind == "attr" and isinstance(parent, ast.Call) and parent.func is node and isinstance(gparent, ast.Expr) \
            and isinstance(node.ctx, ast.Load)
        fn = next((c for c in reversed(chain) if isinstance(c, (ast.FunctionDef, ast.AsyncFunctionDef, ast.Lambda))), None)
        top = is_call_stmt and fn is not None and not isinstance(fn, ast.Lambda) and gparent in fn.body      # a top-level statement of its method
        if name == "doNegotiation":
            if rel == "negotiate.py" and kind == "name" and node is dn[0].targets[0]:
                accept(o, "const")
            elif rel == "negotiate.py" and kind == "attr" and node is neg.test:
                accept(o, "test")
            else:
                raise U("doNegotiation is mentioned outside its definition and connectionMade's test: " + where(o))
        elif name == "switchToBanana":
            if rel == "negotiate.py" and kind == "def" and owner == "Negotiation" and node in cls.body:
                accept(o, "def")
            elif rel == "negotiate.py" and is_call_stmt and owner == "Negotiation.connectionMade" and neg.orelse and gparent is neg.orelse[0]:
                accept(o, "SwConnectionMadeWithoutNegotiation")
            elif rel == "negotiate.py" and top and owner == "Negotiation.sendDecision" and un(parent) == "self.switchToBanana(params)" \
                    and gparent is fn.body[-1]:
                accept(o, "SwSendDecision")
            elif rel == "negotiate.py" and top and owner == "Negotiation.handleDECIDING" and un(parent) == "self.switchToBanana(params)" \
                    and gparent is fn.body[-1] and len(fn.body) >= 2 and un(fn.body[-2]) == "params = self.acceptDecision(decision)":
                accept(o, "SwHandleDeciding")
            else:
                raise U("switchToBanana is reached from a place the model does not know: " + where(o))
        elif name == "sendDecision":
            if rel == "negotiate.py" and kind == "def" and owner == "Negotiation" and node in cls.body:
                accept(o, "def")
            elif rel == "negotiate.py" and is_call_stmt and owner == "Negotiation.evaluateNegotiationVersion1" \
                    and un(parent) == "self.sendDecision(decision, params)":
                accept(o, "SdEvaluate")
            elif rel == "negotiate.py" and kind == "attr" and owner == "Negotiation.sendDecision" and isinstance(parent, ast.Call) \
                    and node in parent.args and un(parent.func) in ("self.debug_doTimer", "self.debug_addTimerCallback") \
                    and [un(a) for a in parent.args][-3:] == ["self.sendDecision", "decision", "params"] and un(node.value) == "self":
                accept(o, "SdTimer")       # the test hooks re-schedule the same call with the same arguments (_test_options: trusted unset)
            elif rel == "negotiate.py" and kind == "str" and owner == "Negotiation.sendDecision" and isinstance(parent, ast.Call) \
                    and parent.args and parent.args[0] is node and un(parent.func) == "self.debug_doTimer":
                accept(o, "SdTimerName")   # the NAME of the test timer, not an attribute lookup
            else:
                raise U("sendDecision is reached from a place the model does not know: " + where(o))
        elif name == "brokerAttached":
            if rel == "pb.py" and kind == "def" and owner == "Tub":
                accept(o, "def")
            elif rel == "negotiate.py" and top and owner == "Negotiation.switchToBanana" \
                    and un(parent) == "self.tub.brokerAttached(theirTubRef, b, self.isClient)":
                accept(o, "BaSwitch")
            elif rel == "pb.py" and top and owner == "Tub._createLoopbackBroker" and un(parent) == "self.brokerAttached(tubref, b1, False)":
                accept(o, "BaLoopback")
            else:
                raise U("Tub.brokerAttached is reached from a place the model does not know: " + where(o))
    got = sorted(sites.values())
    want = ["BaLoopback", "BaSwitch", "SdEvaluate", "SdTimer", "SdTimer", "SdTimerName", "SwHandleDeciding", "SwSendDecision", "const", "def", "def", "def", "test"]
    if [x for x in got if x != "SwConnectionMadeWithoutNegotiation"] != want:
        raise U("the callers of switchToBanana / sendDecision / brokerAttached are not the expected ones: %r" % got)
    # sendDecision inside evaluateNegotiationVersion1: in the deciding end's branch, after the identity checks
    ev1 = the_ev1(mod)
    ends = [i for i, s in enumerate(ev1.body) if isinstance(s, ast.If) and un(s.test) == "self.isClient"]
    holders = [i for i, s in enumerate(ev1.body) if isinstance(s, ast.If) and un(s.test) == "iAmTheMaster"
               and any(isinstance(x, ast.Expr) and un(x.value) == "self.sendDecision(decision, params)" for x in s.body)]
    if len(ends) != 1 or len(holders) != 1 or holders[0] < ends[0]:
        raise U("evaluateNegotiationVersion1: self.sendDecision(decision, params) is not a statement of a top-level `if iAmTheMaster:` "
                "after the identity checks")
    sd = P.find_def(mod, "Negotiation.sendDecision")
    if [a.arg for a in sd.args.args] != ["self", "decision", "params"]:
        raise U("sendDecision signature changed")
    for n in ast.walk(sd):
        if isinstance(n, ast.Name) and n.id == "params" and not isinstance(n.ctx, ast.Load):
            raise U("sendDecision rebinds params")
    has_cm = "SwConnectionMadeWithoutNegotiation" in got
    out.append("(* EVERY place in the package (outside test/) from which Negotiation.switchToBanana is called; enumerated over all modules,\n"
               "   any other mention of switchToBanana / sendDecision / brokerAttached is refused by the translator *)\n"
               "Inductive switch_site := SwConnectionMadeWithoutNegotiation | SwSendDecision | SwHandleDeciding.\n"
               "Definition switch_sites : list switch_site := [%sSwSendDecision; SwHandleDeciding].\n"
               "(* Negotiation.doNegotiation: a class constant; nothing in the package stores to that name *)\n"
               "Definition do_negotiation : bool := true.\n"
               "(* Negotiation.connectionMade: is switchToBanana({}) called before a single byte was read? *)\n"
               "Definition connection_made_switches (doNegotiation : bool) : bool := %s."
               % ("SwConnectionMadeWithoutNegotiation; " if has_cm else "", "negb doNegotiation" if has_cm else "false"))


def _append_to(mod, qual, text):
    parts = qual.split(".")
    body = mod.body
    for name in parts:
        node = [n for n in body if isinstance(n, (ast.FunctionDef, ast.ClassDef)) and n.name == name][0]
        body = node.body
    body.extend(ast.parse(text).body)


def _set_do_negotiation(mod, value):
    cls = [n for n in mod.body if isinstance(n, ast.ClassDef) and n.name == "Negotiation"][0]
    st = [x for x in cls.body if isinstance(x, ast.Assign) and un(x.targets[0]) == "doNegotiation"][0]
    st.value = ast.Constant(value=value)


# every entry: (name, module, edit of that module's AST).  Each one opens a path to switchToBanana / Tub.brokerAttached that the
# model does not have, WITHOUT touching any statement the other translators of this file read.
CLOSED_WORLD_MUTANTS = [
    ("doNegotiation = False", "negotiate.py", lambda m: _set_do_negotiation(m, False)),
    ("switchToBanana appended to sendHello", "negotiate.py", lambda m: _append_to(m, "Negotiation.sendHello", "self.switchToBanana({})")),
    ("switchToBanana from connection.py", "connection.py",
     lambda m: m.body.extend(ast.parse("def _skip(n):\n    n.switchToBanana({})").body)),
    ("brokerAttached from Listener", "pb.py",
     lambda m: _append_to(m, "Listener", "def adopt(self, tubref, b):\n    self._tub.brokerAttached(tubref, b, False)")),
    ("doNegotiation = None", "negotiate.py", lambda m: _set_do_negotiation(m, None)),
    ("switchToBanana by name (getattr) in sendHello", "negotiate.py",
     lambda m: _append_to(m, "Negotiation.sendHello", "getattr(self, 'switchToBanana')({})")),
    ("switchToBanana from a new method of Negotiation", "negotiate.py",
     lambda m: _append_to(m, "Negotiation", "def fastPath(self):\n    self.switchToBanana({})")),
    ("bound switchToBanana kept for later in initClient", "negotiate.py",
     lambda m: _append_to(m, "Negotiation.initClient", "self._go = self.switchToBanana")),
    ("sendDecision called from handleENCRYPTED's caller side (sendHello)", "negotiate.py",
     lambda m: _append_to(m, "Negotiation.sendHello", "self.sendDecision({}, {})")),
    ("instance attribute doNegotiation stored in initServer", "negotiate.py",
     lambda m: _append_to(m, "Negotiation.initServer", "self.doNegotiation = listener.doNegotiation")),
    ("class attribute stored from pb.py", "pb.py", lambda m: m.body.extend(ast.parse("negotiate.Negotiation.doNegotiation = False").body)),
    ("setattr by name from connection.py", "connection.py",
     lambda m: m.body.extend(ast.parse("def _plain(n):\n    setattr(n, 'doNegotiation', False)").body)),
    ("subclass of Negotiation in the package", "negotiate.py",
     lambda m: m.body.extend(ast.parse("class QuickNegotiation(Negotiation):\n    pass").body)),
]


def closed_world_selftest(limit=None):
    """MUTATION TEST of gen_entry, run on every check: one edit is applied to the AST of one module of the package (nothing is written
    anywhere) and gen_entry must refuse the package with that module in place of the file.  -> [(mutant name, as expected?, message)].
    First row: the package as it is (must be accepted; when it is not, generate() has already failed and the rows say nothing)."""
    import os
    from translate import normalize
    rows = []
    try:
        gen_entry(P.load("negotiate.py"), [])
        rows.append(("unchanged", True, "accepted"))
    except U as e:
        return [("unchanged", False, "refused: " + str(e)[:200])]
    for name, rel, edit in CLOSED_WORLD_MUTANTS[:limit]:
        m = ast.parse(P.source(rel) if rel in ("negotiate.py", "pb.py") else open(os.path.join(P.SRC, rel)).read())
        try:
            edit(m)
        except (IndexError, KeyError) as e:
            rows.append((name, True, "anchor of the edit not found in this tree (%s): skipped" % e))
            continue
        m = ast.fix_missing_locations(m)
        if rel in ("negotiate.py", "pb.py") and not os.environ.get("VERIF_NO_NORMALIZE"):
            m, _log = normalize.normalize(m, rel, P.SRC)
        try:
            gen_entry(m if rel == "negotiate.py" else P.load("negotiate.py"), [], override={rel: m})
            rows.append((name, False, "ACCEPTED"))
        except U as e:
            rows.append((name, True, "refused: " + str(e)[:160]))
    return rows


def gen_lookup(mod, out):
    hp = P.find_def(mod, "Negotiation.handlePLAINTEXTServer")
    src = un(hp)
    # ACCEPTED FORMS of the empty-id test: `targetTubID == ''`, and `not targetTubID` -- the latter only when targetTubID is
    # assigned exactly once in the method and that assignment is `targetTubID = six.ensure_str(<expr>)`: six.ensure_str returns
    # an instance of `str` or raises, and for a str s, `not s` is `len(s) == 0` is `s == ''` (str defines no __bool__ and its
    # __eq__ with '' is by content); so both tests take the same branch on every value that can reach them.  (No assumption:
    # the type fact is established by the assignment the translator has just seen.)
    tt_assigns = [n for n in ast.walk(hp) if isinstance(n, (ast.Assign, ast.AugAssign, ast.AnnAssign, ast.NamedExpr, ast.For, ast.With))
                  for t in ast.walk(n.targets[0] if isinstance(n, ast.Assign) else getattr(n, "target", n))
                  if isinstance(t, ast.Name) and t.id == "targetTubID" and isinstance(t.ctx, ast.Store)]
    is_str = (len(tt_assigns) == 1 and isinstance(tt_assigns[0], ast.Assign) and len(tt_assigns[0].targets) == 1
              and isinstance(tt_assigns[0].value, ast.Call) and un(tt_assigns[0].value.func) == "six.ensure_str"
              and len(tt_assigns[0].value.args) == 1 and not tt_assigns[0].value.keywords)
    empties = [s for s in hp.body if isinstance(s, ast.If) and not s.orelse
               and (un(s.test) == "targetTubID == ''" or (un(s.test) == "not targetTubID" and is_str))]
    if len(empties) != 1 or not isinstance(empties[0].body[0], ast.Raise):
        raise U("handlePLAINTEXTServer: the empty-tubid refusal changed")
    i_emp = hp.body.index(empties[0])
    if is_str and tt_assigns[0] in hp.body and hp.body.index(tt_assigns[0]) > i_emp:
        raise U("handlePLAINTEXTServer: targetTubID is tested before it is assigned")
    empty_exc = Frag({}, {}).exc(empties[0].body[0])
    for frag in ("targetTubID = six.ensure_str(url[4:])", "tub, redirect = self.listener.lookupTubID(targetTubID)",
                 "self.myTubID = tub.tubID", "self.tub = tub"):
        if frag not in src:
            raise U("handlePLAINTEXTServer no longer contains: " + frag)
    disp = [s for s in hp.body if isinstance(s, ast.If) and un(s.test) == "tub"]
    if len(disp) != 1:
        raise U("handlePLAINTEXTServer: `if tub:` dispatch changed")
    tail = disp[0].orelse
    if len(tail) != 1 or not isinstance(tail[0], ast.If) or un(tail[0].test) != "redirect" \
            or len(tail[0].orelse) != 1 or not isinstance(tail[0].orelse[0], ast.Raise):
        raise U("handlePLAINTEXTServer: unknown-tubid refusal changed")
    unknown_exc = Frag({}, {}).exc(tail[0].orelse[0])
    lk = P.find_def(P.load("pb.py"), "Listener.lookupTubID")
    lks = un(lk)
    # ACCEPTED FORMS of Listener.lookupTubID (after the docstring), read statement by statement:
    #     tubID = six.ensure_str(tubID)
    #     EITHER  tub = None ; if <cmp>: tub = self._tub            (no else)
    #     OR      tub = self._tub if <cmp> else None
    #     optionally  <r> = self._redirects.get(tubID)               (one local, assigned once, immediately before its only use)
    #     return (tub, self._redirects.get(tubID))   resp.   return (tub, <r>)
    # Equivalence: in both spellings <cmp> is evaluated exactly once, before the redirect lookup; `self._tub` is read only when
    # <cmp> is true; tub is None otherwise; the redirect lookup is the last evaluation before the tuple is built, whether it is
    # held in a local for one statement or written in the return: no other evaluation lies between.  Holds for any values.
    st = [x for x in lk.body if not (isinstance(x, ast.Expr) and isinstance(x.value, ast.Constant))]

    def bad():
        raise U("Listener.lookupTubID changed: " + lks)
    if [a.arg for a in lk.args.args] != ["self", "tubID"] or len(st) < 3 or un(st[0]) != "tubID = six.ensure_str(tubID)" \
            or not isinstance(st[-1], ast.Return) or not isinstance(st[-1].value, ast.Tuple) or len(st[-1].value.elts) != 2:
        bad()
    mid = st[1:-1]
    r1, r2 = st[-1].value.elts
    if un(r1) != "tub":
        bad()
    if un(r2) == "self._redirects.get(tubID)":
        pass
    elif isinstance(r2, ast.Name) and mid and isinstance(mid[-1], ast.Assign) and len(mid[-1].targets) == 1 \
            and un(mid[-1].targets[0]) == r2.id and r2.id not in ("tub", "tubID", "self") \
            and un(mid[-1].value) == "self._redirects.get(tubID)" \
            and sum(1 for n in ast.walk(lk) if isinstance(n, ast.Name) and n.id == r2.id) == 2:
        mid = mid[:-1]
    else:
        bad()
    if len(mid) == 2 and un(mid[0]) == "tub = None" and isinstance(mid[1], ast.If) and not mid[1].orelse \
            and [un(x) for x in mid[1].body] == ["tub = self._tub"]:
        test = mid[1].test
    elif len(mid) == 1 and isinstance(mid[0], ast.Assign) and [un(t) for t in mid[0].targets] == ["tub"] \
            and isinstance(mid[0].value, ast.IfExp) and un(mid[0].value.body) == "self._tub" and un(mid[0].value.orelse) == "None":
        test = mid[0].value.test
    else:
        bad()
    if not isinstance(test, ast.Compare) or len(test.ops) != 1 or un(test.left) != "tubID" \
            or un(test.comparators[0]) != "self._tub.tubID":
        bad()

    class _T:
        pass
    ifs = [_T()]
    ifs[0].test = test
    op = ifs[0].test.ops[0]
    if isinstance(op, ast.Eq):
        cmp_ = "(list_eqb requested my_id)"
    elif isinstance(op, ast.NotEq):
        cmp_ = "(negb (list_eqb requested my_id))"
    else:
        raise U("Listener.lookupTubID: comparison operator " + type(op).__name__)
    out.append("(* handlePLAINTEXTServer + Listener.lookupTubID (no redirects configured) *)\n"
               "Definition server_lookup (requested my_id : list Z) : res unit :=\n"
               " if list_is_nil requested then Exc \"%s\"\n else if %s then Ok tt else Exc \"%s\"."
               % (empty_exc, cmp_, unknown_exc))


def gen_inbound(out):
    rm = P.load("referenceable.py")
    init = P.find_def(rm, "RemoteReferenceTracker.__init__")
    guards = [s for s in init.body if isinstance(s, ast.If) and un(s.test) == "url is not None"]
    if len(guards) != 1:
        raise U("RemoteReferenceTracker.__init__: `if url is not None:` guard changed")
    g = guards[0]
    src = un(g)
    for frag in ("expected_tubid = self.broker.remote_tubref.getTubID()",
                 "url_tubid = SturdyRef(url).getTubRef().getTubID()"):
        if frag not in src:
            raise U("RemoteReferenceTracker.__init__ no longer contains: " + frag)
    ifs = [s for s in g.body if isinstance(s, ast.If)]
    if len(ifs) != 1 or not isinstance(ifs[0].test, ast.Compare) or len(ifs[0].test.ops) != 1 \
            or {un(ifs[0].test.left), un(ifs[0].test.comparators[0])} != {"expected_tubid", "url_tubid"} \
            or not isinstance(ifs[0].body[0], ast.Raise) or ifs[0].orelse:
        raise U("RemoteReferenceTracker.__init__: tubid comparison changed")
    op = ifs[0].test.ops[0]
    if isinstance(op, ast.NotEq):
        c = "(negb (list_eqb expected_tubid url_tubid))"
    elif isinstance(op, ast.Eq):
        c = "(list_eqb expected_tubid url_tubid)"
    else:
        raise U("RemoteReferenceTracker.__init__: comparison operator " + type(op).__name__)
    exc = Frag({}, {}).exc(ifs[0].body[0])
    out.append("(* RemoteReferenceTracker.__init__: an inbound my-reference that carries a URL *)\n"
               "Definition inbound_url_check (expected_tubid url_tubid : list Z) : res unit :=\n"
               " if %s then Exc \"%s\" else Ok tt." % (c, exc))
    # TubRef / SturdyRef identity is the tub id
    tr = P.find_class(rm, "TubRef")
    if "return (self.tubID,)" not in un(P.find_def(rm, "TubRef._distinguishers")) \
            or "self._distinguishers() == them._distinguishers()" not in un(P.find_def(rm, "TubRef.__eq__")) \
            or "return not self == them" not in un(P.find_def(rm, "TubRef.__ne__")) \
            or "return hash(self._distinguishers())" not in un(P.find_def(rm, "TubRef.__hash__")) \
            or "self.tubID = tubID and six.ensure_str(tubID)" not in un(P.find_def(rm, "TubRef.__init__")) \
            or "return self.tubID" not in un(P.find_def(rm, "TubRef.getTubID")):
        raise U("TubRef identity is no longer (tubID,)")
    if "return TubRef(self.tubID, self.locationHints)" not in un(P.find_def(rm, "SturdyRef.getTubRef")):
        raise U("SturdyRef.getTubRef changed")
    out.append("Definition tubref_identity_is_tubid : bool := true.")


def gen_tub(out):
    pm = P.load("pb.py")
    ba = P.find_def(pm, "Tub.brokerAttached")
    if [a.arg for a in ba.args.args] != ["self", "tubref", "broker", "isClient"]:
        raise U("Tub.brokerAttached signature changed")
    stores = [n for n in ast.walk(ba) if isinstance(n, ast.Assign) and un(n.targets[0]).startswith("self.brokers[")]
    if len(stores) != 1 or un(stores[0]) != "self.brokers[tubref] = broker" or stores[0] not in ba.body:
        raise U("Tub.brokerAttached: expected one top-level `self.brokers[tubref] = broker`")
    idx = ba.body.index(stores[0])
    dups = [s for s in ba.body[:idx] if isinstance(s, ast.If) and un(s.test) == "tubref in self.brokers"]
    if len(dups) != 1 or not any(isinstance(x, ast.Raise) for x in dups[0].body):
        raise U("Tub.brokerAttached: the duplicate-connection refusal before the store changed")
    # the key that is forgotten / stored / answered is the one the method was called with: its parameters are never rebound
    # (assignment, for-target, with-as, except-as, walrus, del, import, nested def/class/lambda/comprehension of that name)
    for n in ast.walk(ba):
        if isinstance(n, ast.Name) and n.id in ("tubref", "broker", "isClient") and not isinstance(n.ctx, ast.Load):
            raise U("Tub.brokerAttached: parameter %s is rebound at line %d" % (n.id, n.lineno))
        if isinstance(n, ast.ExceptHandler) and n.name in ("tubref", "broker", "isClient"):
            raise U("Tub.brokerAttached: parameter %s is rebound by an except clause" % n.name)
        if isinstance(n, (ast.Import, ast.ImportFrom)) or (n is not ba and isinstance(n, (ast.FunctionDef, ast.ClassDef, ast.Lambda, ast.Global, ast.Nonlocal))):
            raise U("Tub.brokerAttached: %s inside the method" % type(n).__name__)
        if isinstance(n, ast.arg) and n is not None and n.arg in ("tubref", "broker", "isClient") and n not in ba.args.args:
            raise U("Tub.brokerAttached: parameter name reused as an argument name")
    srcba = un(ba)
    for frag in ("del self.tubConnectors[tubref]", "for d in self.waitingForBrokers[tubref]:", "eventual.eventually(d.callback, broker)",
                 "del self.waitingForBrokers[tubref]", "self.tubConnectors[tubref].shutdown()"):
        if frag not in srcba:
            raise U("Tub.brokerAttached no longer contains: " + frag)
    cf = P.find_def(pm, "Tub.connectionFailed")
    for n in ast.walk(cf):
        if isinstance(n, ast.Name) and n.id == "tubref" and not isinstance(n.ctx, ast.Load):
            raise U("Tub.connectionFailed: parameter tubref is rebound at line %d" % n.lineno)
    srccf = un(cf)
    for frag in ("del self.tubConnectors[tubref]", "if tubref in self.brokers:", "waiting = self.waitingForBrokers[tubref]", "d.errback(why)"):
        if frag not in srccf:
            raise U("Tub.connectionFailed no longer contains: " + frag)
    exc = Frag({}, {}).exc([x for x in dups[0].body if isinstance(x, ast.Raise)][0])
    out.append("(* Tub.brokerAttached: `if tubref in self.brokers: raise %s` then `self.brokers[tubref] = broker` *)\n"
               "Definition broker_attached_dup_exc : string := \"%s\"." % (exc, exc))
    if not has_if(P.find_def(pm, "Tub.brokerDetached"), "self.brokers[tubref] is broker", "del self.brokers[tubref]"):
        raise U("Tub.brokerDetached changed")
    # other writers of Tub.brokers
    tub = P.find_class(pm, "Tub")
    writers = sorted(set(f.name for f in tub.body if isinstance(f, ast.FunctionDef) for n in ast.walk(f)
                         if (isinstance(n, ast.Assign) and any(un(t).startswith("self.brokers") for t in n.targets))
                         or (isinstance(n, ast.Delete) and any(un(t).startswith("self.brokers") for t in n.targets))))
    if writers != ["brokerAttached", "brokerDetached", "setup"]:
        raise U("Tub.brokers is written by %s (expected brokerAttached, brokerDetached, setup)" % writers)
    # the tub id is the same function of the certificate on both sides
    se = un(P.find_def(pm, "Tub.setupEncryption"))
    if "self.tubID = crypto.digest32(cert.digest('sha1'))" not in se or "self.myCertificate = cert" not in se:
        raise U("Tub.setupEncryption: tubID is no longer crypto.digest32(cert.digest('sha1'))")
    out.append("Definition tubid_is_digest32_sha1_on_both_sides : bool := true.")
    gb = P.find_def(pm, "Tub.getBrokerForTubRef")
    first = gb.body[0]
    if not (isinstance(first, ast.If) and un(first.test) == "tubref in self.brokers"
            and un(first.body[0]) == "return defer.succeed(self.brokers[tubref])"):
        raise U("Tub.getBrokerForTubRef: the table lookup changed")
    second = gb.body[1]
    if not (isinstance(second, ast.If) and un(second.test) == "tubref.getTubID() == self.tubID"):
        raise U("Tub.getBrokerForTubRef: the loopback test changed")
    gr = un(P.find_def(pm, "Tub._getReference"))
    if "d = self.getBrokerForTubRef(sturdy.getTubRef())" not in gr:
        raise U("Tub._getReference no longer asks getBrokerForTubRef(sturdy.getTubRef())")


PHASES = {"ENCRYPTED": "PhEncrypted", "DECIDING": "PhDeciding", "BANANA": "PhBanana", "ABANDONED": "PhAbandoned"}


def phase_assigns(fn):
    """[(assign node, phase constructor)] for every `self.receive_phase = NAME` inside fn"""
    out = []
    for n in ast.walk(fn):
        if isinstance(n, ast.Assign) and any(un(t) == "self.receive_phase" for t in n.targets):
            v = un(n.value)
            if v not in PHASES:
                raise U("%s: self.receive_phase is set to %s" % (getattr(fn, "name", "?"), v))
            out.append((n, PHASES[v]))
        if isinstance(n, ast.AugAssign) and un(n.target) == "self.receive_phase":
            raise U("%s: augmented assignment to self.receive_phase" % getattr(fn, "name", "?"))
    return out


def gen_phases(mod, out):
    """where the receive phase changes around the evaluation of a hello (what a peer that keeps sending after a
    rejected hello gets to talk to)"""
    cls = P.find_class(mod, "Negotiation")
    out.append("Inductive phase := PhEncrypted | PhDeciding | PhBanana | PhAbandoned.")
    allowed = {"startENCRYPTED", "evaluateNegotiationVersion1", "negotiationFailed", "handleENCRYPTED", "dataReceived"}
    for f in cls.body:
        if isinstance(f, ast.FunctionDef) and f.name not in allowed and phase_assigns(f):
            raise U("self.receive_phase is assigned in Negotiation.%s" % f.name)
    se = phase_assigns(P.find_def(mod, "Negotiation.startENCRYPTED"))
    if [v for _, v in se] != ["PhEncrypted"]:
        raise U("startENCRYPTED no longer sets receive_phase = ENCRYPTED exactly once")
    nf = phase_assigns(P.find_def(mod, "Negotiation.negotiationFailed"))
    if [v for _, v in nf] != ["PhAbandoned"]:
        raise U("negotiationFailed no longer sets receive_phase = ABANDONED exactly once")
    # dataReceived: dispatch on the phase; what the error handler does to the phase
    dr = P.find_def(mod, "Negotiation.dataReceived")
    first_ifs = [s_ for s_ in dr.body if isinstance(s_, ast.If) and un(s_.test) == "self.receive_phase == ABANDONED"]
    if len(first_ifs) != 1 or not isinstance(first_ifs[0].body[0], ast.Return):
        raise U("dataReceived: `if self.receive_phase == ABANDONED: return` changed")
    tries = [s_ for s_ in dr.body if isinstance(s_, ast.Try)]
    if len(tries) != 1 or len(tries[0].handlers) != 1 or un(tries[0].handlers[0].type) != "Exception" \
            or tries[0].finalbody or tries[0].orelse:
        raise U("dataReceived: expected one try/except Exception around the phase dispatch")
    tr = tries[0]
    disp = {}
    for n in ast.walk(ast.Module(body=tr.body, type_ignores=[])):
        if isinstance(n, ast.If) and un(n.test).startswith("self.receive_phase == "):
            disp[un(n.test)[len("self.receive_phase == "):]] = [un(x) for x in n.body]
    if disp.get("ENCRYPTED") != ["self.handleENCRYPTED(header)"] or disp.get("DECIDING") != ["self.handleDECIDING(header)"]:
        raise U("dataReceived: ENCRYPTED/DECIDING dispatch changed: %r" % disp)
    if phase_assigns(ast.Module(body=tr.body, type_ignores=[])):
        raise U("dataReceived: receive_phase assigned inside the dispatch")
    h = tr.handlers[0]
    hs = [(n, PHASES.get(un(n.value))) for n in ast.walk(ast.Module(body=h.body, type_ignores=[]))
          if isinstance(n, ast.Assign) and any(un(t) == "self.receive_phase" for t in n.targets)]
    if not hs:
        handler = "None"
    elif len(hs) == 1 and hs[0][0] in h.body and hs[0][1]:
        handler = "(Some %s)" % hs[0][1]
    else:
        raise U("dataReceived: the error handler assigns receive_phase conditionally or more than once")
    hsrc = un(ast.Module(body=h.body, type_ignores=[]))
    if "self.transport.loseConnection()" not in hsrc or "self.failureReason = why" not in hsrc:
        raise U("dataReceived: the error handler no longer records the failure and drops the connection")
    out.append("(* dataReceived's `except Exception` handler: receive_phase assignment in it, if any *)\n"
               "Definition phase_set_by_error_handler : option phase := %s." % handler)
    # handleENCRYPTED: phase in which evaluateHello runs
    he = P.find_def(mod, "Negotiation.handleENCRYPTED")
    calls = [i for i, s_ in enumerate(he.body) if any(isinstance(n, ast.Call) and un(n.func) == "self.evaluateHello"
                                                     for n in ast.walk(s_))]
    if len(calls) != 1 or un(he.body[calls[0]]) not in ("self.evaluateHello(hello)", "return self.evaluateHello(hello)"):
        raise U("handleENCRYPTED: expected one top-level call self.evaluateHello(hello)")
    ic = calls[0]
    during = "PhEncrypted"
    for n, v in phase_assigns(he):
        if n not in he.body or he.body.index(n) > ic:
            raise U("handleENCRYPTED: receive_phase assigned conditionally or after evaluateHello (line %d)" % n.lineno)
        during = v
    if phase_assigns(P.find_def(mod, "Negotiation.evaluateHello")):
        raise U("evaluateHello assigns receive_phase")
    pre = he.body[:ic]
    order = [un(x) for x in pre]
    want = ["self.theirCertificate = None", "them = crypto.peerFromTransport(self.transport)", "hello = self.parseLines(header)"]
    pos = [next((i for i, t in enumerate(order) if t == w), None) for w in want]
    if None in pos or pos != sorted(pos):
        raise U("handleENCRYPTED: certificate lookup / parseLines order changed")
    errs = [i for i, x in enumerate(pre) if isinstance(x, ast.If) and un(x.test) == "'error' in hello"
            and isinstance(x.body[0], ast.Raise)]
    if len(errs) != 1 or errs[0] < pos[2]:
        raise U("handleENCRYPTED: the `error` block test changed")
    for n, v in phase_assigns(he):
        if he.body.index(n) < errs[0]:
            raise U("handleENCRYPTED: receive_phase assigned before the block is parsed (line %d)" % n.lineno)
    out.append("(* value of receive_phase while evaluateHello (and so every identity check) runs *)\n"
               "Definition phase_during_evaluate_hello : phase := %s." % during)
    # evaluateNegotiationVersion1: the non-deciding end's phase after an accepted hello
    ev1 = the_ev1(mod)
    pa = phase_assigns(ev1)
    ends = [i for i, s_ in enumerate(ev1.body) if isinstance(s_, ast.If) and un(s_.test) == "self.isClient"]
    if len(pa) == 0:
        slave = during
    elif len(pa) == 1:
        node, slave = pa[0]
        holders = [s_ for s_ in ev1.body[ends[0] + 1:] if isinstance(s_, ast.If) and un(s_.test) == "iAmTheMaster"
                   and node in s_.orelse]
        if len(holders) != 1:
            raise U("evaluateNegotiationVersion1: receive_phase is not assigned in the else-branch of a top-level "
                    "`if iAmTheMaster:` after the identity checks (line %d)" % node.lineno)
    else:
        raise U("evaluateNegotiationVersion1 assigns receive_phase %d times" % len(pa))
    out.append("(* phase in which the non-deciding end waits after it accepted a hello *)\n"
               "Definition slave_phase_after_accept : phase := %s." % slave)
    hd = un(P.find_def(mod, "Negotiation.handleDECIDING"))
    for frag in ("decision = self.parseLines(header)", "params = self.acceptDecision(decision)", "self.switchToBanana(params)"):
        if frag not in hd:
            raise U("handleDECIDING no longer contains: " + frag)
    ad = P.find_def(mod, "Negotiation.acceptDecisionVersion1")
    if "self.theirTubRef in self.tub.brokers" not in un(ad):
        raise U("acceptDecisionVersion1 no longer reads self.theirTubRef")


def gen_peer(out):
    cm = P.load("crypto.py")
    defs = [n for n in cm.body if isinstance(n, (ast.FunctionDef, ast.ClassDef)) and n.name == "peerFromTransport"]
    asg = [n for n in cm.body if isinstance(n, ast.Assign) and any(un(t) == "peerFromTransport" for t in n.targets)]
    if defs or len(asg) != 1 or un(asg[0].value) != "Certificate.peerFromTransport":
        raise U("crypto.peerFromTransport is no longer twisted's Certificate.peerFromTransport (the certificate the peer "
                "authenticated the TLS session with)")
    imps = [n for n in cm.body if isinstance(n, ast.ImportFrom) and n.module == "twisted.internet.ssl"
            and any(a.name == "Certificate" and a.asname is None for a in n.names)]
    if len(imps) != 1:
        raise U("crypto.py no longer imports Certificate from twisted.internet.ssl")
    out.append("(* crypto.peerFromTransport = twisted.internet.ssl.Certificate.peerFromTransport *)\n"
               "Inductive cert_choice := LeafOfHandshake.\nDefinition peer_cert_choice : cert_choice := LeafOfHandshake.")


def gen_getref(out):
    """Tub.startService: with which SturdyRef a queued getReference request is resumed"""
    pm = P.load("pb.py")
    ss = P.find_def(pm, "Tub.startService")
    loops = [n for n in ss.body if isinstance(n, ast.For) and un(n.iter) == "self._pending_getReferences"]
    if len(loops) != 1 or not isinstance(loops[0].target, ast.Tuple) or len(loops[0].target.elts) != 2 \
            or not all(isinstance(e, ast.Name) for e in loops[0].target.elts):
        raise U("Tub.startService: expected one `for d, sturdy in self._pending_getReferences:` loop")
    lp = loops[0]
    dvar, svar = [e.id for e in lp.target.elts]
    if any(isinstance(n, (ast.For, ast.While, ast.If, ast.Try)) for st in lp.body for n in ast.walk(st)):
        raise U("Tub.startService: control flow inside the resumption loop")

    def free_in_lambda(lam, name):
        bound = {a.arg for a in lam.args.args + lam.args.kwonlyargs}
        if lam.args.vararg or lam.args.kwarg:
            raise U("Tub.startService: star-args in a resumption lambda")
        return name not in bound and any(isinstance(n, ast.Name) and n.id == name for n in ast.walk(lam.body))

    def default_of(lam, name):
        args = lam.args.args
        defs = lam.args.defaults
        for a, dflt in zip(args[len(args) - len(defs):], defs):
            if a.arg == name:
                return un(dflt)
        return None
    # how the SturdyRef reaches getReference
    binding = None
    fired_with = None
    for st in lp.body:
        if isinstance(st, ast.Assign) and isinstance(st.value, ast.Call) and un(st.value.func) == "eventual.fireEventually":
            fired_with = [un(a) for a in st.value.args]
    for st in lp.body:
        if not (isinstance(st, ast.Expr) and isinstance(st.value, ast.Call) and isinstance(st.value.func, ast.Attribute)
                and st.value.func.attr == "addCallback"):
            continue
        cb = st.value.args[0]
        if un(cb) in ("self.getReference", "self._getReference") and len(st.value.args) == 1:
            if fired_with != [svar]:
                raise U("Tub.startService: getReference is chained to a Deferred that is not fired with the request's SturdyRef")
            binding = "BoundPerIteration"
        elif isinstance(cb, ast.Lambda):
            calls = [n for n in ast.walk(cb.body) if isinstance(n, ast.Call) and un(n.func) in ("self.getReference", "self._getReference")]
            if len(calls) != 1 or [un(a) for a in calls[0].args] != [svar] or calls[0].keywords:
                raise U("Tub.startService: resumption lambda does not call getReference(%s)" % svar)
            if free_in_lambda(cb, svar):
                binding = "BoundLate"          # closes over the loop variable; runs after the loop has finished
            elif default_of(cb, svar) == svar:
                binding = "BoundPerIteration"
            else:
                raise U("Tub.startService: cannot tell which SturdyRef the resumption lambda uses")
        else:
            raise U("Tub.startService: unrecognised callback in the resumption loop: " + un(cb))
    if binding is None:
        raise U("Tub.startService: the queued requests are no longer handed to getReference")
    # where the answer goes: the request's own Deferred
    both = [st.value for st in lp.body if isinstance(st, ast.Expr) and isinstance(st.value, ast.Call)
            and isinstance(st.value.func, ast.Attribute) and st.value.func.attr == "addBoth"]
    if len(both) != 1 or not isinstance(both[0].args[0], ast.Lambda):
        raise U("Tub.startService: expected one addBoth(lambda ...) delivering the answer")
    lam = both[0].args[0]
    if free_in_lambda(lam, dvar) or default_of(lam, dvar) != dvar or un(lam.body) != "%s.callback(%s)" % (dvar, lam.args.args[0].arg):
        raise U("Tub.startService: the answer is no longer delivered to the request's own Deferred")
    out.append("(* Tub.startService: binding of the loop's SturdyRef at the time the queued request is resumed *)\n"
               "Inductive binding := BoundPerIteration | BoundLate.\n"
               "Definition resume_sturdy_binding : binding := %s." % binding)
    gr = P.find_def(pm, "Tub._getReference")
    src = un(gr)
    for frag in ("sturdy = SturdyRef(sturdyOrURL)", "self._pending_getReferences.append((d, sturdy))", "name = sturdy.name",
                 "d = self.getBrokerForTubRef(sturdy.getTubRef())", "d.addCallback(lambda b: b.getYourReferenceByName(name))"):
        if frag not in src:
            raise U("Tub._getReference no longer contains: " + frag)
    if not has_if(gr, "not self.running", "log.msg('Tub.getReference(%s) queued until Tub.startService called' % sturdy, facility='foolscap.tub')") \
            and not any(isinstance(n, ast.If) and un(n.test) == "not self.running" for n in gr.body):
        raise U("Tub._getReference: the `if not self.running:` queueing branch changed")
    n_assign = sum(1 for n in ast.walk(gr) if isinstance(n, ast.Assign) for t in n.targets if un(t) in ("name", "sturdy"))
    if n_assign != 3:
        raise U("Tub._getReference: `sturdy` / `name` are assigned %d times (expected 3)" % n_assign)
    if "return defer.maybeDeferred(self._getReference, sturdyOrURL)" not in un(P.find_def(pm, "Tub.getReference")):
        raise U("Tub.getReference no longer defers to _getReference with its own argument")
    bm = P.load("broker.py")
    if "self.remote_broker.callRemote('getReferenceByName', name=name)" not in un(P.find_def(bm, "Broker.getYourReferenceByName")):
        raise U("Broker.getYourReferenceByName changed")
    if "return self.tub.getReferenceForName(six.ensure_str(name))" not in un(P.find_def(bm, "Broker.remote_getReferenceByName")):
        raise U("Broker.remote_getReferenceByName changed")


# ------------------------------------------------------------------ plaintext guards, statement by statement
def blit(b):
    return "[" + "; ".join(str(x) for x in b) + "]"


class BG:
    """handlePLAINTEXTServer / handlePLAINTEXTClient -> one Gallina term each.  Kinds: bytes, blist (list of bytes), str (decoded
    text, code points), bool.  Everything that can raise is translated into a match whose failing arm is `Exc "<class>"`:
    list index (IndexError), tuple unpacking (ValueError), six.ensure_str on bytes (UnicodeDecodeError: `decode` is a
    parameter of the generated term), raise.  Unknown statement / expression -> Untranslatable."""

    def __init__(self, consts, final):
        self.env = {"header": ("header", "bytes")}
        self.consts = consts
        self.final = final          # callback(self, stmts) -> text or None: recognises the tail of the method
        self.n = 0

    def fresh(self, base):
        self.n += 1
        return "%s_%d" % (base, self.n)

    def cbytes(self, e):
        if isinstance(e, ast.Constant) and isinstance(e.value, bytes):
            return e.value
        if isinstance(e, ast.Name) and e.id not in self.env and isinstance(self.consts.get(e.id), bytes):
            return self.consts[e.id]
        return None

    def cint(self, e):
        if isinstance(e, ast.Constant) and isinstance(e.value, int) and not isinstance(e.value, bool):
            return e.value
        if isinstance(e, ast.Call) and un(e.func) == "len" and len(e.args) == 1 and self.cbytes(e.args[0]) is not None:
            return len(self.cbytes(e.args[0]))
        if isinstance(e, ast.Name) and e.id not in self.env and type(self.consts.get(e.id)) is int:
            return self.consts[e.id]
        return None

    def expr(self, e, k):
        """k(term, kind) -> text"""
        if isinstance(e, ast.Name) and e.id in self.env:
            return k(*self.env[e.id])
        b = self.cbytes(e)
        if b is not None:
            return k(blit(b), "bytes")
        if isinstance(e, ast.Constant) and isinstance(e.value, bool):
            return k("true" if e.value else "false", "bool")
        if isinstance(e, ast.Constant) and isinstance(e.value, str):
            return k(blit([ord(c) for c in e.value]), "str")
        if isinstance(e, ast.Call) and not e.keywords:
            f = e.func
            if isinstance(f, ast.Attribute) and f.attr == "split":
                if len(e.args) == 1 and self.cbytes(e.args[0]):
                    sep = self.cbytes(e.args[0])
                    return self.expr(f.value, lambda t, kd: k("(bsplit %s %s)" % (blit(sep), t), "blist") if kd == "bytes" else self.bad(e))
                if not e.args:
                    return self.expr(f.value, lambda t, kd: k("(bsplit_ws %s)" % t, "blist") if kd == "bytes" else self.bad(e))
            if isinstance(f, ast.Attribute) and f.attr == "startswith" and len(e.args) == 1:
                return self.expr(f.value, lambda t, kd: self.expr(e.args[0], lambda a, ka: k("(prefixb %s %s)" % (a, t), "bool")
                                                                 if (kd, ka) == ("bytes", "bytes") else self.bad(e)))
            if un(f) in ("isSubstring", "util.isSubstring") and len(e.args) == 2:
                return self.expr(e.args[0], lambda a, ka: self.expr(e.args[1], lambda t, kd: k("(bsub %s %s)" % (a, t), "bool")
                                                                   if (kd, ka) == ("bytes", "bytes") else self.bad(e)))
            if un(f) == "six.ensure_str" and len(e.args) == 1:
                def dec(t, kd):
                    if kd == "str":
                        return k(t, "str")
                    if kd != "bytes":
                        return self.bad(e)
                    v = self.fresh("s")
                    return "(match decode %s with None => Exc \"UnicodeDecodeError\" | Some %s => %s end)" % (t, v, k(v, "str"))
                return self.expr(e.args[0], dec)
        if isinstance(e, ast.Subscript):
            sl = e.slice
            if isinstance(sl, ast.Slice) and sl.upper is None and sl.step is None and sl.lower is not None and (self.cint(sl.lower) or 0) >= 0 \
                    and self.cint(sl.lower) is not None:
                n = self.cint(sl.lower)
                return self.expr(e.value, lambda t, kd: k("(skipn %d%%nat %s)" % (n, t), "bytes") if kd == "bytes" else self.bad(e))
            n = self.cint(sl)
            if n is not None and n >= 0:
                def idx(t, kd):
                    if kd != "blist":
                        return self.bad(e)
                    v = self.fresh("x")
                    return "(match nth_error %s %d%%nat with None => Exc \"IndexError\" | Some %s => %s end)" % (t, n, v, k(v, "bytes"))
                return self.expr(e.value, idx)
        if isinstance(e, ast.Compare) and len(e.ops) == 1 and isinstance(e.ops[0], (ast.Eq, ast.NotEq)):
            neg_ = isinstance(e.ops[0], ast.NotEq)

            def cmp_(a, ka):
                def cmp2(b_, kb):
                    if ka != kb or ka not in ("bytes", "str"):
                        return self.bad(e)
                    t = "(list_eqb %s %s)" % (a, b_)
                    return k("(negb %s)" % t if neg_ else t, "bool")
                return self.expr(e.comparators[0], cmp2)
            return self.expr(e.left, cmp_)
        if isinstance(e, ast.UnaryOp) and isinstance(e.op, ast.Not):
            return self.truth(e.operand, lambda t: k("(negb %s)" % t, "bool"))
        return self.bad(e)

    def bad(self, e):
        raise U("plaintext guard: unrecognised expression `%s` at line %s" % (un(e)[:80], getattr(e, "lineno", "?")))

    def truth(self, e, k):
        def tr(t, kd):
            if kd == "bool":
                return k(t)
            if kd in ("bytes", "str", "blist"):
                return k("(negb (list_is_nil %s))" % t)
            return self.bad(e)
        return self.expr(e, tr)

    def effects(self, e, k):
        """evaluate, for their exceptions only, the six.ensure_str calls inside e (text formatting of a message)"""
        calls = [n for n in ast.walk(e) if isinstance(n, ast.Call) and un(n.func) == "six.ensure_str"]
        others = [n for n in ast.walk(e) if isinstance(n, (ast.Call, ast.Subscript)) and n not in calls
                  and not any(n in list(ast.walk(c)) for c in calls)]
        for o in others:
            if isinstance(o, ast.Call) and isinstance(o.func, ast.Name) and o is e:
                continue            # the exception constructor itself
            raise U("plaintext guard: message expression may raise: `%s`" % un(o)[:80])
        if not calls:
            return k()
        if len(calls) > 1:
            raise U("plaintext guard: several conversions in one message")
        return self.expr(calls[0], lambda t, kd: k())

    def block(self, stmts, k):
        if not stmts:
            return k()
        tail = self.final(self, stmts)
        if tail is not None:
            return tail
        st, rest = stmts[0], stmts[1:]
        nxt = lambda: self.block(rest, k)
        if isinstance(st, ast.Expr) and isinstance(st.value, ast.Constant):
            return nxt()
        if isinstance(st, ast.Pass):
            return nxt()
        if isinstance(st, ast.Expr) and isinstance(st.value, ast.Call) and un(st.value.func) == "self.log":
            inner = [n for n in ast.walk(st.value) if isinstance(n, (ast.Call, ast.Subscript)) and n is not st.value]
            if inner:
                raise U("plaintext guard: log call evaluates `%s`" % un(inner[0])[:60])
            return nxt()
        if isinstance(st, ast.Raise):
            exc = Frag({}, {}).exc(st)
            return self.effects(st.exc, lambda: 'Exc "%s"' % exc)
        if isinstance(st, ast.If):
            def branch(t):
                saved, sn = dict(self.env), None
                a = self.block(st.body, nxt)
                self.env = dict(saved)
                b_ = self.block(st.orelse, nxt)
                self.env = saved
                return "(if %s\n then %s\n else %s)" % (t, a, b_)
            return self.truth(st.test, branch)
        if isinstance(st, ast.Assign) and len(st.targets) == 1:
            tg = st.targets[0]
            if isinstance(tg, ast.Name):
                def bind(t, kd):
                    v = self.fresh(tg.id)
                    self.env[tg.id] = (v, kd)
                    return "(let %s := %s in\n %s)" % (v, t, nxt())
                return self.expr(st.value, bind)
            if isinstance(tg, ast.Tuple) and all(isinstance(x, ast.Name) for x in tg.elts) and len({x.id for x in tg.elts}) == len(tg.elts):
                def unpack(t, kd):
                    if kd != "blist":
                        return self.bad(st.value)
                    vs = [self.fresh(x.id) for x in tg.elts]
                    for x, v in zip(tg.elts, vs):
                        self.env[x.id] = (v, "bytes")
                    return "(match %s with\n | [%s] => %s\n | _ => Exc \"ValueError\"\n end)" % (t, "; ".join(vs), nxt())
                return self.expr(st.value, unpack)
        raise U("plaintext guard: unrecognised statement `%s` at line %d" % (un(st)[:80], st.lineno))


def lookup_cmp():
    """Listener.lookupTubID's comparison (forms accepted: see gen_lookup) -> gallina test on (requested, my_id)"""
    lk = P.find_def(P.load("pb.py"), "Listener.lookupTubID")
    tests = [n for n in ast.walk(lk) if isinstance(n, ast.Compare) and un(n.left) == "tubID" and un(n.comparators[0]) == "self._tub.tubID"]
    if len(tests) != 1 or len(tests[0].ops) != 1:
        raise U("Listener.lookupTubID: comparison changed")
    if isinstance(tests[0].ops[0], ast.Eq):
        return "(list_eqb requested my_id)"
    if isinstance(tests[0].ops[0], ast.NotEq):
        return "(negb (list_eqb requested my_id))"
    raise U("Listener.lookupTubID: comparison operator")


def gen_plaintext(mod, out):
    consts = P.module_consts(mod)
    # ---- server
    hp = P.find_def(mod, "Negotiation.handlePLAINTEXTServer")
    if [a.arg for a in hp.args.args] != ["self", "header"]:
        raise U("handlePLAINTEXTServer signature changed")
    sr = P.find_def(mod, "Negotiation.sendRedirect")
    srb = [x for x in sr.body if not (isinstance(x, ast.Expr) and isinstance(x.value, ast.Constant))]
    if len(srb) != 1 or not isinstance(srb[0], ast.Raise):
        raise U("sendRedirect is no longer a single raise (redirects are implemented: the model does not cover them)")
    redirect_exc = Frag({}, {}).exc(srb[0])
    sp = P.find_def(mod, "Negotiation.sendPlaintextServerAndStartENCRYPTED")
    if not any(isinstance(x, ast.Expr) and un(x.value) == "self.startENCRYPTED()" for x in sp.body) \
            or any(isinstance(n, (ast.Raise, ast.Assert)) for n in ast.walk(sp)) or phase_assigns(sp):
        raise U("sendPlaintextServerAndStartENCRYPTED changed")

    def final_server(bg, stmts):
        st = stmts[0]
        if not (isinstance(st, ast.Assign) and un(st) == "(tub, redirect) = self.listener.lookupTubID(targetTubID)"
                or un(st) == "tub, redirect = self.listener.lookupTubID(targetTubID)"):
            return None
        if len(stmts) != 2 or not isinstance(stmts[1], ast.If) or un(stmts[1].test) != "tub":
            raise U("handlePLAINTEXTServer: `if tub:` must directly follow the lookup and end the method")
        d = stmts[1]
        body = [un(x) for x in d.body]
        for need in ("self.tub = tub", "self.myTubID = tub.tubID"):
            if need not in body:
                raise U("handlePLAINTEXTServer: `%s` missing from the `if tub:` branch" % need)
        if body[-1] != "self.sendPlaintextServerAndStartENCRYPTED()" or any(isinstance(n, (ast.Raise, ast.Return)) for x in d.body for n in ast.walk(x)):
            raise U("handlePLAINTEXTServer: the `if tub:` branch must end in sendPlaintextServerAndStartENCRYPTED()")
        t = d.orelse
        if len(t) != 1 or not isinstance(t[0], ast.If) or un(t[0].test) != "redirect" or [un(x) for x in t[0].body] != ["self.sendRedirect(redirect)"] \
                or len(t[0].orelse) != 1 or not isinstance(t[0].orelse[0], ast.Raise):
            raise U("handlePLAINTEXTServer: redirect / unknown-tubid tail changed")
        unknown = Frag({}, {}).exc(t[0].orelse[0])
        term, kd = bg.env["targetTubID"]
        if kd != "str":
            raise U("handlePLAINTEXTServer: targetTubID is not text")
        tails.append((lookup_cmp(), redirect_exc, unknown))
        return "Ok %s" % term
    tails = []
    bg = BG(consts, final_server)

    def nofinal():
        raise U("handlePLAINTEXTServer: fell off the end without the listener lookup")
    srv = bg.block(hp.body, nofinal)
    # every path that does not raise ends in the SAME tail (the lookup and the `if tub:` dispatch; the translator above puts the rest of
    # the method after each branch, so the tail can be reached more than once in the text, always with the same three facts)
    if not tails or len(set(tails)) != 1:
        raise U("handlePLAINTEXTServer: the listener lookup is reached in %d different forms" % len(set(tails)))
    cmp_, redirect_exc, unknown = tails[0]
    # ---- client
    hc = P.find_def(mod, "Negotiation.handlePLAINTEXTClient")
    if [a.arg for a in hc.args.args] != ["self", "header"]:
        raise U("handlePLAINTEXTClient signature changed")

    def final_client(bg, stmts):
        if len(stmts) == 1 and un(stmts[0]) == "self.startENCRYPTED()":
            return "Ok tt"
        return None
    bc = BG(consts, final_client)

    def nofinal_c():
        raise U("handlePLAINTEXTClient: does not end in self.startENCRYPTED()")
    cli = bc.block(hc.body, nofinal_c)
    se = P.find_def(mod, "Negotiation.startENCRYPTED")
    seb = [un(x) for x in se.body if not (isinstance(x, ast.Expr) and (isinstance(x.value, ast.Constant) or un(x.value.func) == "self.log"))]
    if seb != ["self.startTLS(self.tub.myCertificate)", "self.receive_phase = ENCRYPTED", "self.sendHello()"]:
        raise U("startENCRYPTED changed: %r" % seb)
    out.append("(* the tail of handlePLAINTEXTServer: `tub, redirect = self.listener.lookupTubID(targetTubID)` (Listener.lookupTubID's test) and the\n"
               "   `if tub: .. elif redirect: sendRedirect .. else: raise` dispatch; my_id = listener._tub.tubID, redirect = truthiness of\n"
               "   listener._redirects.get(.); Ok = sendPlaintextServerAndStartENCRYPTED was reached *)\n"
               "Definition listener_dispatch (my_id : list Z) (redirect : list Z -> bool) (requested : list Z) : res unit :=\n"
               " if %s then Ok tt else if redirect requested then Exc \"%s\" else Exc \"%s\".\n\n"
               "Section Plain.\nVariable decode : list Z -> option (list Z).   (* six.ensure_str on bytes; None = UnicodeDecodeError *)\n\n"
               "(* Negotiation.handlePLAINTEXTServer, statement by statement, up to the listener lookup: Ok t = the method reached\n"
               "   self.listener.lookupTubID(targetTubID) with targetTubID = t; Exc = it raised before *)\n"
               "Definition plaintext_server_requested (header : list Z) : res (list Z) :=\n %s.\n\n"
               "(* Negotiation.handlePLAINTEXTServer as a whole: Ok = sendPlaintextServerAndStartENCRYPTED was reached *)\n"
               "Definition plaintext_server_guard (my_id : list Z) (redirect : list Z -> bool) (header : list Z) : res unit :=\n"
               " match plaintext_server_requested header with\n | Ok requested => listener_dispatch my_id redirect requested\n | Exc w => Exc w\n end.\n\n"
               "(* Negotiation.handlePLAINTEXTClient, statement by statement; Ok = startENCRYPTED was reached *)\n"
               "Definition plaintext_client_guard (header : list Z) : res unit :=\n %s.\nEnd Plain." % (cmp_, redirect_exc, unknown, srv, cli))


HANDLERS = {"self.handlePLAINTEXTClient(header)": "HPlaintextClient", "self.handlePLAINTEXTServer(header)": "HPlaintextServer",
            "self.handleENCRYPTED(header)": "HEncrypted", "self.handleDECIDING(header)": "HDeciding"}
RPHASES = {"PLAINTEXT": "RPlaintext", "ENCRYPTED": "(RP PhEncrypted)", "DECIDING": "(RP PhDeciding)", "BANANA": "(RP PhBanana)",
           "ABANDONED": "(RP PhAbandoned)"}


def gen_dispatch(mod, out):
    """the phase dispatch of dataReceived, translated: which handler gets a complete header block"""
    dr = P.find_def(mod, "Negotiation.dataReceived")
    tr = [s_ for s_ in dr.body if isinstance(s_, ast.Try)]
    if len(tr) != 1:
        raise U("dataReceived: expected one try block")
    tb = tr[0].body
    heads = [s_ for s_ in tb if isinstance(s_, ast.If) and un(s_.test).startswith("self.receive_phase == ")]
    if len(heads) != 1:
        raise U("dataReceived: expected one top-level phase dispatch in the try block")
    i = tb.index(heads[0])
    pre = [un(x) for x in tb[:i]]
    if not pre or not __import__("re").fullmatch(r"\(?header, self\.buffer\)? = \(?self\.buffer\[:eoh\], self\.buffer\[eoh \+ \w+:\]\)?", pre[-1]):
        raise U("dataReceived: the header is no longer cut off immediately before the dispatch")
    post = tb[i + 1:]
    if len(post) != 1 or not isinstance(post[0], ast.If) or un(post[0].test) != "self.buffer" or post[0].orelse \
            or [un(x) for x in post[0].body] != ["self.dataReceived(b'')"]:
        raise U("dataReceived: `if self.buffer: self.dataReceived(b'')` no longer directly follows the dispatch")
    before = [un(x) for x in dr.body[:dr.body.index(tr[0])] if not (isinstance(x, ast.Expr) and isinstance(x.value, ast.Call) and un(x.value.func) == "self.log")]
    if before[:2] != ["if self.receive_phase == ABANDONED:\n    return", "self.buffer += chunk"]:
        raise U("dataReceived: expected `if self.receive_phase == ABANDONED: return` then `self.buffer += chunk`")

    def tree(stmts):
        if len(stmts) != 1:
            raise U("dataReceived dispatch: a branch with %d statements" % len(stmts))
        st = stmts[0]
        if isinstance(st, ast.Expr) and un(st.value) in HANDLERS:
            return HANDLERS[un(st.value)]
        if isinstance(st, ast.Assert) and isinstance(st.test, ast.Constant) and not st.test.value:
            return "HAssert"
        if isinstance(st, ast.If):
            t = un(st.test)
            if t == "self.isClient":
                c = "isClient"
            elif t.startswith("self.receive_phase == ") and t[len("self.receive_phase == "):] in RPHASES:
                c = "(rphase_eqb ph %s)" % RPHASES[t[len("self.receive_phase == "):]]
            else:
                raise U("dataReceived dispatch: test `%s`" % t)
            if not st.orelse:
                raise U("dataReceived dispatch: a test without else")
            return "(if %s then %s else %s)" % (c, tree(st.body), tree(st.orelse))
        raise U("dataReceived dispatch: unrecognised `%s`" % un(st)[:60])
    out.append("Inductive rphase := RPlaintext | RP (p : phase).\n"
               "Definition rphase_eqb (a b : rphase) : bool :=\n match a, b with RPlaintext, RPlaintext => true\n"
               " | RP PhEncrypted, RP PhEncrypted | RP PhDeciding, RP PhDeciding | RP PhBanana, RP PhBanana | RP PhAbandoned, RP PhAbandoned => true\n"
               " | _, _ => false end.\n"
               "Inductive handler := HPlaintextClient | HPlaintextServer | HEncrypted | HDeciding | HAssert.\n"
               "(* Negotiation.dataReceived: the handler a complete header block is given to *)\n"
               "Definition dispatch (ph : rphase) (isClient : bool) : handler :=\n %s." % tree([heads[0]]))
    # initial phase and the phase after startENCRYPTED
    cls = P.find_class(mod, "Negotiation")
    init = [un(s_.value) for s_ in cls.body if isinstance(s_, ast.Assign) and un(s_.targets[0]) == "receive_phase"]
    if init != ["PLAINTEXT"]:
        raise U("Negotiation.receive_phase no longer starts as PLAINTEXT: %r" % init)
    out.append("Definition initial_phase : rphase := RPlaintext.\nDefinition phase_after_start_encrypted : phase := PhEncrypted.")


def gen_trackers(out):
    """Broker.getTrackerForYourReference: what a my-reference for an ALREADY KNOWN clid does to the tracker's URL.  The tub-id
    check lives in RemoteReferenceTracker.__init__ only; any other store into a tracker's url has to be accounted for."""
    bm = P.load("broker.py")
    fn = P.find_def(bm, "Broker.getTrackerForYourReference")
    if [a.arg for a in fn.args.args] != ["self", "clid", "interfaceName", "url"]:
        raise U("Broker.getTrackerForYourReference signature changed")
    body = [x for x in fn.body if not (isinstance(x, ast.Expr) and isinstance(x.value, ast.Constant)) and not isinstance(x, ast.Assert)
            and not (isinstance(x, ast.If) and all(isinstance(y, ast.Assert) for y in x.body) and not x.orelse)]
    if len(body) != 3 or un(body[0]) != "tracker = self.yourReferenceByCLID.get(clid)" or un(body[2]) != "return tracker" \
            or not isinstance(body[1], ast.If) or un(body[1].test) != "not tracker":
        raise U("Broker.getTrackerForYourReference: expected lookup by clid, `if not tracker:` creation, `return tracker`")
    create = body[1]
    csrc = [un(x) for x in create.body]
    if "tracker = trackerclass(self, clid, url, interfaceName)" not in csrc or "self.yourReferenceByCLID[clid] = tracker" not in csrc:
        raise U("Broker.getTrackerForYourReference: the creation branch changed")
    for n in ast.walk(ast.Module(body=create.body, type_ignores=[])):
        if isinstance(n, ast.Attribute) and n.attr == "url" and isinstance(n.ctx, ast.Store):
            raise U("Broker.getTrackerForYourReference: the creation branch stores a url itself")
    known = create.orelse
    policy = "KeepUrl"
    if known:
        if len(known) != 1 or not isinstance(known[0], ast.If) or known[0].orelse:
            raise U("Broker.getTrackerForYourReference: unrecognised known-clid branch")
        stores = [un(x) for x in known[0].body if isinstance(x, ast.Assign) and any(isinstance(t, ast.Attribute) and t.attr == "url" for t in x.targets)]
        if stores == ["tracker.url = url"]:
            t = un(known[0].test)
            policy = {"url and (not tracker.url)": "SetIfUnset", "url and not tracker.url": "SetIfUnset", "url": "SetAlways",
                      "url is not None": "SetAlways"}.get(t)
            if policy is None:
                raise U("Broker.getTrackerForYourReference: known-clid branch stores the url under the test `%s`" % t)
        elif stores:
            raise U("Broker.getTrackerForYourReference: known-clid branch stores %r" % stores)
    # nobody else writes a tracker's url
    for cls in bm.body:
        if isinstance(cls, ast.ClassDef):
            for f in cls.body:
                if isinstance(f, ast.FunctionDef) and not (cls.name == "Broker" and f.name == "getTrackerForYourReference"):
                    for n in ast.walk(f):
                        if isinstance(n, ast.Attribute) and n.attr == "url" and isinstance(n.ctx, ast.Store):
                            raise U("broker.py: %s.%s stores a .url" % (cls.name, f.name))
    rm = P.load("referenceable.py")
    for cname in ("RemoteReferenceTracker", "RemoteMethodReferenceTracker"):
        try:
            cls = P.find_class(rm, cname)
        except U:
            continue
        for f in cls.body:
            if isinstance(f, ast.FunctionDef):
                st = [n for n in ast.walk(f) if isinstance(n, ast.Attribute) and n.attr == "url" and isinstance(n.ctx, ast.Store)]
                if st and not (cname == "RemoteReferenceTracker" and f.name == "__init__" and len(st) == 1):
                    raise U("referenceable.py: %s.%s stores self.url" % (cname, f.name))
    ru = un(P.find_def(rm, "ReferenceUnslicer.receiveClose"))
    if "self.broker.getTrackerForYourReference(self.clid, self.interfaceName, self.url)" not in ru:
        raise U("ReferenceUnslicer.receiveClose no longer asks getTrackerForYourReference(clid, interfaceName, url)")
    out.append("(* Broker.getTrackerForYourReference: a my-reference for a clid that already has a tracker *)\n"
               "Inductive known_clid_url := KeepUrl | SetIfUnset | SetAlways.\n"
               "Definition known_clid_url_policy : known_clid_url := %s." % policy)


def gen_keys(out):
    """the key path of Tub.getReference, statement by statement: TubRef's identity (_distinguishers / __eq__ / __hash__), which TubRef is
    built from the parsed FURL, which TubRef a negotiated connection is stored under, and how Tub.getBrokerForTubRef finds one for the
    other"""
    rm = P.load("referenceable.py")
    pm = P.load("pb.py")
    FIELD = {"self.tubID": "sr_tub", "self.locationHints": "sr_hints"}
    # TubRef identity (the same reading as translate/g_furl.py makes for C20, kept here so that C05 does not depend on the translation
    # of furl.py / base32.py): the tuple returned by _distinguishers, and __eq__ / __ne__ / __hash__ going through it
    dd = P.find_def(rm, "TubRef._distinguishers")
    rets = [n for n in ast.walk(dd) if isinstance(n, ast.Return)]
    body_d = [x for x in dd.body if not (isinstance(x, ast.Expr) and isinstance(x.value, ast.Constant))]
    if len(rets) != 1 or body_d != rets or not isinstance(rets[0].value, ast.Tuple):
        raise U("TubRef._distinguishers is no longer a single `return (<fields>,)`")
    KF = {"self.tubID": "KTubID", "self.locationHints": "KHints"}
    fields = []
    for e in rets[0].value.elts:
        if un(e) not in KF:
            raise U("TubRef._distinguishers uses %s" % un(e))
        fields.append(KF[un(e)])

    def single_return(qual, forms):
        f = P.find_def(rm, qual)
        b = [x for x in f.body if not (isinstance(x, ast.Expr) and isinstance(x.value, ast.Constant))]
        if len(b) != 1 or not isinstance(b[0], ast.Return) or " ".join(un(b[0].value).split()) not in forms:
            raise U("%s changed: %s" % (qual, un(f)[:120]))
    single_return("TubRef.__eq__", ["type(self) is type(them) and self.__class__ == them.__class__ and (self._distinguishers() == them._distinguishers())",
                                     "type(self) is type(them) and self.__class__ == them.__class__ and self._distinguishers() == them._distinguishers()"])
    single_return("TubRef.__hash__", ["hash(self._distinguishers())"])
    single_return("TubRef.__ne__", ["not self == them"])
    out.append("(* TubRef._distinguishers: the tuple that __eq__ compares and __hash__ hashes *)\n"
               "Inductive kfield := KTubID | KHints.\nDefinition tubref_distinguishers : list kfield := [%s]." % "; ".join(fields))
    out.append("(* a TubRef / the part of a SturdyRef that matters here *)\n"
               "Record sref := { sr_tub : option (list Z); sr_hints : list (list Z); sr_name : option (list Z) }.")
    # TubRef.__init__(tubID, locationHints=None): which attribute each parameter ends up in
    ti = P.find_def(rm, "TubRef.__init__")
    if [a.arg for a in ti.args.args] != ["self", "tubID", "locationHints"] or [un(d) for d in ti.args.defaults] != ["None"]:
        raise U("TubRef.__init__ signature changed")
    body = [x for x in ti.body if not isinstance(x, ast.Assert) and not (isinstance(x, ast.Expr) and isinstance(x.value, ast.Constant))]
    want = ["if locationHints is None:\n    locationHints = []", "self.tubID = tubID and six.ensure_str(tubID)", "self.locationHints = locationHints"]
    if [un(x) for x in body] != want:
        raise U("TubRef.__init__ body changed: %r" % [un(x) for x in body])
    # SturdyRef.getTubRef
    gt = P.find_def(rm, "SturdyRef.getTubRef")
    gb = [x for x in gt.body if not (isinstance(x, ast.Expr) and isinstance(x.value, ast.Constant))]
    if len(gb) != 1 or not isinstance(gb[0], ast.Return) or not isinstance(gb[0].value, ast.Call) or un(gb[0].value.func) != "TubRef" \
            or gb[0].value.keywords or not 1 <= len(gb[0].value.args) <= 2:
        raise U("SturdyRef.getTubRef is no longer `return TubRef(<tubID>[, <hints>])`")
    args = [un(a) for a in gb[0].value.args]
    for a in args:
        if a not in FIELD:
            raise U("SturdyRef.getTubRef passes %s" % a)
    tub_src = FIELD[args[0]]
    hints_src = FIELD[args[1]] if len(args) == 2 else None
    if tub_src != "sr_tub" or hints_src not in (None, "sr_hints"):
        # a list where a string is expected (or the reverse) is a TypeError at run time, not a key
        raise U("SturdyRef.getTubRef builds TubRef(%s)" % ", ".join(args))
    out.append("(* SturdyRef.getTubRef + TubRef.__init__: the TubRef made from a parsed FURL *)\n"
               "Definition sturdy_getTubRef (s : sref) : sref :=\n"
               " {| sr_tub := %s s; sr_hints := %s; sr_name := None |}."
               % (tub_src, "sr_hints s" if hints_src else "[]"))
    # evaluateNegotiationVersion1: theirTubRef = referenceable.TubRef(theirTubID)   (checked present by gen_ev1's pattern)
    out.append("(* evaluateNegotiationVersion1: referenceable.TubRef(theirTubID) -- no location hints *)\n"
               "Definition tubref_of_id (t : list Z) : sref := {| sr_tub := Some t; sr_hints := []; sr_name := None |}.")
    # Tub._getReference: the key handed to getBrokerForTubRef
    gr = P.find_def(pm, "Tub._getReference")
    calls = [n for n in ast.walk(gr) if isinstance(n, ast.Call) and un(n.func) == "self.getBrokerForTubRef"]
    if len(calls) != 1 or [un(a) for a in calls[0].args] != ["sturdy.getTubRef()"] or calls[0].keywords:
        raise U("Tub._getReference: getBrokerForTubRef is no longer called with sturdy.getTubRef()")
    out.append("(* Tub._getReference: self.getBrokerForTubRef(sturdy.getTubRef()) *)\n"
               "Definition getReference_key (s : sref) : sref := sturdy_getTubRef s.")
    # Tub.getBrokerForTubRef: the decision, statement by statement
    gf = P.find_def(pm, "Tub.getBrokerForTubRef")
    if [a.arg for a in gf.args.args] != ["self", "tubref"]:
        raise U("Tub.getBrokerForTubRef signature changed")
    for n in ast.walk(gf):
        if isinstance(n, ast.Name) and n.id == "tubref" and not isinstance(n.ctx, ast.Load):
            raise U("Tub.getBrokerForTubRef rebinds tubref")
    st = [x for x in gf.body if not (isinstance(x, ast.Expr) and isinstance(x.value, ast.Constant))]

    def outcome(stmts):
        """-> gallina term of type gb_outcome for the statements from here to the end of the method"""
        if not stmts:
            raise U("Tub.getBrokerForTubRef: falls off the end")
        x = stmts[0]
        if isinstance(x, ast.If) and not x.orelse:
            t = un(x.test)
            if t == "tubref in self.brokers":
                c = "in_brokers"
            elif t in ("tubref.getTubID() == self.tubID", "self.tubID == tubref.getTubID()"):
                c = "tubid_is_mine"
            elif t in ("tubref not in self.waitingForBrokers", "tubref not in self.tubConnectors"):
                return outcome(stmts[1:])          # bookkeeping of the waiting path (keys: the same parameter)
            else:
                raise U("Tub.getBrokerForTubRef: test `%s`" % t)
            return "(if %s then %s else %s)" % (c, outcome(x.body), outcome(stmts[1:]))
        u = un(x)
        if u == "return defer.succeed(self.brokers[tubref])":
            return "GbExisting"
        if u == "b = self._createLoopbackBroker(tubref)":
            if un(stmts[-1]) != "return defer.succeed(b)":
                raise U("Tub.getBrokerForTubRef: loopback branch changed")
            return "GbLoopback"
        if u == "d = defer.Deferred()":
            rest = [un(y) for y in stmts[1:]]
            if rest[-1] != "return d" or "self.waitingForBrokers[tubref].append(d)" not in rest:
                raise U("Tub.getBrokerForTubRef: waiting branch changed")
            return "GbWait"
        raise U("Tub.getBrokerForTubRef: unrecognised statement `%s`" % u[:70])
    out.append("Inductive gb_outcome := GbExisting | GbLoopback | GbWait.\n"
               "(* Tub.getBrokerForTubRef: answered from Tub.brokers / by a new loopback Broker / later, by brokerAttached *)\n"
               "Definition getBroker_decide (in_brokers tubid_is_mine : bool) : gb_outcome :=\n %s." % outcome(st))
    lb = un(P.find_def(pm, "Tub._createLoopbackBroker"))
    if "self.brokerAttached(tubref, b1, False)" not in lb or "return b1" not in lb:
        raise U("Tub._createLoopbackBroker no longer registers b1 under the requested tubref")
    tc = un(P.find_def(P.load("connection.py"), "TubConnector.__init__"))
    if "self.target = tubref" not in tc:
        raise U("TubConnector.__init__ no longer keeps the requested TubRef as self.target")


def generate():
    mod = P.load("negotiate.py")
    out = [P.PRELUDE % dict(src="negotiate.py, pb.py, referenceable.py, broker.py") + "Require Import Verif.lib.NegBytes.\n"]
    out.append("Definition opt_is_none {A} (o : option A) : bool := match o with None => true | Some _ => false end.\n"
               "Definition opt_is_some {A} (o : option A) : bool := match o with None => false | Some _ => true end.\n"
               "(* == on (str | None) *)\n"
               "Definition ostr_eqb (a b : option (list Z)) : bool :=\n"
               " match a, b with Some x, Some y => list_eqb x y | None, None => true | _, _ => false end.\n"
               "(* truthiness of (str | None) *)\n"
               "Definition ostr_truthy (a : option (list Z)) : bool := match a with Some (_ :: _) => true | _ => false end.")
    gen_ev1(mod, out)
    gen_peer(out)
    gen_phases(mod, out)
    gen_switch(mod, out)
    gen_entry(mod, out)
    gen_lookup(mod, out)
    gen_inbound(out)
    gen_tub(out)
    gen_getref(out)
    gen_plaintext(mod, out)
    gen_dispatch(mod, out)
    gen_trackers(out)
    gen_keys(out)
    # the byte-level model of C05 is instantiated with C13's translated message codec (parseLines, block keys): regenerate it
    # here too so that `--only C05` never builds against a stale copy (same generator, same text; nothing of it is edited)
    from translate import g_negcodec
    codec = g_negcodec.generate()["NegCodecGen.v"]
    return {"IdentityGen.v": "\n\n".join(out) + "\n", "NegCodecGen.v": codec}
