"""The index-token checks of the two root unslicers (slicers/root.py RootUnslicer.openerCheckToken, broker.py
PBRootUnslicer.openerCheckToken), translated by symbolic execution of their bodies into one boolean Coq function
each ("no Violation is raised"), and the shape of RootUnslicer.open that decides when a second index token is
awaited.  Used by C11 (index tokens are judged by the root, not by the schema)."""
import ast
from translate import pylite as P

PROPERTIES = ["C11"]
OUTPUTS = ["OpenerGen.v"]

REGISTRY_MAX = "reduce(max, [len(cname) for cname in list(copyable.CopyableRegistry.keys())])"


class Sym:
    """symbolic execution of the straight-line / if / raise / return subset used by the two functions"""

    def __init__(self, fname):
        self.fname = fname

    def val(self, node, env):
        u = ast.unparse(node)
        if u in ("list(copyable.CopyableRegistry.keys())", "copyable.CopyableRegistry.keys()", "list(copyable.CopyableRegistry)"):
            return "REGKEYS"       # the registered Copyable names; only ever consumed by max(len(.)) over them
        if u == "size":
            return "size"
        if u == "self.maxIndexLength":
            return "maxIndex"
        if u == REGISTRY_MAX:
            return "longest"
        if isinstance(node, ast.Name) and node.id in env:
            return env[node.id]
        if isinstance(node, ast.Call) and ast.unparse(node.func) == "max" and len(node.args) == 2:
            return "(Z.max %s %s)" % (self.val(node.args[0], env), self.val(node.args[1], env))
        if u == "len(cname)":
            return "longest"       # inside `for cname in <registry keys>`: the fold over all names gives the maximum
        # max([X] + [len(c) for c in <registry keys>])  /  max([len(c) for c in <registry keys>] + [X])
        if isinstance(node, ast.Call) and ast.unparse(node.func) == "max" and len(node.args) == 1 and isinstance(node.args[0], ast.BinOp) \
                and isinstance(node.args[0].op, ast.Add):
            parts = [node.args[0].left, node.args[0].right]
            comp = [p_ for p_ in parts if isinstance(p_, ast.ListComp)]
            lit = [p_ for p_ in parts if isinstance(p_, ast.List) and len(p_.elts) == 1]
            if len(comp) == 1 and len(lit) == 1:
                c = comp[0]
                if (len(c.generators) == 1 and not c.generators[0].ifs and isinstance(c.generators[0].target, ast.Name)
                        and (ast.unparse(c.generators[0].iter) in ("list(copyable.CopyableRegistry.keys())", "copyable.CopyableRegistry.keys()", "copyable.CopyableRegistry")
                             or (isinstance(c.generators[0].iter, ast.Name) and env.get(c.generators[0].iter.id) == "REGKEYS"))
                        and ast.unparse(c.elt) == "len(%s)" % c.generators[0].target.id):
                    return "(Z.max %s longest)" % self.val(lit[0].elts[0], env)
        if isinstance(node, ast.Constant) and isinstance(node.value, int):
            return "%d" % node.value
        raise P.Untranslatable("%s: value %s" % (self.fname, u))

    def cond(self, node, env):
        u = ast.unparse(node)
        if u == "typebyte == tokens.STRING":
            return "(ty =? tok_STRING)"
        if u == "typebyte == tokens.VOCAB":
            return "(ty =? tok_VOCAB)"
        if u == "typebyte != tokens.STRING":
            return "(negb (ty =? tok_STRING))"
        if u == "typebyte != tokens.VOCAB":
            return "(negb (ty =? tok_VOCAB))"
        if u == "len(opentype) == 0":
            return "(Nat.eqb (List.length ot) 0)"
        if u in ("tuple(opentype) == ('copyable',)", "list(opentype) == ['copyable']", "opentype == ['copyable']"):
            return "(ot_is_copyable ot)"
        if u == "opentype == ('copyable',)":
            # banana.py hands the LIST of index tokens to openerCheckToken: a list never equals a tuple
            return "false"
        if isinstance(node, ast.Compare) and len(node.ops) == 1 and isinstance(node.ops[0], ast.Gt):
            return "(%s <? %s)" % (self.val(node.comparators[0], env), self.val(node.left, env))
        if isinstance(node, ast.Compare) and len(node.ops) == 1 and isinstance(node.ops[0], ast.GtE):
            return "(%s <=? %s)" % (self.val(node.comparators[0], env), self.val(node.left, env))
        if isinstance(node, ast.BoolOp):
            op = " && " if isinstance(node.op, ast.And) else " || "
            return "(" + op.join(self.cond(v, env) for v in node.values) + ")"
        if isinstance(node, ast.UnaryOp) and isinstance(node.op, ast.Not):
            return "(negb %s)" % self.cond(node.operand, env)
        raise P.Untranslatable("%s: condition %s" % (self.fname, u))

    def run(self, stmts, env):
        """Coq bool: executing stmts (then leaving the function) raises nothing"""
        if not stmts:
            return "true"
        s, rest = stmts[0], list(stmts[1:])
        if isinstance(s, ast.Raise):
            return "false"
        if isinstance(s, ast.Return):
            return "true"
        if isinstance(s, ast.Expr) and isinstance(s.value, ast.Constant):
            return self.run(rest, env)
        if isinstance(s, ast.If):
            return "(if %s then %s else %s)" % (self.cond(s.test, env), self.run(list(s.body) + rest, env), self.run(list(s.orelse) + rest, env))
        if isinstance(s, ast.Assign) and len(s.targets) == 1 and isinstance(s.targets[0], ast.Name):
            nm = s.targets[0].id
            if nm == "why":
                return self.run(rest, env)
            env2 = dict(env)
            env2[nm] = self.val(s.value, env)
            return self.run(rest, env2)
        if isinstance(s, ast.For) and (ast.unparse(s.iter) == "list(copyable.CopyableRegistry.keys())"
                                       or (isinstance(s.iter, ast.Name) and env.get(s.iter.id) == "REGKEYS")) and ast.unparse(s.target) == "cname" \
                and len(s.body) == 1 and not s.orelse and isinstance(s.body[0], ast.Assign) and isinstance(s.body[0].targets[0], ast.Name):
            # for cname in <all registered names>: v = max(v, len(cname))   ==>   v = max(v, longest)
            b = s.body[0]
            nm = b.targets[0].id
            if ast.unparse(b.value) != "max(%s, len(cname))" % nm or nm not in env:
                raise P.Untranslatable("%s: loop body %s" % (self.fname, ast.unparse(b)))
            env2 = dict(env)
            env2[nm] = "(Z.max %s longest)" % env[nm]
            return self.run(rest, env2)
        raise P.Untranslatable("%s: statement %s" % (self.fname, ast.unparse(s)[:120]))


def opener(rel, qual, coqname):
    fn = P.find_def(P.load(rel), qual)
    params = [a.arg for a in fn.args.args]
    if params != ["self", "typebyte", "size", "opentype"]:
        raise P.Untranslatable("%s: parameters %r" % (qual, params))
    body = Sym(qual).run(fn.body, {})
    return ("(* %s.%s: true iff no Violation is raised *)\nDefinition %s (maxIndex longest : Z) (ot : list (list Z)) (ty size : Z) : bool :=\n  %s."
            % (rel, qual, coqname, body))


def open_shape():
    """RootUnslicer.open returns None (= wait for another index token) only when the first token is 'copyable' and it is the only one"""
    fn = P.find_def(P.load("slicers/root.py"), "RootUnslicer.open")
    nones = []

    def walk(stmts, guards):
        for s in stmts:
            if isinstance(s, ast.Return) and (s.value is None or (isinstance(s.value, ast.Constant) and s.value.value is None)):
                nones.append(list(guards))
            elif isinstance(s, ast.If):
                walk(s.body, guards + [ast.unparse(s.test)])
                walk(s.orelse, guards + ["not " + ast.unparse(s.test)])
            elif isinstance(s, (ast.For, ast.While, ast.With, ast.Try)):
                for f in ("body", "orelse", "finalbody"):
                    walk(getattr(s, f, []) or [], guards + ["<loop>"])
                for h in getattr(s, "handlers", []):
                    walk(h.body, guards + ["<except>"])
    walk(fn.body, [])
    last = fn.body[-1]
    falls_off = not isinstance(last, (ast.Raise, ast.Return))
    ok = (nones == [["opentype[0] == 'copyable'"]]) and not falls_off
    # ... and the len(opentype) > 1 branch before it always returns or raises
    cop = [s for s in fn.body if isinstance(s, ast.If) and ast.unparse(s.test) == "opentype[0] == 'copyable'"]
    if len(cop) == 1 and cop[0].body and isinstance(cop[0].body[0], ast.If) and ast.unparse(cop[0].body[0].test) == "len(opentype) > 1":
        inner = cop[0].body[0]
        ok = ok and isinstance(inner.body[-1], (ast.Return, ast.Raise)) and not inner.orelse
    else:
        ok = False
    pb = P.find_def(P.load("broker.py"), "PBRootUnslicer.open")
    ok = ok and "child = RootUnslicer.open(self, opentype)" in ast.unparse(pb) and ast.unparse(pb.body[-1]) == "return child"
    return "Definition open_waits_only_for_copyable_name : bool := %s." % ("true" if ok else "false")


def generate():
    out = [P.PRELUDE % dict(src="slicers/root.py, broker.py (openerCheckToken, open)")]
    out.append("Require Import Verif.gen.BananaGen Verif.lib.OpenerBase.")
    out.append(opener("slicers/root.py", "RootUnslicer.openerCheckToken", "root_opener_accepts"))
    out.append(opener("broker.py", "PBRootUnslicer.openerCheckToken", "pb_opener_accepts"))
    out.append(open_shape())
    bm = P.load("banana.py")
    hd = ast.unparse(P.find_def(bm, "Banana.handleData"))
    if "top.openerCheckToken(typebyte, header, self.opentype)" not in hd:
        raise P.Untranslatable("handleData no longer passes self.opentype to openerCheckToken")
    init = ast.unparse(P.find_def(bm, "Banana.initReceive"))
    if "self.opentype = []" not in init:
        raise P.Untranslatable("Banana.initReceive: self.opentype is no longer a list")
    return {"OpenerGen.v": "\n\n".join(out) + "\n"}
