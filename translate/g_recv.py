"""C07 / C11: the receive path of banana.py read statement by statement.

 * Banana.dataReceived: the abandoned-guard, the try body, WHICH exception classes the handler catches (evaluated on the
   real class hierarchy for the kinds the model distinguishes) and the order of the handler's three effects;
 * Banana.sendError: the transport guard, the truncation rule as a Coq function of the message length, the order of
   the four writes;
 * Banana.handleData: the skip prologue's comparison, the header window / header limit / high-bit test of the header
   scan, the always-legal tuple of the taste, the oversize-ERROR test, and, for every clause of the type-byte dispatch
   that reads a body (STRING, LONGINT/LONGNEG, FLOAT, ERROR): where the body length comes from, what is popped, and
   what happens to an INCOMPLETE body when the token was rejected (drop + skip the rest) or accepted (header pushed back).

Everything that is not recognised raises Untranslatable (fail closed).  lib/RecvTie.v proves that the generated
definitions agree, for all arguments, with the hand-written tokenizer lib/Recv.v."""
import ast
from translate import pylite as P

PROPERTIES = ["C07", "C11"]
OUTPUTS = ["RecvGen.v"]

TOK = ["LIST", "INT", "STRING", "NEG", "FLOAT", "VOCAB", "OPEN", "CLOSE", "ABORT", "LONGINT", "LONGNEG", "ERROR", "PING", "PONG"]


def U(n):
    return ast.unparse(n)


def is_debug(s):
    """`if self.debugReceive: print(...)` (one or more prints), a bare print, a docstring / comment expression, `pass`"""
    if isinstance(s, ast.Pass):
        return True
    if isinstance(s, ast.Expr) and isinstance(s.value, ast.Constant):
        return True
    if isinstance(s, ast.Expr) and isinstance(s.value, ast.Call) and U(s.value.func) == "print":
        return True
    if isinstance(s, ast.If) and U(s.test) == "self.debugReceive" and not s.orelse and all(is_debug(x) for x in s.body):
        return True
    return False


def strip(stmts):
    return [s for s in stmts if not is_debug(s)]


# ------------------------------------------------------------------ dataReceived
def data_received(bm, out):
    fn = P.find_def(bm, "Banana.dataReceived")
    body = strip(fn.body)
    if not body or not (isinstance(body[0], ast.If) and U(body[0].test) == "self.connectionAbandoned" and not body[0].orelse
                        and len(body[0].body) == 1 and isinstance(body[0].body[0], ast.Return) and body[0].body[0].value is None):
        raise P.Untranslatable("dataReceived does not start with `if self.connectionAbandoned: return`")
    tries = [s for s in body if isinstance(s, ast.Try)]
    if len(tries) != 1 or body[-1] is not tries[0]:
        raise P.Untranslatable("dataReceived: expected exactly one try statement, as the last statement")
    for s in body[1:-1]:
        # statements between the guard and the try must not be able to leave the function or raise on their own
        if not (isinstance(s, ast.If) and U(s.test) == "self.useKeepalives" and not s.orelse and len(s.body) == 1
                and U(s.body[0]) == "self.dataLastReceivedAt = time.time()"):
            raise P.Untranslatable("dataReceived: unexpected statement before the try: " + U(s)[:80])
    t = tries[0]
    if t.orelse or t.finalbody or len(t.handlers) != 1:
        raise P.Untranslatable("dataReceived: try with else/finally or several handlers")
    tb = strip(t.body)
    if len(tb) != 1 or U(tb[0]) != "self.handleData(chunk)":
        raise P.Untranslatable("dataReceived: the try body is not `self.handleData(chunk)`")
    h = t.handlers[0]
    # which exceptions are caught: evaluate the handler's class expression on the real hierarchy
    import builtins
    from foolscap import tokens as T
    space = dict(vars(builtins))
    space.update(BananaError=T.BananaError, Violation=T.Violation)
    if h.type is None:
        classes = (BaseException,)
    else:
        names = h.type.elts if isinstance(h.type, ast.Tuple) else [h.type]
        classes = []
        for n in names:
            if not isinstance(n, ast.Name) or n.id not in space or not isinstance(space[n.id], type):
                raise P.Untranslatable("dataReceived: handler class " + U(n))
            classes.append(space[n.id])
        classes = tuple(classes)
    reps = [(0, T.BananaError), (1, KeyError), (2, TypeError), (3, ValueError), (4, UnicodeDecodeError), (5, AssertionError),
            (6, IndexError), (7, AttributeError), (8, T.Violation), (9, Exception)]
    arms = " else ".join("if k =? %d then %s" % (k, "true" if issubclass(c, classes) else "false") for k, c in reps)
    other = "true" if issubclass(Exception, classes) else "false"
    out.append("(* Banana.dataReceived `except %s`: is an exception of kind k caught?  k: 0 BananaError, 1 KeyError, 2 TypeError,\n"
               "   3 ValueError, 4 UnicodeDecodeError, 5 AssertionError, 6 IndexError, 7 AttributeError, 8 Violation, other: any Exception *)"
               % (U(h.type) if h.type is not None else ""))
    out.append("Definition dr_caught (k : Z) : bool := %s else %s." % (arms, other))
    # the handler's effects, in order
    ops = []

    def walk(stmts, cond):
        for s in strip(stmts):
            u = U(s)
            if isinstance(s, ast.Expr) and isinstance(s.value, ast.Call) and U(s.value.func) == "self.sendError":
                ops.append(("HSendError", cond))
            elif u == "self.connectionAbandoned = True":
                ops.append(("HSetAbandoned", cond))
            elif isinstance(s, ast.Expr) and isinstance(s.value, ast.Call) and U(s.value.func) == "self.reportReceiveError":
                ops.append(("HReport", cond))
            elif isinstance(s, ast.If):
                walk(s.body, True)
                walk(s.orelse, True)
            elif isinstance(s, (ast.Assign, ast.AugAssign)):
                tg = s.targets[0] if isinstance(s, ast.Assign) else s.target
                if not isinstance(tg, ast.Name) and U(tg) != "e.where":
                    raise P.Untranslatable("dataReceived handler assigns " + U(tg))
            elif isinstance(s, ast.Assert) and h.name and h.type is not None and U(s.test) == "isinstance(%s, %s)" % (h.name, U(h.type)):
                pass            # true of every exception this handler catches
            elif isinstance(s, (ast.Return, ast.Raise, ast.Try, ast.While, ast.For, ast.With)):
                raise P.Untranslatable("dataReceived handler: " + u[:80])
            else:
                raise P.Untranslatable("dataReceived handler statement: " + u[:80])
    walk(h.body, False)
    if any(c for _, c in ops):
        raise P.Untranslatable("dataReceived handler: sendError / connectionAbandoned / reportReceiveError under a condition")
    out.append("Inductive hop := HSendError | HSetAbandoned | HReport.")
    out.append("Definition dr_handler_ops : list hop := [%s]." % "; ".join(o for o, _ in ops))


# ------------------------------------------------------------------ sendError
def zexpr(node, env):
    """integer expression over n (= len(msg)) and SIZE_LIMIT"""
    if isinstance(node, ast.Constant) and isinstance(node.value, int) and not isinstance(node.value, bool):
        return P.zlit(node.value)
    if isinstance(node, ast.Name) and node.id == "SIZE_LIMIT":
        return "SIZE_LIMIT"
    if isinstance(node, ast.Name) and node.id in env:
        return env[node.id]
    if U(node) == "len(msg)":
        return env["len(msg)"]
    if isinstance(node, ast.BinOp) and isinstance(node.op, (ast.Add, ast.Sub)):
        return "(%s %s %s)" % (zexpr(node.left, env), "+" if isinstance(node.op, ast.Add) else "-", zexpr(node.right, env))
    raise P.Untranslatable("integer expression " + U(node))


CMP = {ast.Gt: ">?", ast.GtE: ">=?", ast.Lt: "<?", ast.LtE: "<=?", ast.Eq: "=?"}


def zcmp(node, env):
    if isinstance(node, ast.Compare) and len(node.ops) == 1 and type(node.ops[0]) in CMP:
        return "(%s %s %s)" % (zexpr(node.left, env), CMP[type(node.ops[0])], zexpr(node.comparators[0], env))
    raise P.Untranslatable("comparison " + U(node))


def send_error(bm, out):
    fn = P.find_def(bm, "Banana.sendError")
    body = strip(fn.body)
    if not (body and isinstance(body[0], ast.If) and U(body[0].test) == "not self.transport" and len(body[0].body) == 1
            and isinstance(body[0].body[0], ast.Return)):
        raise P.Untranslatable("sendError does not start with `if not self.transport: return`")
    env = {"len(msg)": "n"}
    ops = []
    length = "n"            # length of msg as a Coq term in n
    for s in body[1:]:
        u = U(s)
        if u == "msg = six.ensure_binary(msg)":
            continue
        if isinstance(s, ast.If) and not s.orelse and len(strip(s.body)) == 1:
            # if len(msg) CMP LIMIT: msg = msg[:K] + b"..."
            a = strip(s.body)[0]
            if not (isinstance(a, ast.Assign) and U(a.targets[0]) == "msg" and isinstance(a.value, ast.BinOp) and isinstance(a.value.op, ast.Add)
                    and isinstance(a.value.left, ast.Subscript) and U(a.value.left.value) == "msg" and isinstance(a.value.left.slice, ast.Slice)
                    and a.value.left.slice.lower is None and a.value.left.slice.step is None
                    and isinstance(a.value.right, ast.Constant) and isinstance(a.value.right.value, bytes)):
                raise P.Untranslatable("sendError truncation: " + u[:100])
            k = zexpr(a.value.left.slice.upper, {"len(msg)": length})
            cut = "(Z.min %s (Z.max 0 %s) + %d)" % (length, k, len(a.value.right.value))
            length = "(if %s then %s else %s)" % (zcmp(s.test, {"len(msg)": length}), cut, length)
            continue
        if u == "int2b128(len(msg), self.transport.write)":
            ops.append("SeHeader")
        elif u == "self.transport.write(ERROR)":
            ops.append("SeType")
        elif u == "self.transport.write(msg)":
            ops.append("SeBody")
        elif u == "self.transport.loseConnection()":
            ops.append("SeLose")
        else:
            raise P.Untranslatable("sendError statement: " + u[:100])
    out.append("(* Banana.sendError: length of the ERROR body that is written for a message of n bytes *)")
    out.append("Definition se_len (n : Z) : Z := %s." % length)
    out.append("Inductive seop := SeHeader | SeType | SeBody | SeLose.")
    out.append("Definition se_ops : list seop := [%s]." % "; ".join(ops))


# ------------------------------------------------------------------ handleData
def tok_test(node):
    """`typebyte == X` or `typebyte == X or typebyte == Y` or `typebyte in (X, Y)` -> [names]"""
    if isinstance(node, ast.Compare) and len(node.ops) == 1 and U(node.left) == "typebyte":
        if isinstance(node.ops[0], ast.Eq) and isinstance(node.comparators[0], ast.Name) and node.comparators[0].id in TOK:
            return [node.comparators[0].id]
        if isinstance(node.ops[0], ast.In) and isinstance(node.comparators[0], (ast.Tuple, ast.List)) \
                and all(isinstance(e, ast.Name) and e.id in TOK for e in node.comparators[0].elts):
            return [e.id for e in node.comparators[0].elts]
    if isinstance(node, ast.BoolOp) and isinstance(node.op, ast.Or):
        out = []
        for v in node.values:
            r = tok_test(v)
            if r is None:
                return None
            out += r
        return out
    return None


HDR_NAMES = []      # locals of the token loop bound (once) to first65[:pos + 1]


def body_clause(names, stmts):
    """-> (length term in hdr, rejected-incomplete: ('skip', total term) | ('requeue',), accepted-incomplete ('requeue',), popped term)"""
    env = {"header": "hdr"}
    stmts = strip(stmts)
    i = 0
    while i < len(stmts) and isinstance(stmts[i], ast.Assign) and isinstance(stmts[i].targets[0], ast.Name):
        env[stmts[i].targets[0].id] = zexpr(stmts[i].value, env)
        i += 1
    if i != len(stmts) - 1 or not isinstance(stmts[i], ast.If):
        raise P.Untranslatable("clause %s: expected `if len(self.buffer) >= N: ... else: ...`" % names)
    br = stmts[i]
    t = br.test
    if not (isinstance(t, ast.Compare) and len(t.ops) == 1 and isinstance(t.ops[0], ast.GtE) and U(t.left) == "len(self.buffer)"):
        raise P.Untranslatable("clause %s: completeness test %s" % (names, U(t)))
    need = zexpr(t.comparators[0], env)
    # complete branch: exactly one popleft, of `need` bytes
    pops = [n for s in br.body for n in ast.walk(s) if isinstance(n, ast.Call) and U(n.func) == "self.buffer.popleft"]
    if len(pops) != 1 or len(pops[0].args) != 1:
        raise P.Untranslatable("clause %s: the complete branch must pop the body exactly once" % names)
    popped = zexpr(pops[0].args[0], env)
    for s in br.body:
        for n in ast.walk(s):
            if isinstance(n, (ast.Return, ast.Continue, ast.Break)) and "ERROR" not in names:
                raise P.Untranslatable("clause %s: the complete branch leaves the loop" % names)
    inc = strip(br.orelse)
    if not inc or not isinstance(inc[-1], ast.Return) or inc[-1].value is not None:
        raise P.Untranslatable("clause %s: the incomplete branch must end with `return`" % names)
    inc = inc[:-1]

    def action(ss):
        ss = strip(ss)
        us = [U(s) for s in ss]
        if us == ["self.buffer.appendleft(first65[:pos + 1])"] or (len(us) == 1 and us[0] in ["self.buffer.appendleft(%s)" % nm for nm in HDR_NAMES]):
            return ("requeue",)
        if len(ss) == 2 and us[1] == "self.buffer.clear()" and isinstance(ss[0], ast.Assign) and U(ss[0].targets[0]) == "self.skipBytes" \
                and isinstance(ss[0].value, ast.BinOp) and isinstance(ss[0].value.op, ast.Sub) and U(ss[0].value.right) == "len(self.buffer)":
            return ("skip", zexpr(ss[0].value.left, env))
        raise P.Untranslatable("clause %s: incomplete-body action %r" % (names, us))
    if len(inc) == 1 and isinstance(inc[0], ast.If) and U(inc[0].test) == "rejected":
        rej, acc = action(inc[0].body), action(inc[0].orelse)
    elif len(inc) == 1 and isinstance(inc[0], ast.If) and U(inc[0].test) == "not rejected":
        acc, rej = action(inc[0].body), action(inc[0].orelse)
    else:
        rej = acc = action(inc)
    return need, rej, acc, popped


def prologue(stmts, st, top):
    """-> Coq term of type Z * option Z.  st: skip = term, chunk = ("drop", term) | None, names = {local: value}"""
    def ival(node):
        u = U(node)
        if u == "self.skipBytes":
            return st["skip"]
        if u == "len(chunk)":
            if st["chunk"] is None:
                raise P.Untranslatable("prologue: len(None)")
            return "(n - %s)" % st["chunk"][1] if st["chunk"][1] != "0" else "n"
        if isinstance(node, ast.Name) and isinstance(st["names"].get(node.id), str):
            return st["names"][node.id]
        if isinstance(node, ast.Constant) and isinstance(node.value, int) and not isinstance(node.value, bool):
            return P.zlit(node.value)
        if isinstance(node, ast.BinOp) and isinstance(node.op, (ast.Add, ast.Sub)):
            return "(%s %s %s)" % (ival(node.left), "+" if isinstance(node.op, ast.Add) else "-", ival(node.right))
        raise P.Untranslatable("prologue: integer expression " + u)

    def cval(node):
        """chunk-valued expression -> ("drop", term) | None"""
        u = U(node)
        if u == "chunk":
            return st["chunk"]
        if isinstance(node, ast.Constant) and node.value is None:
            return None
        if isinstance(node, ast.Name) and node.id in st["names"] and not isinstance(st["names"][node.id], str):
            return st["names"][node.id]
        if isinstance(node, ast.Subscript) and isinstance(node.slice, ast.Slice) and node.slice.upper is None and node.slice.step is None \
                and node.slice.lower is not None:
            base = cval(node.value)
            if base is None:
                raise P.Untranslatable("prologue: slice of None")
            return ("drop", "(%s + %s)" % (base[1], ival(node.slice.lower)) if base[1] != "0" else ival(node.slice.lower))
        raise P.Untranslatable("prologue: chunk expression " + u)

    def cond(node):
        if isinstance(node, ast.Compare) and len(node.ops) == 1 and type(node.ops[0]) in CMP:
            return "(%s %s %s)" % (ival(node.left), CMP[type(node.ops[0])], ival(node.comparators[0]))
        if isinstance(node, ast.Compare) and len(node.ops) == 1 and isinstance(node.ops[0], (ast.Is, ast.IsNot)) \
                and isinstance(node.comparators[0], ast.Constant) and node.comparators[0].value is None:
            v = cval(node.left)
            r = (v is None) if isinstance(node.ops[0], ast.Is) else (v is not None)
            return "true" if r else "false"
        if isinstance(node, ast.UnaryOp) and isinstance(node.op, ast.Not):
            return "(negb %s)" % cond(node.operand)
        raise P.Untranslatable("prologue: condition " + U(node))

    if not stmts:
        if st["chunk"] is None:
            raise P.Untranslatable("prologue: falls through to buffer.append(None)")
        return "(%s, Some %s)" % (st["skip"], st["chunk"][1])
    s0, rest = stmts[0], list(stmts[1:])
    if isinstance(s0, ast.Return) and s0.value is None:
        return "(%s, None)" % st["skip"]
    if isinstance(s0, ast.If):
        c = cond(s0.test)
        if c == "true":
            return prologue(strip(s0.body) + rest, dict(st, names=dict(st["names"])), False)
        if c == "false":
            return prologue(strip(s0.orelse) + rest, dict(st, names=dict(st["names"])), False)
        a = prologue(strip(s0.body) + rest, dict(st, names=dict(st["names"])), False)
        b = prologue(strip(s0.orelse) + rest, dict(st, names=dict(st["names"])), False)
        return "(if %s then %s else %s)" % (c, a, b)
    if isinstance(s0, ast.AugAssign) and U(s0.target) == "self.skipBytes" and isinstance(s0.op, (ast.Sub, ast.Add)):
        st = dict(st, skip="(%s %s %s)" % (st["skip"], "-" if isinstance(s0.op, ast.Sub) else "+", ival(s0.value)))
        return prologue(rest, st, False)
    if isinstance(s0, ast.Assign) and len(s0.targets) == 1:
        tg = U(s0.targets[0])
        if tg == "self.skipBytes":
            return prologue(rest, dict(st, skip=ival(s0.value)), False)
        if tg == "chunk":
            return prologue(rest, dict(st, chunk=cval(s0.value)), False)
        if isinstance(s0.targets[0], ast.Name):
            names = dict(st["names"])
            try:
                names[tg] = ival(s0.value)
            except P.Untranslatable:
                names[tg] = cval(s0.value)
            return prologue(rest, dict(st, names=names), False)
    raise P.Untranslatable("prologue: statement " + U(s0)[:80])


def close_clause(stmts):
    """the CLOSE clause, statement by statement:  count = header;  [if <guard>: raise BananaError];
    if self.discardCount: self.discardCount -= 1  else: self.handleClose(count);  continue.
    The guard (a conjunction / disjunction / negation over self.inOpen and self.discardCount; absent = never) becomes a Coq function."""
    ss = strip(stmts)
    if not ss or U(ss[0]) != "count = header":
        raise P.Untranslatable("CLOSE clause does not start with `count = header`")
    ss = ss[1:]

    def cond(n):
        u = U(n)
        if u == "self.inOpen":
            return "io"
        if u == "self.discardCount":
            return "(negb (d =? 0))"
        if u in ("self.discardCount == 0", "not self.discardCount"):
            return "(d =? 0)"
        if u == "self.discardCount > 0":
            return "(0 <? d)"
        if isinstance(n, ast.UnaryOp) and isinstance(n.op, ast.Not):
            return "(negb %s)" % cond(n.operand)
        if isinstance(n, ast.BoolOp):
            return "(" + (" && " if isinstance(n.op, ast.And) else " || ").join(cond(v) for v in n.values) + ")"
        raise P.Untranslatable("CLOSE clause guard: " + u)
    guard = "false"
    if len(ss) == 3:
        g = ss[0]
        body = strip(g.body) if isinstance(g, ast.If) else []
        if not (isinstance(g, ast.If) and not g.orelse and len(body) == 1 and isinstance(body[0], ast.Raise) and isinstance(body[0].exc, ast.Call)
                and U(body[0].exc.func) == "BananaError"):
            raise P.Untranslatable("CLOSE clause: unexpected statement " + U(g)[:80])
        guard = cond(g.test)
        ss = ss[1:]
    if len(ss) != 2 or not isinstance(ss[1], ast.Continue):
        raise P.Untranslatable("CLOSE clause: unexpected shape")
    br = ss[0]
    if not (isinstance(br, ast.If) and U(br.test) == "self.discardCount" and [U(x) for x in strip(br.body)] == ["self.discardCount -= 1"]
            and [U(x) for x in strip(br.orelse)] == ["self.handleClose(count)"]):
        raise P.Untranslatable("CLOSE clause: discard / handleClose branch " + U(br)[:100])
    return ("(* CLOSE clause: `if <guard>: raise BananaError` in front of the discard / handleClose branch (io = self.inOpen, d = self.discardCount) *)\n"
            "Definition hd_close_fatal (io : bool) (d : Z) : bool := %s." % guard)


def abort_clause(stmts):
    """the ABORT clause:  count = header;  if rejected: continue;  try: raise Violation(..) except Violation: f = BananaFailure();
    self.handleViolation(f, "receive-abort"[, inOpen=self.inOpen]);  [self.inOpen = False];  continue.
    Generated: does an ABORT that arrives in the index phase of an OPEN end that index phase and count the OPEN as discarded?"""
    ss = strip(stmts)
    if not ss or U(ss[0]) != "count = header":
        raise P.Untranslatable("ABORT clause does not start with `count = header`")
    ss = ss[1:]
    if not (len(ss) == 3 and isinstance(ss[0], ast.If) and U(ss[0].test) == "rejected" and not ss[0].orelse
            and [type(x) for x in strip(ss[0].body)] == [ast.Continue] and isinstance(ss[1], ast.Try) and isinstance(ss[2], ast.Continue)):
        raise P.Untranslatable("ABORT clause: unexpected shape")
    t = ss[1]
    if t.orelse or t.finalbody or len(t.handlers) != 1 or U(t.handlers[0].type) != "Violation" or len(strip(t.body)) != 1 \
            or not isinstance(strip(t.body)[0], ast.Raise) or not U(strip(t.body)[0].exc).startswith("Violation("):
        raise P.Untranslatable("ABORT clause: try/except shape")
    hb = [U(x) for x in strip(t.handlers[0].body)]
    if hb == ["f = BananaFailure()", "self.handleViolation(f, 'receive-abort')"]:
        flag = "false"
    elif hb == ["f = BananaFailure()", "self.handleViolation(f, 'receive-abort', inOpen=self.inOpen)", "self.inOpen = False"]:
        flag = "true"
    else:
        raise P.Untranslatable("ABORT clause: handler %r" % hb)
    return ("(* ABORT clause: `handleViolation(f, 'receive-abort', inOpen=self.inOpen); self.inOpen = False` (true) or the plain call that\n"
            "   leaves a pending index phase pending (false) *)\nDefinition hd_abort_in_index : bool := %s." % flag)


def handle_data(bm, out):
    fn = P.find_def(bm, "Banana.handleData")
    body = strip(fn.body)
    # ---- skip prologue: symbolic execution of the block `if self.skipBytes: ...`
    if not (isinstance(body[0], ast.If) and U(body[0].test) == "self.skipBytes" and not body[0].orelse):
        raise P.Untranslatable("handleData does not start with `if self.skipBytes:`")
    out.append("(* handleData prologue, executed symbolically: n = len(chunk), s = self.skipBytes on entry.  Result: the new skipBytes and\n"
               "   Some d = go on with chunk[d:]  /  None = the function returned (the whole chunk was skipped) *)")
    out.append("Definition hd_prologue (n s : Z) : Z * option Z :=\n  if s =? 0 then (s, Some 0) else\n  %s." % prologue(strip(body[0].body), dict(skip="s", chunk=("drop", "0"), names={}), True))
    if U(body[1]) != "self.buffer.append(chunk)":
        raise P.Untranslatable("handleData: the chunk is not appended to the buffer right after the prologue")
    loops = [s for s in body if isinstance(s, ast.While)]
    if len(loops) != 1 or U(loops[0].test) != "len(self.buffer)" or loops[0].orelse:
        raise P.Untranslatable("handleData: expected one `while len(self.buffer):` loop")
    for s in body[2:]:
        if s is not loops[0] and U(s) != "self.buffer.clear()":
            raise P.Untranslatable("handleData: statement outside the token loop: " + U(s)[:80])
    lb = strip(loops[0].body)
    # ---- header scan.  Wanted: how many bytes are looked at, how many header bytes are too many, what ends a header.
    if not (isinstance(lb[0], ast.Assign) and U(lb[0].targets[0]) == "first65" and isinstance(lb[0].value, ast.Call)
            and U(lb[0].value.func) == "self.buffer.popleft" and len(lb[0].value.args) == 1):
        raise P.Untranslatable("handleData: loop does not start with first65 = self.buffer.popleft(N)")
    window = P.const_expr(lb[0].value.args[0])
    # the statements up to `typebyte = ...`
    k = [i_ for i_, s_ in enumerate(lb) if isinstance(s_, ast.Assign) and U(s_.targets[0]) == "typebyte"]
    if len(k) != 1 or U(lb[k[0]].value) != "first65[pos:pos + 1]":
        raise P.Untranslatable("handleData: typebyte is not first65[pos:pos + 1]")
    scan = lb[1:k[0]]
    # (a) too many header bytes: the only raise of the scan, BananaError, guarded by `X > K` (K an integer)
    raises = []

    def find_raises(stmts, guards):
        for s_ in stmts:
            if isinstance(s_, ast.Raise):
                raises.append((s_, list(guards)))
            elif isinstance(s_, ast.If):
                find_raises(s_.body, guards + [s_.test])
                find_raises(s_.orelse, guards)
            elif isinstance(s_, (ast.For, ast.While)):
                find_raises(s_.body, guards)
                find_raises(s_.orelse, guards)
            elif isinstance(s_, (ast.Try, ast.With)):
                raise P.Untranslatable("handleData: try/with inside the header scan")
    find_raises(scan, [])
    if len(raises) != 1 or not (isinstance(raises[0][0].exc, ast.Call) and U(raises[0][0].exc.func) == "BananaError") or not raises[0][1]:
        raise P.Untranslatable("handleData: the header scan must contain exactly one guarded `raise BananaError`")
    g = raises[0][1][-1]
    if not (isinstance(g, ast.Compare) and len(g.ops) == 1 and isinstance(g.ops[0], ast.Gt) and U(g.left) in ("pos", "len(first65)")):
        raise P.Untranslatable("handleData: over-long header guard " + U(g))
    maxhdr = P.const_expr(g.comparators[0])
    # (b) "need more": the scan pushes first65 back and returns
    us = [U(x) for x in ast.walk(ast.Module(body=scan, type_ignores=[])) if isinstance(x, ast.stmt)]
    if "self.buffer.appendleft(first65)" not in us or "return" not in us:
        raise P.Untranslatable("handleData: the header scan does not push first65 back and return when no type byte has arrived")
    # (c) the high-bit test, in the scan itself or in a module-level helper it calls
    region = list(scan)
    for x in ast.walk(ast.Module(body=scan, type_ignores=[])):
        if isinstance(x, ast.Call) and isinstance(x.func, ast.Name):
            region += [d for d in bm.body if isinstance(d, ast.FunctionDef) and d.name == x.func.id]
    hib = []
    for x in ast.walk(ast.Module(body=region, type_ignores=[])):
        if isinstance(x, ast.Compare) and len(x.ops) == 1 and isinstance(x.ops[0], ast.GtE) and isinstance(x.comparators[0], ast.Constant) \
                and isinstance(x.comparators[0].value, int) and x.comparators[0].value >= 16:
            hib.append(x.comparators[0].value)
    if len(set(hib)) != 1:
        raise P.Untranslatable("handleData: high-bit test of the header scan not found (candidates %r)" % hib)
    hibit = hib[0]
    del HDR_NAMES[:]
    for s_ in lb:
        if isinstance(s_, ast.Assign) and len(s_.targets) == 1 and isinstance(s_.targets[0], ast.Name) and U(s_.value) == "first65[:pos + 1]":
            nm = s_.targets[0].id
            stores = [x for x in ast.walk(loops[0]) if isinstance(x, ast.Name) and x.id == nm and isinstance(x.ctx, ast.Store)]
            if len(stores) == 1:
                HDR_NAMES.append(nm)
    out.append("Definition hd_window : Z := %d.  (* bytes popped for the header scan *)" % window)
    out.append("Definition hd_max_header : Z := %d.  (* more header bytes than this -> BananaError *)" % maxhdr)
    out.append("Definition hd_hibit : Z := %d.  (* a byte >= this ends the header *)" % hibit)
    # ---- the taste's always-legal tuple and the oversize-ERROR test
    src_loop = loops[0]
    exempt = None
    oversize = None
    for n in ast.walk(src_loop):
        if isinstance(n, ast.Compare) and U(n.left) == "typebyte" and len(n.ops) == 1 and isinstance(n.ops[0], ast.NotIn):
            comp = n.comparators[0]
            if isinstance(comp, ast.Name):
                # a module-level constant: exactly one assignment, of a tuple/list display
                defs = [a for a in bm.body if isinstance(a, ast.Assign) and len(a.targets) == 1 and U(a.targets[0]) == comp.id]
                if len(defs) != 1:
                    raise P.Untranslatable("handleData: always-legal tuple %s is not a module constant" % comp.id)
                comp = defs[0].value
            if not isinstance(comp, (ast.Tuple, ast.List)):
                continue
            if exempt is not None:
                raise P.Untranslatable("handleData: two `typebyte not in` tests")
            exempt = [e.id for e in comp.elts if isinstance(e, ast.Name) and e.id in TOK]
            if len(exempt) != len(comp.elts):
                raise P.Untranslatable("handleData: always-legal tuple")
        if isinstance(n, ast.If) and isinstance(n.test, ast.BoolOp) and isinstance(n.test.op, ast.And) and len(n.test.values) == 2 \
                and U(n.test.values[0]) == "typebyte == ERROR" and any(isinstance(x, ast.Raise) for x in n.body):
            oversize = zcmp(n.test.values[1], {"header": "hdr"})
    if exempt is None or oversize is None:
        raise P.Untranslatable("handleData: always-legal tuple / oversize ERROR test not found")
    out.append("Definition hd_exempt : list Z := [%s].  (* never tasted: `typebyte not in (...)` *)" % "; ".join("tok_" + e for e in exempt))
    out.append("Definition hd_error_oversize (hdr : Z) : bool := %s." % oversize)
    # ---- the dispatch chain
    chain = None
    for s in lb:
        if isinstance(s, ast.If) and tok_test(s.test) == ["OPEN"] and s.orelse:
            # the second `if typebyte == OPEN` (the one with an elif chain)
            chain = s
    if chain is None:
        raise P.Untranslatable("handleData: dispatch chain not found")
    clauses = []
    node = chain
    while True:
        names = tok_test(node.test)
        if names is None:
            raise P.Untranslatable("handleData: dispatch test " + U(node.test))
        clauses.append((names, node.body))
        if len(node.orelse) == 1 and isinstance(node.orelse[0], ast.If) and tok_test(node.orelse[0].test) is not None:
            node = node.orelse[0]
        else:
            final_else = node.orelse
            break
    if not (len(strip(final_else)) == 1 and isinstance(strip(final_else)[0], ast.Raise)):
        raise P.Untranslatable("handleData: the dispatch chain does not end with `else: raise`")
    seen = [n for names, _ in clauses for n in names]
    if sorted(seen) != sorted(set(seen)):
        raise P.Untranslatable("handleData: a type byte is dispatched twice")
    lens, rejs, accs = [], [], []
    nobody = []
    for names, stmts in clauses:
        reads = any(isinstance(n, ast.Call) and U(n.func) == "self.buffer.popleft" for s in stmts for n in ast.walk(s))
        if not reads:
            nobody += names
            if names == ["CLOSE"]:
                out.append(close_clause(stmts))
            if names == ["ABORT"]:
                out.append(abort_clause(stmts))
            continue
        need, rej, acc, popped = body_clause(names, stmts)
        if popped != need:
            raise P.Untranslatable("clause %s pops %s bytes but waits for %s" % (names, popped, need))
        test = " || ".join("(ty =? tok_%s)" % n for n in names)
        lens.append("if %s then Some %s" % (test, need))
        rejs.append("if %s then %s" % (test, "Some (%s - have)" % rej[1] if rej[0] == "skip" else "None"))
        accs.append("if %s then %s" % (test, "Some (%s - have)" % acc[1] if acc[0] == "skip" else "None"))
    out.append("(* dispatch clauses that read a body: number of body bytes (None: the clause reads no body) *)")
    out.append("Definition hd_body_len (ty hdr : Z) : option Z := %s else None." % " else ".join(lens))
    out.append("(* incomplete body of a REJECTED token: Some n = drop what is buffered and skip n more bytes; None = push the header back *)")
    out.append("Definition hd_rejected_incomplete (ty hdr have : Z) : option Z := %s else None." % " else ".join(rejs))
    out.append("(* incomplete body of an ACCEPTED token (same encoding) *)")
    out.append("Definition hd_accepted_incomplete (ty hdr have : Z) : option Z := %s else None." % " else ".join(accs))
    out.append("Definition hd_nobody_clauses : list Z := [%s]." % "; ".join("tok_" + n for n in nobody))


def generate():
    out = [P.PRELUDE % dict(src="banana.py (dataReceived, sendError, handleData)")]
    out.append("Require Import Verif.gen.BananaGen.")
    bm = P.load("banana.py")
    data_received(bm, out)
    send_error(bm, out)
    handle_data(bm, out)
    return {"RecvGen.v": "\n\n".join(out) + "\n"}
