"""Regenerate coq/gen/*.v from /repo's current source.  `--only Cnn` regenerates the
files that property needs; without it, everything.  Exit status 1 (fail closed) if
any generator raises."""
import argparse, importlib, os, sys, traceback

VERIF = os.path.dirname(os.path.dirname(os.path.abspath(__file__)))
sys.path.insert(0, VERIF)
from translate import pylite

# property -> generator modules it depends on (each exposes generate() -> {filename: text})
GENS = {}


def register():
    import glob
    for p in sorted(glob.glob(os.path.join(VERIF, "translate", "g_*.py"))):
        m = importlib.import_module("translate." + os.path.basename(p)[:-3])
        for pid in m.PROPERTIES:
            GENS.setdefault(pid, []).append(m)


def main():
    ap = argparse.ArgumentParser()
    ap.add_argument("--only")
    a = ap.parse_args()
    register()
    mods = []
    for pid, ms in GENS.items():
        if a.only in (None, pid):
            for m in ms:
                if m not in mods:
                    mods.append(m)
    rc = 0
    for m in mods:
        try:
            out = m.generate()
        except Exception as e:
            rc = 1
            print("TRANSLATOR ERROR in %s: %s" % (m.__name__, e))
            if not isinstance(e, pylite.Untranslatable):
                traceback.print_exc()
            # fail closed: make sure a stale generated file cannot be used
            for fn in getattr(m, "OUTPUTS", []):
                p = os.path.join(VERIF, "coq", "gen", fn)
                pylite.write_if_changed(p, "(* translator failed: %s *)\nDefinition translator_failed : True := I I.\n" % str(e).replace("*)", "* )"))
            continue
        for fn, text in out.items():
            ch = pylite.write_if_changed(os.path.join(VERIF, "coq", "gen", fn), text)
            print("gen/%s %s" % (fn, "rewritten" if ch else "unchanged"))
    for l in pylite.NORMALIZE_LOG:
        print("normalize:", l)
    sys.exit(rc)


if __name__ == "__main__":
    main()
