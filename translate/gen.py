"""Regenerate coq/gen/*.v from /repo's current source.  `--only Cnn` regenerates the
files that property needs; without it, everything.  Exit status 1 (fail closed) if
any generator raises."""
import argparse, importlib, os, sys, traceback

VERIF = os.path.dirname(os.path.dirname(os.path.abspath(__file__)))
sys.path.insert(0, VERIF)
from translate import pylite

# property -> generator modules it depends on (each exposes generate() -> {filename: text})
GENS = {}


def register():
    import glob
    for p in sorted(glob.glob(os.path.join(VERIF, "translate", "g_*.py"))):
        m = importlib.import_module("translate." + os.path.basename(p)[:-3])
        for pid in m.PROPERTIES:
            GENS.setdefault(pid, []).append(m)


def gen_closure(pid):
    """names of the coq/gen files reachable from coq/props/<pid>.v through Require lines"""
    import re
    coq = os.path.join(VERIF, "coq")
    todo, seen, gens = [os.path.join(coq, "props", pid + ".v")], set(), set()
    while todo:
        f = todo.pop()
        if f in seen or not os.path.exists(f):
            continue
        seen.add(f)
        txt = open(f).read()
        for m in re.finditer(r"\bVerif\.(lib|gen|props)\.([A-Za-z0-9_]+)", txt):
            if m.group(1) == "gen":
                gens.add(m.group(2) + ".v")
            else:
                todo.append(os.path.join(coq, m.group(1), m.group(2) + ".v"))
        # `From Verif.lib Require Import A B.` / `From Verif Require Import lib.A gen.B.`
        for m in re.finditer(r"From\s+Verif(?:\.(lib|gen|props))?\s+Require\s+(?:Import|Export)?\s*([^.]*(?:\.[A-Za-z0-9_]+[^.]*)*)\.\s", txt):
            d, names = m.group(1), m.group(2).split()
            for n in names:
                dd, nn = (d, n) if d else (n.split(".")[0], n.split(".")[-1]) if "." in n else (None, n)
                if dd == "gen":
                    gens.add(nn + ".v")
                elif dd in ("lib", "props"):
                    todo.append(os.path.join(coq, dd, nn + ".v"))
    return gens


def main():
    ap = argparse.ArgumentParser()
    ap.add_argument("--only")
    a = ap.parse_args()
    register()
    mods = []
    for pid, ms in GENS.items():
        if a.only in (None, pid):
            for m in ms:
                if m not in mods:
                    mods.append(m)
    if a.only:
        # every generated file in the import closure of props/<Cnn>.v is regenerated too, whichever
        # generator declares it: models are shared between properties, and a check must never build
        # against a generated file that was translated from an older source
        need = gen_closure(a.only)
        seen = set()
        for ms in GENS.values():
            for m in ms:
                if m in seen:
                    continue
                seen.add(m)
                if m not in mods and need & set(getattr(m, "OUTPUTS", [])):
                    mods.append(m)
    rc = 0
    for m in mods:
        try:
            out = m.generate()
        except Exception as e:
            rc = 1
            print("TRANSLATOR ERROR in %s: %s" % (m.__name__, e))
            if not isinstance(e, pylite.Untranslatable):
                traceback.print_exc()
            # fail closed: make sure a stale generated file cannot be used
            for fn in getattr(m, "OUTPUTS", []):
                p = os.path.join(VERIF, "coq", "gen", fn)
                pylite.write_if_changed(p, "(* translator failed: %s *)\nDefinition translator_failed : True := I I.\n" % str(e).replace("*)", "* )"))
            continue
        for fn, text in out.items():
            ch = pylite.write_if_changed(os.path.join(VERIF, "coq", "gen", fn), text)
            print("gen/%s %s" % (fn, "rewritten" if ch else "unchanged"))
    for l in pylite.NORMALIZE_LOG:
        print("normalize:", l)
    sys.exit(rc)


if __name__ == "__main__":
    main()
