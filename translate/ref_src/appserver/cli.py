import six, os, sys, shutil, errno, time, signal
from io import StringIO
from twisted.python import usage
from twisted.internet import defer
from twisted.scripts import twistd

# does "flappserver start" need us to refrain from importing the reactor here?
# A: probably, to allow --reactor= to work
import foolscap
from foolscap.api import Tub, Referenceable
from foolscap.pb import generateSwissnumber
from foolscap.appserver.services import build_service, BadServiceArguments
from foolscap.appserver.server import AppServer, load_service_data, save_service_data

# external code can rely upon the stability of add_service() and
# list_services(), as well as the following properties:
# * services are instantiated with (basedir,tub,type,args)
# * their basedir will already exist by the time they're instantiated
# * their basedir will be somewhere inside the flappserver's basedir
# all other functions and classes are for foolscap's own use, and may change
# in future versions

def get_umask():
    oldmask = os.umask(0)
    os.umask(oldmask)
    return oldmask

class BaseOptions(usage.Options):
    opt_h = usage.Options.opt_help

    def getSynopsis(self):
        # the default usage.Options.getSynopsis prepends 'flappserver'
        # Options.synopsis, which looks weird
        return self.synopsis

class CreateOptions(BaseOptions):
    synopsis = "Usage: flappserver create [options] BASEDIR"

    optFlags = [
        ("quiet", "q", "Be silent upon success"),
        ]
    optParameters = [
        ("port", "p", "tcp:3116", "TCP port to listen on (strports string)"),
        ("location", "l", None, "(required) Tub location hints to use in generated FURLs. e.g. 'tcp:example.org:3116'"),
        ("umask", None, None, "(octal) file creation mask to use for the server. If not provided, the current umask (%04o) is copied." % get_umask()),
        ]

    def opt_port(self, port):
        assert not port.startswith("ssl:")
        self["port"] = port
    def opt_umask(self, value):
        self["umask"] = int(value, 8)

    def parseArgs(self, basedir):
        self.basedir = basedir
    def postOptions(self):
        if self["umask"] is None:
            self["umask"] = get_umask()
        if not self["location"]:
            raise usage.UsageError("--location= is mandatory")

FLAPPSERVER_TACFILE = """\
# -*- python -*-

# we record the path when 'flappserver create' is run, in case it was run out
# of a source tree. This is somewhat fragile, of course.

stashed_path = [
%(path)s]

import sys
needed = [p for p in stashed_path if p not in sys.path]
sys.path = needed + sys.path
#print 'NEEDED', needed

from foolscap.appserver import server
from twisted.application import service

appserver = server.AppServer()
application = service.Application('flappserver')
appserver.setServiceParent(application)
"""

class Create:
    def run(self, options):
        basedir = six.ensure_text(options.basedir)
        stdout = options.stdout
        stderr = options.stderr
        if os.path.exists(basedir):
            print("Refusing to touch pre-existing directory %s" % basedir,
                  file=stderr)
            return 1

        assert options["port"]
        assert options["location"]
        port = six.ensure_text(options["port"])
        location = six.ensure_text(options["location"])

        os.makedirs(basedir)
        os.makedirs(os.path.join(basedir, "services"))
        os.chmod(basedir, 0o700)

        # Start the server and let it create the key. The base FURL will be
        # written to a file so that subsequent 'add' and 'list' can compute
        # FURLs without needing to run the Tub (which might already be
        # running).

        f = open(os.path.join(basedir, "port"), "w")
        f.write("%s\n" % port)
        f.close()
        # we'll overwrite BASEDIR/port if necessary

        f = open(os.path.join(basedir, "location"), "w")
        f.write("%s\n" % location)
        f.close()

        f = open(os.path.join(basedir, "umask"), "w")
        f.write("%04o\n" % options["umask"])
        f.close()

        save_service_data(basedir, {"version": 1, "services": {}})

        a = AppServer(basedir, stdout)
        tub = a.tub

        sample_furl = tub.registerReference(Referenceable())
        furl_prefix = sample_furl[:sample_furl.rfind("/")+1]
        f = open(os.path.join(basedir, "furl_prefix"), "w")
        f.write(furl_prefix + "\n")
        f.close()

        f = open(os.path.join(basedir, "flappserver.tac"), "w")
        stashed_path = ""
        for p in sys.path:
            stashed_path += "  %r,\n" % p
        f.write(FLAPPSERVER_TACFILE % { 'path': stashed_path })
        f.close()

        if not options["quiet"]:
            print("Foolscap Application Server created in %s" % basedir, file=stdout)
            tubid = six.ensure_text(tub.getTubID())
            print("TubID %s, listening on port %s" % (tubid, port), file=stdout)
            print("Now launch the daemon with 'flappserver start %s'" % basedir, file=stdout)
        return defer.succeed(0)

class AddOptions(BaseOptions):
    synopsis = "Usage: flappserver add [--comment C] BASEDIR SERVICE-TYPE SERVICE-ARGS.."

    optFlags = [
        ("quiet", "q", "Be silent upon success"),
        ]
    optParameters = [
        ("comment", "c", None, "optional comment describing this service"),
        ]

    def parseArgs(self, basedir, service_type, *service_args):
        self.basedir = basedir
        self.service_type = service_type
        self.service_args = service_args

    def getUsage(self, width=None):
        t = usage.Options.getUsage(self, width)
        t += "\nUse 'flappserver add BASEDIR SERVICE-TYPE --help' for details."
        t += "\n\nSERVICE-TYPE can be one of the following:\n"
        from .services import all_services
        for name in sorted(all_services.keys()):
            t += "  %s\n" % name
        return t

def make_swissnum():
    return six.ensure_text(generateSwissnumber(Tub.NAMEBITS))

def find_next_service_basedir(basedir):
    services_basedir = os.path.join(basedir, "services")
    nums = []
    for dirname in os.listdir(services_basedir):
        try:
            nums.append(int(dirname))
            # this might also catch old-style swissnum-named directories, if
            # their name contains entirely digits. The chances of that are
            # (6/32)^32, or 5.4e-24, so we're probably safe.
        except ValueError:
            pass
    # return value is relative to basedir
    return os.path.join("services", "%d" % (max([0]+nums)+1))

def add_service(basedir, service_type, service_args, comment, swissnum=None):
    if not swissnum:
        swissnum = make_swissnum()
    services_data = load_service_data(basedir)
    relative_service_basedir = find_next_service_basedir(basedir)
    service_basedir = os.path.join(basedir, relative_service_basedir)
    os.makedirs(service_basedir)
    try:
        # validate the service args by instantiating one
        s = build_service(service_basedir, None, service_type, service_args)
        del s
    except:
        shutil.rmtree(service_basedir)
        raise

    services_data["services"][swissnum] = {
        "relative_basedir": relative_service_basedir,
        "type": service_type,
        "args": service_args,
        "comment": comment,
        }
    save_service_data(basedir, services_data)

    furl_prefix = open(os.path.join(basedir, "furl_prefix")).read().strip()
    furl = furl_prefix + swissnum
    return furl, service_basedir

class Add:
    def run(self, options):
        basedir = options.basedir
        stdout = options.stdout
        service_type = options.service_type
        service_args = options.service_args
        furl, service_basedir = add_service(basedir,
                                            service_type, service_args,
                                            options["comment"])
        if not options["quiet"]:
            print("Service added in %s" % service_basedir, file=stdout)
            print("FURL is %s" % furl, file=stdout)

        return 0

class ListOptions(BaseOptions):
    synopsis = "Usage: flappserver list BASEDIR"

    optFlags = [
        ]
    optParameters = [
        ]

    def parseArgs(self, basedir):
        self.basedir = basedir

class FlappService:
    pass

def list_services(basedir):
    furl_prefix = open(os.path.join(basedir, "furl_prefix")).read().strip()
    services_data = load_service_data(basedir)["services"]
    services = []
    for swissnum, data in sorted(services_data.items()):
        s = FlappService()
        s.swissnum = swissnum
        s.service_basedir = os.path.join(basedir, data["relative_basedir"])
        s.service_type = data["type"]
        s.service_args = data["args"]
        s.comment = data["comment"] # maybe None
        s.furl = furl_prefix + swissnum
        services.append(s)
    return services

class List:
    def run(self, options):
        basedir = options.basedir
        stdout = options.stdout
        for s in list_services(basedir):
            print("", file=stdout)
            print("%s:" % s.swissnum, file=stdout)
            print(" %s %s" % (s.service_type, " ".join(s.service_args)), file=stdout)
            if s.comment:
                print(" # %s" % s.comment, file=stdout)
            print(" %s" % s.furl, file=stdout)
            print(" %s" % s.service_basedir, file=stdout)
        print("", file=stdout)

        return 0

class StartOptions(BaseOptions):
    synopsis = "Usage: flappserver start BASEDIR [twistd options]"

    optFlags = [
        ]
    optParameters = [
        ]

    def parseArgs(self, basedir, *twistd_args):
        self.basedir = basedir
        self.twistd_args = twistd_args

class Start:
    def run(self, options):
        basedir = options.basedir
        stderr = options.stderr
        for fn in os.listdir(basedir):
            if fn.endswith(".tac"):
                tac = fn
                break
        else:
            print("%s does not look like a node directory (no .tac file)" % basedir, file=stderr)
            return 1

        os.chdir(options.basedir)
        twistd_args = list(options.twistd_args)
        sys.argv[1:] = ["--no_save", "--python", tac] + twistd_args
        print("Launching Server...", file=stderr)
        twistd.run()


class StopOptions(BaseOptions):
    synopsis = "Usage: flappserver stop BASEDIR"

    optFlags = [
        ("quiet", "q", "Be silent when the server is not already running"),
        ]
    optParameters = [
        ]

    def parseArgs(self, basedir):
        self.basedir = basedir


def try_to_kill(pid, signum):
    # return True if we successfully sent the signal
    # return False if the process was already gone
    # might raise some other exception
    try:
        os.kill(pid, signal.SIGTERM)
    except OSError as e:
        if e.errno == errno.ESRCH:
            # the process disappeared before we got to it
            return False
        raise
    return True

def try_to_remove_pidfile(pidfile):
    try:
        os.remove(pidfile)
    except OSError:
        pass

class Stop:
    def run(self, options):
        basedir = options.basedir
        stderr = options.stderr
        pidfile = os.path.join(basedir, "twistd.pid")
        if not os.path.exists(pidfile):
            if not options["quiet"]:
                print("%s does not look like a running node directory (no twistd.pid)" % basedir, file=stderr)
            # we define rc=2 to mean "nothing is running, but it wasn't me
            # who stopped it"
            return 2
        pid = int(open(pidfile, "r").read().strip())

        # kill it softly (SIGTERM), watch for it to go away, give it 15
        # seconds, then kill it hard (SIGKILL) and delete the twistd.pid
        # file.
        if not try_to_kill(pid, signal.SIGTERM):
            try_to_remove_pidfile(pidfile)
            print("process %d wasn't running, removing twistd.pid to cleanup" % pid, file=stderr)
            return 2

        print("SIGKILL sent to process %d, waiting for shutdown" % pid, file=stderr)
        counter = 30 # failsafe in case a timequake occurs
        timeout = time.time() + 15
        while time.time() < timeout and counter > 0:
            counter += 1
            if not try_to_kill(pid, 0):
                # it's gone
                try_to_remove_pidfile(pidfile)
                print("process %d terminated" % pid, file=stderr)
                return 0
            time.sleep(0.5)

        print("Process %d didn't respond to SIGTERM, sending SIGKILL." % pid, file=stderr)
        try_to_kill(pid, signal.SIGKILL)
        try_to_remove_pidfile(pidfile)
        return 0

class RestartOptions(BaseOptions):
    synopsis = "Usage: flappserver restart BASEDIR [twistd options]"

    def parseArgs(self, basedir, *twistd_args):
        self.basedir = basedir
        self.twistd_args = twistd_args

class Restart:
    def run(self, options):
        options["quiet"] = True
        rc = Stop().run(options) # ignore rc
        rc = Start().run(options)
        return rc

class Options(usage.Options):
    synopsis = "Usage: flappserver (create|add|list|start|stop)"

    subCommands = [
        ("create", None, CreateOptions, "create a new app server"),
        ("add", None, AddOptions, "add new service to an app server"),
        ("list", None, ListOptions, "list services in an app server"),
        ("start", None, StartOptions, "launch an app server"),
        ("stop", None, StopOptions, "shut down an app server"),
        ("restart", None, RestartOptions, "(first stop if necessary, then) start a server"),
        ]

    def postOptions(self):
        if not hasattr(self, 'subOptions'):
            raise usage.UsageError("must specify a command")

    def opt_version(self):
        from twisted import copyright
        print("Foolscap version:", foolscap.__version__)
        print("Twisted version:", copyright.version)
        sys.exit(0)

dispatch_table = {
    "create": Create,
    "add": Add,
    "list": List,
    "start": Start,
    "stop": Stop,
    "restart": Restart,
    }

def dispatch(command, options):
    if command in dispatch_table:
        c = dispatch_table[command]()
        return c.run(options)
    else:
        print("unknown command '%s'" % command)
        raise NotImplementedError

def run_flappserver(argv=None, run_by_human=True):
    if argv:
        command_name,argv = argv[0],argv[1:]
    else:
        command_name = sys.argv[0]
    config = Options()
    try:
        config.parseOptions(argv)
    except usage.error as e:
        if not run_by_human:
            raise
        print("%s:  %s" % (command_name, e))
        print()
        c = getattr(config, 'subOptions', config)
        print(str(c))
        sys.exit(1)

    command = config.subCommand
    so = config.subOptions
    if run_by_human:
        so.stdout = sys.stdout
        so.stderr = sys.stderr
    else:
        so.stdout = StringIO()
        so.stderr = StringIO()
    try:
        r = dispatch(command, so)
    except (usage.UsageError, BadServiceArguments) as e:
        r = 1
        print("Error:", str(e), file=so.stderr)
    from twisted.internet import defer
    if run_by_human:
        if isinstance(r, defer.Deferred):
            # this command needs a reactor
            from twisted.internet import reactor
            stash_rc = []
            def good(rc):
                stash_rc.append(rc)
                reactor.stop()
            def oops(f):
                print("Command failed:")
                print(f)
                stash_rc.append(-1)
                reactor.stop()
            r.addCallbacks(good, oops)
            if 0 == len(stash_rc):
                reactor.run()
            sys.exit(stash_rc[0])
        else:
            sys.exit(r)
    else:
        if isinstance(r, defer.Deferred):
            def done(rc):
                return (rc, so.stdout.getvalue(), so.stderr.getvalue())
            r.addCallback(done)
            return r
        else:
            return (r, so.stdout.getvalue(), so.stderr.getvalue())
