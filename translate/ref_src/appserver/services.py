import os
import six
from twisted.python import usage, runtime, filepath, log
from twisted.application import service
from twisted.internet import defer, reactor, protocol
from foolscap.api import Referenceable

class BadServiceArguments(Exception):
    pass
class UnknownServiceType(Exception):
    pass

class BaseOptions(usage.Options):
    details = None
    def getUsage(self, width=None):
        t = usage.Options.getUsage(self, width)
        if self.details:
            t += self.details
        return t

class FileUploaderOptions(BaseOptions):
    synopsis = "Usage: flappserver add BASEDIR upload-file [options] TARGETDIR"
    details = """
This service allows clients to upload files to a specific directory.
"""

    optFlags = [
        ("allow-subdirectories", None, "allow client to write to subdirectories"),
        ]
    optParameters = [
        ("mode", None, 0o644,
         "(octal) mode to set uploaded files to, use 0644 for world-readable")
        ]

    def opt_mode(self, mode):
        if mode.startswith("0"):
            self["mode"] = int(mode, 8)
        else:
            self["mode"] = int(mode)

    def parseArgs(self, targetdir):
        self.targetdir = os.path.abspath(targetdir)
        if self["allow-subdirectories"]:
            raise BadServiceArguments("--allow-subdirectories is not yet implemented")
        if not os.path.exists(self.targetdir):
            raise BadServiceArguments("targetdir '%s' must already exist"
                                      % self.targetdir)
        if not os.access(self.targetdir, os.W_OK):
            raise BadServiceArguments("targetdir '%s' must be writeable"
                                      % self.targetdir)

class FileUploaderReader(Referenceable):
    BLOCKSIZE = 1024*1024
    def __init__(self, f, source):
        self.f = f
        self.source = source
        self.d = defer.Deferred()

    def read_file(self):
        self.read_block()
        return self.d

    def read_block(self):
        d = self.source.callRemote("read", self.BLOCKSIZE)
        d.addCallback(self._got_data)
        d.addErrback(self._got_error)

    def _got_data(self, data):
        if data:
            self.f.write(data)
            self.read_block()
        else:
            # no more data: we're done
            self.d.callback(None)

    def _got_error(self, f):
        self.d.errback(f)


class BadFilenameError(Exception):
    pass

class FileUploader(service.MultiService, Referenceable):
    def __init__(self, basedir, tub, options):
        # tub might be None. No network activity should be done until
        # startService. Validate all options in the constructor. Do not use
        # the Service/MultiService ".name" attribute (which would prevent
        # having multiple instances of a single service type in the same
        # server).
        service.MultiService.__init__(self)
        self.basedir = basedir
        self.tub = tub
        self.options = options
        self.targetdir = filepath.FilePath(options.targetdir)

    def remote_putfile(self, name, source):
        name = six.ensure_str(name)
        #if "/" in name or name == "..":
        #    raise BadFilenameError()
        #targetfile = os.path.join(self.options.targetdir, name)

        # I think that .child() will reject attempts to follow symlinks out
        # of the target directory. It will also reject the use of
        # subdirectories: 'name' must not contain any slashes. To implement
        # allow-subdirectories, we should pass a list of dirnames and handle
        # it specially.
        targetfile = self.targetdir.child(name)
        if targetfile.parent() != self.targetdir:
            # "" and "." name the target directory itself: its ".partial"
            # sibling would be created outside of the target directory
            raise BadFilenameError("%r is not a valid filename" % (name,))

        #tmpfile = targetfile.temporarySibling()
        #
        # temporarySibling() creates a tempfile with the same extension as
        # the targetfile, which is useless for our purposes: one goal of
        # file-uploader is to let you send .deb packages to an APT
        # repository, and we need to hide the .deb from the package-index
        # building scripts until the whole file is present, so we want an
        # atomic rename from foo.deb.partial to foo.deb

        tmpfile = targetfile.siblingExtension(".partial")
        if tmpfile.islink():
            # never write through a pre-existing symlink: it may point
            # outside of the target directory
            tmpfile.remove()

        # TODO: use os.open and set the file mode earlier
        #f = open(tmpfile, "w")
        f = tmpfile.open("wb")
        reader = FileUploaderReader(f, source)
        d = reader.read_file()
        def _done(res):
            f.close()
            try:
                if runtime.platform.isWindows() and targetfile.exists():
                    os.unlink(targetfile.path)
                tmpfile.moveTo(targetfile)
            except:
                # the file cannot be published (e.g. the final name is an
                # existing directory): do not leave the temporary behind
                try:
                    os.unlink(tmpfile.path)
                except OSError:
                    pass
                raise
            #targetfile.chmod(self.options["mode"])
            # older Twisteds do not have FilePath.chmod
            os.chmod(targetfile.path, self.options["mode"])
            return None
        def _err(fail):
            f.close()
            os.unlink(tmpfile.path)
            return fail
        d.addCallbacks(_done, _err)
        return d

class CommandRunnerOptions(BaseOptions):
    synopsis = "Usage: flappserver add BASEDIR run-command [options] TARGETDIR COMMAND.."
    details = """
This service allows clients to execute a pre-configured command and receive
the exit code, optionally providing stdin and receiving stdout/stderr.
"""

    optFlags = [
        ("accept-stdin", None, "allow client to write to COMMAND stdin"),
        ("no-stdin", None, "do not write to COMMAND stdin [default]"),
        ("log-stdin", None, "log incoming stdin (to twistd.log)"),
        ("no-log-stdin", None, "do not log incoming stdin [default]"),

        ("send-stdout", None, "send COMMAND stdout to client [default]"),
        ("no-stdout", None, "do not send COMMAND stdout to client"),
        ("log-stdout", None, "log outbound stdout (to twistd.log)"),
        ("no-log-stdout", None, "do not log oubound stdout [default]"),

        ("send-stderr", None, "send COMMAND stderr to client [default]"),
        ("no-stderr", None, "do not send COMMAND stderr to client"),
        ("log-stderr", None, "log outbound stderr (to twistd.log) [default]"),
        ("no-log-stderr", None, "do not log outbound stderr"),
        ]
    optParameters = [
        ]

    accept_stdin = False
    def opt_accept_stdin(self):
        self.accept_stdin = True
    def opt_no_stdin(self):
        self.accept_stdin = False

    send_stdout = True
    def opt_send_stdout(self):
        self.send_stdout = True
    def opt_no_stdout(self):
        self.send_stdout = False

    send_stderr = True
    def opt_send_stderr(self):
        self.send_stderr = True
    def opt_no_stderr(self):
        self.send_stderr = False

    log_stdin = False
    def opt_log_stdin(self):
        self.log_stdin = True
    def opt_no_log_stdin(self):
        self.log_stdin = False

    log_stdout = False
    def opt_log_stdout(self):
        self.log_stdout = True
    def opt_no_log_stdout(self):
        self.log_stdout = False

    log_stderr = True
    def opt_log_stderr(self):
        self.log_stderr = True
    def opt_no_log_stderr(self):
        self.log_stderr = False

    def parseArgs(self, targetdir, *command_argv):
        self.targetdir = targetdir
        self.command_argv = command_argv

class CommandPP(protocol.ProcessProtocol):
    def __init__(self, outpipe, errpipe, watcher, log_stdout, log_stderr):
        self.outpipe = outpipe
        self.errpipe = errpipe
        self.watcher = watcher
        self.log_stdout = log_stdout
        self.log_stderr = log_stderr
    def outReceived(self, data):
        if self.outpipe:
            self.outpipe.callRemoteOnly("stdout", data)
        if self.log_stdout:
            sent = {True:"sent", False:"not sent"}[bool(self.outpipe)]
            log.msg("stdout (%s): %r" % (sent, data)) # TODO?: bytes get b''
    def errReceived(self, data):
        if self.errpipe:
            self.errpipe.callRemoteOnly("stderr", data)
        if self.log_stderr:
            sent = {True:"sent", False:"not sent"}[bool(self.errpipe)]
            log.msg("stderr (%s): %r" % (sent, data))

    def processEnded(self, reason):
        e = reason.value
        code = e.exitCode
        log.msg("process ended (signal=%s, rc=%s)" % (e.signal, code))
        self.watcher.callRemoteOnly("done", e.signal, code)

class Command(Referenceable):
    def __init__(self, process, log_stdin):
        self.process = process
        self.log_stdin = log_stdin
        self.closed = False
    def remote_feed_stdin(self, data):
        if not isinstance(data, bytes):
            raise TypeError("stdin can accept only strings of bytes, not '%s'"
                            % (type(data),))
        if self.log_stdin:
            log.msg("stdin: %r" % data)
        self.process.write(data)
    def remote_close_stdin(self):
        if not self.closed:
            self.closed = True
            if self.log_stdin:
                log.msg("stdin closed")
            self.process.closeStdin()

class CommandRunner(service.MultiService, Referenceable):
    def __init__(self, basedir, tub, options):
        service.MultiService.__init__(self)
        self.basedir = basedir
        self.tub = tub
        self.options = options

    def remote_execute(self, watcher):
        o = self.options
        outpipe = None
        if o.send_stdout:
            outpipe = watcher
        errpipe = None
        if o.send_stderr:
            errpipe = watcher
        pp = CommandPP(outpipe, errpipe, watcher, o.log_stdout, o.log_stderr)

        # spawnProcess uses os.execvpe, which will search your $PATH
        executable = o.command_argv[0]

        # spawnProcess argv accepts bytes, or unicode that
        # sys.getfilesystemencoding() can convert into bytes

        log.msg("command started in dir %s: %s" % (o.targetdir, o.command_argv))
        p = reactor.spawnProcess(pp,
                                 executable,
                                 o.command_argv,
                                 os.environ,
                                 o.targetdir)
        if o.accept_stdin:
            c = Command(p, o.log_stdin)
            watcher.notifyOnDisconnect(c.remote_close_stdin)
            return c
        return None

all_services = {
    "upload-file": (FileUploaderOptions, FileUploader),
    "run-command": (CommandRunnerOptions, CommandRunner),
    }

def build_service(basedir, tub, service_type, service_args):
    # service_type/service_args are text
    # this will be replaced by a plugin system. For now it's pretty static.
    if service_type in all_services:
        (optclass, svcclass) = all_services[service_type]
        options = optclass()
        # TODO: can parseOptions on py2 accept text?
        options.parseOptions(service_args)
        service = svcclass(basedir, tub, options)
        return service
    else:
        raise UnknownServiceType(service_type)

