import os, sys, json, ast
import six
from twisted.application import service
from foolscap.api import Tub
from foolscap.appserver.services import build_service
from foolscap.util import move_into_place

class UnknownVersion(Exception):
    pass

def load_service_data(basedir):
    services_file = os.path.join(basedir, "services.json")
    if os.path.exists(services_file):
        data = json.load(open(services_file, "r"))
        if data["version"] != 1:
            raise UnknownVersion("unable to handle version %d" % data["version"])
    else:
        # otherwise look for the old-style separate files
        services = {}
        services_basedir = os.path.join(basedir, "services")
        for (service_basedir, dirnames, filenames) in os.walk(services_basedir):
            if "service_type" not in filenames:
                continue
            assert service_basedir.startswith(services_basedir)
            swissnum = service_basedir[len(services_basedir):].lstrip(os.sep)
            s = services[swissnum] = {}

            s["relative_basedir"] = os.path.join("services", swissnum)

            service_type_f = os.path.join(service_basedir, "service_type")
            s["type"] = six.ensure_text(open(service_type_f).read()).strip()

            # old-style service_args was written with repr(), before the days
            # of JSON. It was always a tuple, though. It's safe to load this
            # with ast.literal_eval() . Note that json.loads() wouldn't work
            # here because repr() emits single-quotes (\x27) and JSON
            # requires double-quotes (\x22).
            service_args_f = os.path.join(service_basedir, "service_args")
            f = open(service_args_f, "rb")
            args_s = six.ensure_str(f.read())
            f.close()
            args = ast.literal_eval(args_s)
            # this text conversion also happens to turn tuples into lists,
            # which makes it more like the JSON equivalent
            s["args"] = [six.ensure_text(arg) for arg in args]

            comment_f = os.path.join(service_basedir, "comment")
            s["comment"] = None
            if os.path.exists(comment_f):
                s["comment"] = six.ensure_text(open(comment_f).read()).strip()
        data = {"version": 1, "services": services}
    return data # has ["version"]=1 and ["services"]

def save_service_data(basedir, data):
    assert data["version"] == 1
    services_file = os.path.join(basedir, "services.json")
    tmpfile = services_file+".tmp"
    f = open(tmpfile, "w")
    json.dump(data, f, indent=2)
    f.close()
    move_into_place(tmpfile, services_file)

class AppServer(service.MultiService):
    def __init__(self, basedir=".", stdout=sys.stdout):
        service.MultiService.__init__(self)
        self.basedir = six.ensure_text(os.path.abspath(basedir))
        try:
            umask = open(os.path.join(basedir, "umask")).read().strip()
            self.umask = int(umask, 8) # octal string like 0022
        except EnvironmentError:
            self.umask = None
        self.port = six.ensure_text(open(os.path.join(basedir, "port")).read().strip())
        self.tub = Tub(certFile=os.path.join(basedir, "tub.pem"))
        self.tub.listenOn(self.port)
        self.tub.setServiceParent(self)
        self.tub.registerNameLookupHandler(self.lookup)
        self.setMyLocation()
        print("Server Running", file=stdout)

    def startService(self):
        if self.umask is not None:
            os.umask(self.umask)
        service.MultiService.startService(self)

    def setMyLocation(self):
        location_fn = os.path.join(self.basedir, "location")
        location = open(location_fn).read().strip()
        if not location:
            raise ValueError("This flappserver was created without "
                             "'--location=', and Foolscap no longer uses "
                             "IP-address autodetection. Please edit '%s' "
                             "to contain e.g. 'tcp:example.org:12345', with "
                             "a hostname and port number that match this "
                             "server (we're listening on %s)"
                             % (location_fn, self.port))
        self.tub.setLocation(location)

    def lookup(self, name):
        # walk through our configured services, see if we know about this one
        services = load_service_data(self.basedir)["services"]
        s = services.get(name)
        if not s:
            return None
        service_basedir = os.path.join(self.basedir, s["relative_basedir"])
        service_type = s["type"]
        service_args = s["args"] # text
        s = build_service(service_basedir, self.tub, service_type, service_args)
        s.setServiceParent(self)
        return s
