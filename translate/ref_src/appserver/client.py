import six
import os, sys
from io import BytesIO
from twisted.python import usage
from twisted.internet import defer

# does "flappserver start" need us to refrain from importing the reactor here?
import foolscap
from foolscap.api import Tub, Referenceable, fireEventually

class BaseOptions(usage.Options):
    def opt_h(self):
        return self.opt_help()

class UploadFileOptions(BaseOptions):
    def getSynopsis(self):
        return "Usage: flappclient [--furl=|--furlfile] upload-file SOURCEFILES.."
    def parseArgs(self, *sourcefiles):
        self.sourcefiles = sourcefiles
    longdesc = """This client sends one or more files to the upload-file
    service waiting at the given FURL. All files will be placed in the
    pre-configured target directory, using the basename of each SOURCEFILE
    argument."""

class Uploader(Referenceable):
    def run(self, rref, sourcefile, name):
        self.f = open(os.path.expanduser(sourcefile), "rb")
        return rref.callRemote("putfile", six.ensure_binary(name), self)

    def remote_read(self, size):
        return self.f.read(size)

class UploadFile(Referenceable):
    def run(self, rref, options):
        d = defer.succeed(None)
        for sf in options.sourcefiles:
            name = os.path.basename(sf)
            d.addCallback(self._upload, rref, sf, name)
            d.addCallback(self._done, options, name)
        d.addCallback(lambda _ign: 0)
        return d
    def _upload(self, _ignored, rref, sf, name):
        return Uploader().run(rref, sf, name)
    def _done(self, _ignored, options, name):
        options.stdout.write(six.ensure_binary("%s: uploaded\n" % name))


class RunCommandOptions(BaseOptions):
    def getSynopsis(self):
        return "Usage: flappclient [--furl=|--furlfile] run-command"
    longdesc = """This client triggers a prearranged command to be executed
    by the run-command service waiting at the given FURL. The executable, its
    working directory, and all arguments are configured by the server. Unless
    the server has overridden the defaults, this client will emit the
    command's stdout and stderr as it runs, and will exit with the same
    result code as the remote command. If the server desires it, this client
    will read data from stdin and send everything (plus a close-stdin event)
    to the server.

    This client has no control over the command being run or its
    arguments."""


from twisted.internet.stdio import StandardIO as TwitchyStandardIO
class StandardIO(TwitchyStandardIO):
    def childConnectionLost(self, fd, reason):
        # the usual StandardIO class doesn't seem to handle half-closed stdio
        # well, specifically when our stdout is closed, then some data is
        # written to our stdin. The class responds to stdout's closure by
        # shutting down everything. I think this is related to
        # ProcessWriter.doRead returning CONNECTION_LOST instead of
        # CONNECTION_DONE (which ProcessWriter.connectionLost sends along to
        # StandardIO.childConnectionLost). There is code in
        # StandardIO.childConnectionLost to treat CONNECTION_DONE as a
        # half-close, but not CONNECTION_LOST.
        #
        # so this hack is to make it look more like a half-close
        #print >>sys.stderr, "my StandardIO.childConnectionLost", fd, reason.value
        from twisted.internet import error, main
        from twisted.python import failure
        if reason.check(error.ConnectionLost) and fd == "write":
            #print >>sys.stderr, " fixing"
            reason = failure.Failure(main.CONNECTION_DONE)
        return TwitchyStandardIO.childConnectionLost(self, fd, reason)

from twisted.internet.protocol import Protocol
#from zope.interface import implements
#from twisted.internet.interfaces import IHalfCloseableProtocol

def wrap_in_binary_mode(f):
    if hasattr(f, "buffer"):
        # py3 "text file", as returned by open(), or sys.std(in|out|err)
        return f.buffer # _io.BufferedWriter
    assert isinstance(f, BytesIO)
    return f

class RunCommand(Referenceable, Protocol):
    #implements(IHalfCloseableProtocol)
    def run(self, rref, options):
        self.done = False
        self.d = defer.Deferred()
        rref.notifyOnDisconnect(self._done, 3)
        self.stdin_writer = None
        self.stdio = options.stdio
        self.stdout = options.stdout
        self.stderr = options.stderr
        d = rref.callRemote("execute", self)
        d.addCallback(self._started)
        d.addErrback(self._err)
        return self.d

    def dataReceived(self, data):
        if not isinstance(data, bytes):
            raise TypeError("stdin can accept only strings of bytes, not '%s'"
                            % (type(data),))
        # this is from stdin. It shouldn't be called until after _started
        # sets up stdio and self.stdin_writer
        self.stdin_writer.callRemoteOnly("feed_stdin", data)

    def connectionLost(self, reason):
        # likewise, this won't be called unless _started wanted stdin
        self.stdin_writer.callRemoteOnly("close_stdin")

    def _started(self, stdin_writer):
        if stdin_writer:
            self.stdin_writer = stdin_writer # rref
            self.stdio(self) # start accepting stdin
        # otherwise they don't want our stdin, so leave stdin_writer=None

    def remote_stdout(self, data):
        #print(b"remote_stdout", type(data))
        assert isinstance(data, bytes)
        #print(data)
        self.stdout.write(data)
        self.stdout.flush()
        #print(b"flushed stdout")
    def remote_stderr(self, data):
        assert isinstance(data, bytes)
        self.stderr.write(data)
        self.stderr.flush()
    def remote_done(self, signal, exitcode):
        if signal:
            self._done(127)
        else:
            self._done(exitcode)
    def _err(self, f):
        self._done(f)
    def _done(self, res):
        if not self.done:
            self.done = True
            self.d.callback(res)

class ClientOptions(usage.Options):
    synopsis = "Usage: flappclient [--furl=|--furlfile=] COMMAND"

    optParameters = [
        ("furl", None, None, "FURL of the service to contact"),
        ("furlfile", "f", None, "file containing the FURL of the service"),
        ]

    longdesc = """This client invokes a remote service that is running as
    part of a 'flappserver'. Each service lives at a specific secret FURL,
    which starts with 'pb://'. This FURL can be passed on the command line
    with --furl=FURL, or it can be stored in a file (along with comment lines
    that start with '#') and passed with --furlfile=FILE.

    Each service has a specific COMMAND type, and the client invocation must
    match the service. For more details on a specific command, run
    'flappclient COMMAND --help', e.g. 'flappclient upload-file --help'.
    """

    subCommands = [
        ("upload-file", None, UploadFileOptions, "upload a file"),
        ("run-command", None, RunCommandOptions, "cause a command to be run"),
        ]

    def read_furlfile(self):
        ff = os.path.expanduser(self["furlfile"])
        for line in open(ff).readlines():
            line = line.strip()
            if line.startswith("pb://"):
                return line
        return None

    def postOptions(self):
        self.furl = self["furl"]
        if self["furlfile"]:
            self.furl = self.read_furlfile()
        if not self.furl:
            raise usage.UsageError("must provide --furl or --furlfile")
        if not hasattr(self, 'subOptions'):
            raise usage.UsageError("must specify a command")

    def opt_help(self):
        self.stdout.write(six.ensure_binary("%s\n" % (self.synopsis,)))
        sys.exit(0)

    def opt_version(self):
        from twisted import copyright
        self.stdout.write(six.ensure_binary("Foolscap version: %s\n" % foolscap.__version__))
        self.stdout.write(six.ensure_binary("Twisted version: %s\n" % copyright.version))
        sys.exit(0)

dispatch_table = {
    "upload-file": UploadFile,
    "run-command": RunCommand,
    }


def parse_options(command_name, argv, stdio, stdout, stderr):
    try:
        config = ClientOptions()
        config.stdout = stdout
        config.stderr = stderr
        config.parseOptions(argv)

        config.subOptions.stdio = stdio # for streaming input
        config.subOptions.stdout = stdout
        config.subOptions.stderr = stderr

    except usage.error as e:
        stderr.write(six.ensure_binary("%s:  %s\n" % (command_name, e)))
        stderr.write(b"\n")
        c = getattr(config, 'subOptions', config)
        stderr.write(six.ensure_binary("%s\n" % (c,)))
        sys.exit(1)

    return config

def run_command(config):
    c = dispatch_table[config.subCommand]()
    tub = Tub()
    try:
        from twisted.internet import reactor
        from twisted.internet.endpoints import clientFromString
        from foolscap.connections import tor
        CONTROL = os.environ.get("FOOLSCAP_TOR_CONTROL_PORT", "")
        SOCKS = os.environ.get("FOOLSCAP_TOR_SOCKS_PORT", "")
        if CONTROL:
            h = tor.control_endpoint(clientFromString(reactor, CONTROL))
            tub.addConnectionHintHandler("tor", h)
        elif SOCKS:
            h = tor.socks_endpoint(clientFromString(reactor, SOCKS))
            tub.addConnectionHintHandler("tor", h)
        #else:
        #    h = tor.default_socks()
        #    tub.addConnectionHintHandler("tor", h)
    except ImportError:
        pass
    d = defer.succeed(None)
    d.addCallback(lambda _ign: tub.startService())
    d.addCallback(lambda _ign: tub.getReference(config.furl))
    d.addCallback(c.run, config.subOptions) # might provide tub here
    d.addBoth(lambda res: tub.stopService().addCallback(lambda _ign: res))
    return d


def run_flappclient(argv=None, run_by_human=True, stdio=StandardIO):
    if run_by_human:
        stdout = wrap_in_binary_mode(sys.stdout)
        stderr = wrap_in_binary_mode(sys.stderr)
    else:
        stdout = BytesIO()
        stderr = BytesIO()
    if argv:
        command_name,argv = argv[0],argv[1:]
    else:
        command_name = sys.argv[0]

    d = fireEventually()
    d.addCallback(lambda _ign: parse_options(command_name, argv,
                                             stdio, stdout, stderr))
    d.addCallback(run_command)

    if run_by_human:
        # we need to spin up our own reactor
        from twisted.internet import reactor
        stash_rc = []
        def good(rc):
            stash_rc.append(rc)
            reactor.stop()
        def oops(f):
            if f.check(SystemExit):
                stash_rc.append(f.value.args[0])
            else:
                stderr.write(b"flappclient command failed:\n")
                stderr.write(six.ensure_binary("%s\n" % (f,)))
                stash_rc.append(-1)
            reactor.stop()
        d.addCallbacks(good, oops)
        reactor.run()
        sys.exit(stash_rc[0])
    else:
        def _convert_system_exit(f):
            f.trap(SystemExit)
            return f.value.args[0]
        d.addErrback(_convert_system_exit)
        def done(rc):
            return (rc, stdout.getvalue(), stderr.getvalue())
        d.addCallback(done)
        return d
