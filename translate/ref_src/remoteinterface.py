
import types
import inspect
from zope.interface import interface, providedBy, implementer
from foolscap.constraint import Constraint, OpenerConstraint, nothingTaster, \
     IConstraint, IRemoteMethodConstraint, Optional, Any
from foolscap.tokens import Violation, InvalidRemoteInterface
from foolscap.schema import addToConstraintTypeMap
from foolscap import ipb

class RemoteInterfaceClass(interface.InterfaceClass):
    """This metaclass lets RemoteInterfaces be a lot like Interfaces. The
    methods are parsed differently (PB needs more information from them than
    z.i extracts, and the methods can be specified with a RemoteMethodSchema
    directly).

    RemoteInterfaces can accept the following additional attribute::

     __remote_name__: can be set to a string to specify the globally-unique
                      name for this interface. This should be a URL in a
                      namespace you administer. If not set, defaults to the
                      short classname.

    RIFoo.names() returns the list of remote method names.

    RIFoo['bar'] is still used to get information about method 'bar', however
    it returns a RemoteMethodSchema instead of a z.i Method instance.

    """

    def __init__(self, iname, bases=(), attrs=None):
        if attrs is None:
            interface.InterfaceClass.__init__(self, iname, bases, attrs)
            return

        # parse (and remove) the attributes that make this a RemoteInterface
        try:
            rname, remote_attrs = self._parseRemoteInterface(iname, attrs)
        except:
            raise

        # now let the normal InterfaceClass do its thing
        interface.InterfaceClass.__init__(self, iname, bases, attrs)

        # now add all the remote methods that InterfaceClass would have
        # complained about. This is really gross, and it really makes me
        # question why we're bothing to inherit from z.i.Interface at all. I
        # will probably stop doing that soon, and just have our own
        # meta-class, but I want to make sure you can still do
        # 'implements(RIFoo)' from within a class definition.

        a = getattr(self, "_InterfaceClass__attrs") # the ickiest part
        a.update(remote_attrs)
        self.__remote_name__ = rname

        # finally, auto-register the interface
        try:
            registerRemoteInterface(self, rname)
        except:
            raise

    def _parseRemoteInterface(self, iname, attrs):
        remote_attrs = {}

        remote_name = attrs.get("__remote_name__", iname)

        # and see if there is a __remote_name__ . We delete it because
        # InterfaceClass doesn't like arbitrary attributes
        if "__remote_name__" in attrs:
            del attrs["__remote_name__"]

        # determine all remotely-callable methods
        names = [name for name in list(attrs.keys())
                 if ((type(attrs[name]) == types.FunctionType and
                      not name.startswith("_")) or
                     IConstraint.providedBy(attrs[name]))]

        # turn them into constraints. Tag each of them with their name and
        # the RemoteInterface they came from.
        for name in names:
            m = attrs[name]
            if not IConstraint.providedBy(m):
                m = RemoteMethodSchema(method=m)
            m.name = name
            m.interface = self
            remote_attrs[name] = m
            # delete the methods, so zope's InterfaceClass doesn't see them.
            # Particularly necessary for things defined with IConstraints.
            del attrs[name]

        return remote_name, remote_attrs


def getRemoteInterface(obj):
    """Get the (one) RemoteInterface supported by the object, or None."""
    interfaces = list(providedBy(obj))
    # TODO: versioned Interfaces!
    ilist = []
    for i in interfaces:
        if isinstance(i, RemoteInterfaceClass):
            if i not in ilist:
                ilist.append(i)
    assert len(ilist) <= 1, ("don't use multiple RemoteInterfaces! %s uses %s"
                             % (obj, ilist))
    if ilist:
        return ilist[0]
    return None

class DuplicateRemoteInterfaceError(Exception):
    pass

RemoteInterfaceRegistry = {}
def registerRemoteInterface(iface, name=None):
    if not name:
        name = iface.__remote_name__
    assert isinstance(iface, RemoteInterfaceClass)
    if name in RemoteInterfaceRegistry:
        old = RemoteInterfaceRegistry[name]
        msg = "remote interface %s was registered with the same name (%s) as %s, please use __remote_name__ to provide a unique name" % (old, name, iface)
        raise DuplicateRemoteInterfaceError(msg)
    RemoteInterfaceRegistry[name] = iface

def getRemoteInterfaceByName(iname):
    return RemoteInterfaceRegistry.get(iname)


@implementer(IRemoteMethodConstraint)
class RemoteMethodSchema(object):
    """
    This is a constraint for a single remotely-invokable method. It gets to
    require, deny, or impose further constraints upon a set of named
    arguments.

    This constraint is created by using keyword arguments with the same
    names as the target method's arguments. Two special names are used:

    __ignoreUnknown__: if True, unexpected argument names are silently
    dropped. (note that this makes the schema unbounded)

    __acceptUnknown__: if True, unexpected argument names are always
    accepted without a constraint (which also makes this schema unbounded)

    The remotely-accesible object's .getMethodSchema() method may return one
    of these objects.
    """

    taster = {} # this should not be used as a top-level constraint
    opentypes = [] # overkill
    ignoreUnknown = False
    acceptUnknown = False

    name = None # method name, set when the RemoteInterface is parsed
    interface = None # points to the RemoteInterface which defines the method

    # under development
    def __init__(self, method=None, _response=None, __options=[], **kwargs):
        if method:
            self.initFromMethod(method)
            return
        self.argumentNames = []
        self.argConstraints = {}
        self.required = []
        self.responseConstraint = None
        # __response in the argslist gets treated specially, I think it is
        # mangled into _RemoteMethodSchema__response or something. When I
        # change it to use _response instead, it works.
        if _response:
            self.responseConstraint = IConstraint(_response)
        self.options = {} # return, wait, reliable, etc

        if "__ignoreUnknown__" in kwargs:
            self.ignoreUnknown = kwargs["__ignoreUnknown__"]
            del kwargs["__ignoreUnknown__"]
        if "__acceptUnknown__" in kwargs:
            self.acceptUnknown = kwargs["__acceptUnknown__"]
            del kwargs["__acceptUnknown__"]

        for argname, constraint in list(kwargs.items()):
            self.argumentNames.append(argname)
            constraint = IConstraint(constraint)
            self.argConstraints[argname] = constraint
            if not isinstance(constraint, Optional):
                self.required.append(argname)

    def initFromMethod(self, method):
        # call this with the Interface's prototype method: the one that has
        # argument constraints expressed as default arguments, and which
        # does nothing but returns the appropriate return type

        spec = inspect.getfullargspec(method)
        names = spec.args
        typeList = spec.defaults
        if names and names[0] == 'self':
            why = "RemoteInterface methods should not have 'self' in their argument list"
            raise InvalidRemoteInterface(why)
        if not names:
            typeList = []
        # 'def foo(oops)' results in typeList==None
        if typeList is None or len(names) != len(typeList):
            # TODO: relax this, use schema=Any for the args that don't have
            # default values. This would make:
            #  def foo(a, b=int): return None
            # equivalent to:
            #  def foo(a=Any, b=int): return None
            why = "RemoteInterface methods must have default values for all their arguments"
            raise InvalidRemoteInterface(why)
        self.argumentNames = names
        self.argConstraints = {}
        self.required = []
        for i in range(len(names)):
            argname = names[i]
            constraint = typeList[i]
            if not isinstance(constraint, Optional):
                self.required.append(argname)
            self.argConstraints[argname] = IConstraint(constraint)

        # call the method, its 'return' value is the return constraint
        self.responseConstraint = IConstraint(method())
        self.options = {} # return, wait, reliable, etc


    def getPositionalArgConstraint(self, argnum):
        if argnum >= len(self.argumentNames):
            raise Violation("too many positional arguments: %d >= %d" %
                            (argnum, len(self.argumentNames)))
        argname = self.argumentNames[argnum]
        c = self.argConstraints.get(argname)
        assert c
        if isinstance(c, Optional):
            c = c.constraint
        return (True, c)

    def getKeywordArgConstraint(self, argname,
                                num_posargs=0, previous_kwargs=[]):
        previous_args = self.argumentNames[:num_posargs]
        for pkw in previous_kwargs:
            assert pkw not in previous_args
            previous_args.append(pkw)
        if argname in previous_args:
            raise Violation("got multiple values for keyword argument '%s'"
                            % (argname,))
        c = self.argConstraints.get(argname)
        if c:
            if isinstance(c, Optional):
                c = c.constraint
            return (True, c)
        # what do we do with unknown arguments?
        if self.ignoreUnknown:
            return (False, None)
        if self.acceptUnknown:
            return (True, None)
        raise Violation("unknown argument '%s'" % argname)

    def getResponseConstraint(self):
        return self.responseConstraint

    def checkAllArgs(self, args, kwargs, inbound):
        # first we map the positional arguments
        allargs = {}
        if len(args) > len(self.argumentNames):
            raise Violation("method takes %d positional arguments (%d given)"
                            % (len(self.argumentNames), len(args)))
        for i,argvalue in enumerate(args):
            allargs[self.argumentNames[i]] = argvalue
        for argname,argvalue in list(kwargs.items()):
            if argname in allargs:
                raise Violation("got multiple values for keyword argument '%s'"
                                % (argname,))
            allargs[argname] = argvalue

        for argname, argvalue in list(allargs.items()):
            accept, constraint = self.getKeywordArgConstraint(argname)
            if not accept:
                # this argument will be ignored by the far end. TODO: emit a
                # warning
                pass
            try:
                constraint.checkObject(argvalue, inbound)
            except Violation as v:
                v.setLocation("%s=" % argname)
                raise

        for argname in self.required:
            if argname not in allargs:
                raise Violation("missing required argument '%s'" % argname)

    def checkResults(self, results, inbound):
        if self.responseConstraint:
            # this might raise a Violation. The caller will annotate its
            # location appropriately: they have more information than we do.
            self.responseConstraint.checkObject(results, inbound)

@implementer(IRemoteMethodConstraint)
class UnconstrainedMethod(object):
    """I am a method constraint that accepts any arguments and any return
    value.

    To use this, assign it to a method name in a RemoteInterface::

     class RIFoo(RemoteInterface):
         def constrained_method(foo=int, bar=str): # this one is constrained
             return str
         not_method = UnconstrainedMethod()  # this one is not
    """

    def getPositionalArgConstraint(self, argnum):
        return (True, Any())
    def getKeywordArgConstraint(self, argname, num_posargs=0,
                                previous_kwargs=[]):
        return (True, Any())
    def checkAllArgs(self, args, kwargs, inbound):
        pass # accept everything
    def getResponseConstraint(self):
        return Any()
    def checkResults(self, results, inbound):
        pass # accept everything


class LocalInterfaceConstraint(Constraint):
    """This constraint accepts any (local) instance which implements the
    given local Interface.
    """

    # TODO: maybe accept RemoteCopy instances
    # TODO: accept inbound your-references, if the local object they map to
    #       implements the interface

    # TODO: do we need an string-to-Interface map just like we have a
    # classname-to-class/factory map?
    taster = nothingTaster
    opentypes = []
    name = "LocalInterfaceConstraint"

    def __init__(self, interface):
        self.interface = interface
    def checkObject(self, obj, inbound):
        # TODO: maybe try to get an adapter instead?
        if not self.interface.providedBy(obj):
            raise Violation("'%s' does not provide interface %s"
                            % (obj, self.interface))

class RemoteInterfaceConstraint(OpenerConstraint):
    """This constraint accepts any RemoteReference that claims to be
    associated with a remote Referenceable that implements the given
    RemoteInterface. If 'interface' is None, just assert that it is a
    RemoteReference at all.

    On the inbound side, this will only accept a suitably-implementing
    RemoteReference, or a gift that resolves to such a RemoteReference. On
    the outbound side, this will accept either a Referenceable or a
    RemoteReference (which might be a your-reference or a their-reference).

    Sending your-references will result in the recipient getting a local
    Referenceable, which will not pass the constraint. TODO: think about if
    we want this behavior or not.
    """

    opentypes = [("my-reference",), ("their-reference",)]
    name = "RemoteInterfaceConstraint"

    def __init__(self, interface):
        self.interface = interface
    def checkObject(self, obj, inbound):
        if inbound:
            # this ought to be a RemoteReference that claims to be associated
            # with a remote Referenceable that implements the desired
            # interface.
            if not ipb.IRemoteReference.providedBy(obj):
                raise Violation("'%s' does not provide RemoteInterface %s, "
                                "and doesn't even look like a RemoteReference"
                                % (obj, self.interface))
            if not self.interface:
                return
            iface = obj.tracker.interface
            # TODO: this test probably doesn't handle subclasses of
            # RemoteInterface, which might be useful (if it even works)
            if not iface or iface != self.interface:
                raise Violation("'%s' does not provide RemoteInterface %s"
                                % (obj, self.interface))
        else:
            # this ought to be a Referenceable which implements the desired
            # interface. Or, it might be a RemoteReference which points to
            # one.
            if ipb.IRemoteReference.providedBy(obj):
                # it's a RemoteReference
                if not self.interface:
                    return
                iface = obj.tracker.interface
                if not iface or iface != self.interface:
                    raise Violation("'%s' does not provide RemoteInterface %s"
                                    % (obj, self.interface))
                return
            if not ipb.IReferenceable.providedBy(obj):
                # TODO: maybe distinguish between OnlyReferenceable and
                # Referenceable? which is more useful here?
                raise Violation("'%s' is not a Referenceable" % (obj,))
            if self.interface and not self.interface.providedBy(obj):
                raise Violation("'%s' does not provide RemoteInterface %s"
                                % (obj, self.interface))

def _makeConstraint(t):
    # This will be called for both local interfaces (IFoo) and remote
    # interfaces (RIFoo), so we have to distinguish between them. The late
    # import is to deal with a circular reference between this module and
    # remoteinterface.py
    if isinstance(t, RemoteInterfaceClass):
        return RemoteInterfaceConstraint(t)
    return LocalInterfaceConstraint(t)

addToConstraintTypeMap(interface.InterfaceClass, _makeConstraint)


# See
# https://github.com/warner/foolscap/pull/76/commits/ff3b9e8c1e4fa13701273a2143ba80b1e58f47cf#r549428977
# for more background on the use of add_metaclass here.
class RemoteInterface(interface.Interface, metaclass=RemoteInterfaceClass):
    pass
