# -*- test-case-name: foolscap.test.test_pb -*-

import os.path, weakref, binascii, re
import six
from warnings import warn
from zope.interface import implementer
from twisted.internet import (reactor, defer, protocol, error, interfaces,
                              endpoints)
from twisted.application import service
from twisted.python.failure import Failure
from twisted.python.deprecate import deprecated
from twisted.python.versions import Version

from foolscap import ipb, base32, negotiate, broker, eventual, storage
from foolscap import connection, util, info
from foolscap.connections import tcp
from foolscap.referenceable import SturdyRef
from .furl import BadFURLError
from foolscap.tokens import PBError, BananaError, WrongTubIdError, \
     WrongNameError, NoLocationError
from foolscap.reconnector import Reconnector
from foolscap.logging import log as flog
from foolscap.logging import log
from foolscap.logging import publish as flog_publish
from foolscap.logging.log import UNUSUAL

from foolscap import crypto

class Listener(protocol.ServerFactory, service.Service):
    """I am responsible for a single listening port, which connects to a
    single Tub. I listen on an Endpoint, and can be constructed with either
    the Endpoint, or a string (which I will pass to serverFromString())."""
    # this also serves as the ServerFactory

    def __init__(self, tub, endpoint_or_description, _test_options={},
                 negotiationClass=negotiate.Negotiation):
        assert isinstance(tub, Tub)
        self._tub = tub

        if interfaces.IStreamServerEndpoint.providedBy(endpoint_or_description):
            self._ep = endpoint_or_description
        elif isinstance(endpoint_or_description, str):
            self._ep = endpoints.serverFromString(reactor,
                                                  endpoint_or_description)
        else:
            raise TypeError("I require an endpoint, or a string description that can be turned into one")
        self._lp = None

        self._test_options = _test_options
        self._negotiationClass = negotiationClass
        self._redirects = {}

    def startService(self):
        service.Service.startService(self)
        d = self._ep.listen(self)
        def _listening(lp):
            self._lp = lp
        d.addCallback(_listening)

    def stopService(self):
        service.Service.stopService(self)
        if self._lp:
            return self._lp.stopListening()

    @deprecated(Version("Foolscap", 0, 12, 0),
                # "please use .."
                "pre-allocated port numbers")
    def getPortnum(self):
        """When this Listener was created with a port string of '0' or
        'tcp:0' (meaning 'please allocate me something'), and if the Listener
        is active (it is attached to a Tub which is in the 'running' state),
        this method will return the port number that was allocated. This is
        useful for the following pattern::

            t = Tub()
            l = t.listenOn('tcp:0')
            t.setLocation('localhost:%d' % l.getPortnum())
        """
        assert self._lp
        return self._lp.getHost().port

    def __repr__(self):
        return ("<Listener at 0x%x on %s with tub %s>" %
                (abs(id(self)), str(self._ep), str(self._tub.tubID)))

    def addRedirect(self, tubID, location):
        assert tubID is not None
        self._redirects[tubID] = location
    def removeRedirect(self, tubID):
        del self._redirects[tubID]

    def buildProtocol(self, addr):
        """Return a Broker attached to me (as the service provider).
        """
        lp = log.msg("%s accepting connection from %s" % (self, addr),
                     addr=(addr.host, addr.port),
                     facility="foolscap.listener")
        proto = self._negotiationClass(logparent=lp)
        ci = info.ConnectionInfo()
        ci._set_listener_description(self._describe())
        ci._set_listener_status("negotiating")
        proto.initServer(self, ci)
        proto.factory = self
        return proto

    def lookupTubID(self, tubID):
        tubID = six.ensure_str(tubID)
        tub = None
        if tubID == self._tub.tubID:
            tub = self._tub
        return (tub, self._redirects.get(tubID))

    def _describe(self):
        desc = "Listener"
        if self._lp:
            desc += " on %s" % str(self._lp.getHost())
        return desc

def generateSwissnumber(bits):
    bytes = os.urandom(bits//8)
    return base32.encode(bytes)

@implementer(ipb.ITub)
class Tub(service.MultiService):
    """I am a presence in the PB universe, also known as a Tub.

    I am a Service (in the twisted.application.service.Service sense),
    so you either need to call my startService() method before using me,
    or setServiceParent() me to a running service.

    This is the primary entry point for all PB-using applications, both
    clients and servers.

    I am known to the outside world by a base URL, which may include
    authentication information (a yURL). This is my 'TubID'.

    I contain Referenceables, and manage RemoteReferences to Referenceables
    that live in other Tubs.


    @param certData: if provided, use it as a certificate rather than
                     generating a new one. This is a PEM-encoded
                     private/public keypair, as returned by Tub.getCertData()

    @param certFile: if provided, the Tub will store its certificate in
                     this file. If the file does not exist when the Tub is
                     created, the Tub will generate a new certificate and
                     store it here. If the file does exist, the certificate
                     will be loaded from this file.

                     The simplest way to use the Tub is to choose a long-term
                     location for the certificate, use certFile= to tell the
                     Tub about it, and then let the Tub manage its own
                     certificate.

                     You may provide certData, or certFile, (or neither), but
                     not both.

    @param _test_options: a dictionary of options that can influence
                          connection connection negotiation. Currently
                          defined keys are:
                          - debug_slow: if True, wait half a second between
                                        each negotiation response

    @ivar brokers: maps TubIDs to L{Broker} instances

    @ivar referenceToName: maps Referenceable to a name
    @ivar nameToReference: maps name to Referenceable

    @type tubID: string
    @ivar tubID: a global identifier for this Tub, possibly including
                 authentication information, hash of SSL certificate

    """

    unsafeTracebacks = True # TODO: better way to enable this
    logLocalFailures = False
    logRemoteFailures = False
    debugBanana = False
    NAMEBITS = 160 # length of swissnumber for each reference
    TUBIDBITS = 16 # length of non-crypto tubID
    negotiationClass = negotiate.Negotiation
    brokerClass = broker.Broker
    keepaliveTimeout = 4*60 # ping when connection has been idle this long
    disconnectTimeout = None # disconnect after this much idle time
    tubID = None

    def __init__(self, certData=None, certFile=None, _test_options={}):
        service.MultiService.__init__(self)
        self.setup(_test_options)
        if certFile:
            self.setupEncryptionFile(certFile)
        else:
            self.setupEncryption(certData)

    def __repr__(self):
        return "<Tub id=%s>" % self.tubID

    def setupEncryptionFile(self, certFile):
        try:
            certData = open(certFile, "rb").read()
        except EnvironmentError:
            certData = None
        self.setupEncryption(certData)

        if certData is None:
            f = open(certFile, "wb")
            f.write(self.getCertData())
            f.close()

    def setupEncryption(self, certData):
        if certData:
            cert = crypto.loadCertificate(certData)
        else:
            cert = self.createCertificate()
        self.myCertificate = cert
        self.tubID = crypto.digest32(cert.digest("sha1"))

    def make_incarnation(self):
        unique = six.ensure_str(binascii.b2a_hex(os.urandom(8)))
        # TODO: it'd be nice to have a sequential component, so incarnations
        # could be ordered, but it requires disk space
        sequential = None
        self.incarnation = (unique, sequential)
        self.incarnation_string = unique

    def getIncarnationString(self):
        return self.incarnation_string

    def setup(self, _test_options):
        self._test_options = _test_options
        self.logger = flog.theLogger
        self.listeners = []
        self.locationHints = []

        # duplicate-connection management
        self.make_incarnation()

        # the master_table records the master-seqnum we used for the last
        # established connection with the given tubid. It only contains
        # entries for which we were the master.
        self.master_table = {} # k:tubid, v:seqnum
        # the slave_table records the (master-IR,master-seqnum) pair for the
        # last established connection with the given tubid. It only contains
        # entries for which we were the slave.
        self.slave_table = {} # k:tubid, v:(master-IR,seqnum)

        # local Referenceables
        self.nameToReference = weakref.WeakValueDictionary()
        self.referenceToName = weakref.WeakKeyDictionary()
        self.strongReferences = []
        self.nameLookupHandlers = []

        # remote stuff. Most of these use a TubRef as a dictionary key
        self.tubConnectors = {} # maps TubRef to a TubConnector
        self.waitingForBrokers = {} # maps TubRef to list of Deferreds
        self.brokers = {} # maps TubRef to a Broker that connects to them
        self.reconnectors = []

        self._connectionHandlers = {"tcp": tcp.default()}
        self._activeConnectors = []

        self._pending_getReferences = [] # list of (d, furl) pairs

        self._logport = None
        self._logport_furl = None
        self._logport_furlfile = None

        self._log_gatherer_furls = []
        self._log_gatherer_furlfile = None
        self._log_gatherer_connectors = {} # maps furl to reconnector

        self._handle_old_duplicate_connections = False
        self._expose_remote_exception_types = True
        self.accept_gifts = True

    def setOption(self, name, value):
        name = six.ensure_str(name)
        if name == "logLocalFailures":
            # log (with log.err) any exceptions that occur during the
            # execution of a local Referenceable's method, which is invoked
            # on behalf of a remote caller. These exceptions are reported to
            # the remote caller through their callRemote's Deferred as usual:
            # this option enables logging on the callee's side (i.e. our
            # side) as well.
            #
            # TODO: This does not yet include Violations which were raised
            # because the inbound callRemote had arguments that didn't meet
            # our specifications. But it should.
            self.logLocalFailures = bool(value)
        elif name == "logRemoteFailures":
            # log (with log.err) any exceptions that occur during the
            # execution of a remote Referenceabe's method, invoked on behalf
            # of a local RemoteReference.callRemote(). These exceptions are
            # reported to our local caller through the usual Deferred.errback
            # mechanism: this enables logging on the caller's side (i.e. our
            # side) as well.
            self.logRemoteFailures = bool(value)
        elif name == "keepaliveTimeout":
            self.keepaliveTimeout = int(value)
        elif name == "disconnectTimeout":
            self.disconnectTimeout = int(value)
        elif name == "logport-furlfile":
            self.setLogPortFURLFile(value)
        elif name == "log-gatherer-furl":
            self.setLogGathererFURL(value)
        elif name == "log-gatherer-furlfile":
            self.setLogGathererFURLFile(value)
        elif name == "bridge-twisted-logs":
            assert value is not False, "cannot unbridge twisted logs"
            if value is True:
                return flog.bridgeLogsFromTwisted(self.tubID)
            else:
                # for tests, bridge logs from a specific twisted LogPublisher
                return flog.bridgeLogsFromTwisted(self.tubID,
                                                  twisted_logger=value)
        elif name == "handle-old-duplicate-connections":
            if value is True:
                value = 60
            self._handle_old_duplicate_connections = int(value)
        elif name == "expose-remote-exception-types":
            self._expose_remote_exception_types = bool(value)
        elif name == "accept-gifts":
            self.accept_gifts = bool(value)
        else:
            raise KeyError("unknown option name '%s'" % name)

    def removeAllConnectionHintHandlers(self):
        self._connectionHandlers = {}

    def addConnectionHintHandler(self, hint_type, handler):
        assert ipb.IConnectionHintHandler.providedBy(handler)
        self._connectionHandlers[six.ensure_str(hint_type)] = handler

    def setLogGathererFURL(self, gatherer_furl_or_furls):
        assert not self._log_gatherer_furls
        if isinstance(gatherer_furl_or_furls, (type(b""), type(u""))):
            self._log_gatherer_furls.append(gatherer_furl_or_furls)
        else:
            self._log_gatherer_furls.extend(gatherer_furl_or_furls)
        self._maybeConnectToGatherer()

    def setLogGathererFURLFile(self, gatherer_furlfile):
        assert not self._log_gatherer_furlfile
        self._log_gatherer_furlfile = gatherer_furlfile
        self._maybeConnectToGatherer()

    def _maybeConnectToGatherer(self):
        if not self.locationHints:
            return
        furls = []
        if self._log_gatherer_furls:
            furls.extend(self._log_gatherer_furls)
        if self._log_gatherer_furlfile:
            try:
                # allow multiple lines
                for line in open(self._log_gatherer_furlfile, "r").readlines():
                    furl = line.strip()
                    if furl:
                        furls.append(furl)
            except EnvironmentError:
                pass
        for f in furls:
            if f in self._log_gatherer_connectors:
                continue
            connector = self.connectTo(f, self._log_gatherer_connected)
            self._log_gatherer_connectors[f] = connector

    def _log_gatherer_connected(self, rref):
        # we want the logport's furl to be nailed down now, so we'll use the
        # right (persistent) name even if the user never calls
        # tub.getLogPortFURL() directly.
        ignored = self.getLogPortFURL()
        del ignored
        tubID = six.ensure_binary(self.tubID)
        rref.callRemoteOnly('logport', tubID, self.getLogPort())


    def getLogPort(self):
        if not self.locationHints:
            raise NoLocationError
        return self._maybeCreateLogPort()

    def _maybeCreateLogPort(self):
        if not self._logport:
            self._logport = flog_publish.LogPublisher(self.logger)
        return self._logport

    def setLogPortFURLFile(self, furlfile):
        self._logport_furlfile = furlfile
        self._maybeCreateLogPortFURLFile()

    def _maybeCreateLogPortFURLFile(self):
        if not self._logport_furlfile:
            return
        if not self.locationHints:
            return
        # getLogPortFURL() creates the logport-furlfile as a side-effect
        ignored = self.getLogPortFURL()
        del ignored

    def getLogPortFURL(self):
        if not self.locationHints:
            raise NoLocationError
        if self._logport_furl:
            return self._logport_furl
        furlfile = self._logport_furlfile
        # the Tub must be running and configured (setLocation) by now
        self._logport_furl = self.registerReference(self.getLogPort(),
                                                    furlFile=furlfile)
        return self._logport_furl


    def log(self, *args, **kwargs):
        kwargs['tubID'] = self.tubID
        return log.msg(*args, **kwargs)

    def createCertificate(self):
        return crypto.createCertificate()

    def getCertData(self):
        # the bytes returned by this method can be used as the certData=
        # argument to create a new Tub with the same identity. TODO: actually
        # test this, I don't know if dump/keypair.newCertificate is the right
        # pair of methods.
        return six.ensure_binary(self.myCertificate.dumpPEM())

    def setLocation(self, *hints):
        """Tell this service what its location is: a host:port description of
        how to reach it from the outside world. You need to use this because
        the Tub can't do it without help. If you do a
        C{s.listenOn('tcp:1234')}, and the host is known as
        C{foo.example.com}, then it would be appropriate to do::

            s.setLocation('foo.example.com:1234')

        You must set the location before you can register any references.

        Tubs can have multiple location hints, just provide multiple
        arguments. """

        if self.locationHints:
            raise PBError("Tub.setLocation() can only be called once")
        self.locationHints = [six.ensure_str(hint) for hint in hints]
        self._maybeCreateLogPortFURLFile()
        self._maybeConnectToGatherer()

    @deprecated(Version("Foolscap", 0, 12, 0),
                # "please use .."
                "user-provided hostnames")
    def setLocationAutomatically(self, *extra_addresses):
        """Determine one of this host's publically-visible IP addresses and
        use it to set our location. This uses whatever source address would
        be used to get to a well-known public host (A.ROOT-SERVERS.NET),
        which is effectively the interface on which a default route lives.
        This is neither very pretty (IP address instead of hostname) nor
        guaranteed to work (it may very well be a 192.168 'private' address),
        but for publically-visible hosts this will probably produce a useable
        FURL.

        This method returns a Deferred that will fire once the location is
        actually established. Calls to registerReference() must be put off
        until the location has been set. And of course, you must call
        listenOn() before calling setLocationAutomatically()."""

        # first, make sure the reactor is actually running, by using the
        # eventual-send queue
        d = eventual.fireEventually()

        def _reactor_running(res):
            assert self.running
            # we can't use get_local_ip_for until the reactor is running
            return util.get_local_ip_for()
        d.addCallback(_reactor_running)

        def _got_local_ip(local_address):
            local_addresses = set(extra_addresses)
            if local_address:
                local_addresses.add(local_address)
            local_addresses.add("127.0.0.1")
            locations = set()
            for l in self.getListeners():
                portnum = l.getPortnum()
                for addr in local_addresses:
                    locations.add("%s:%d" % (addr, portnum))
            locations = list(locations)
            locations.sort()
            assert len(locations) >= 1
            location = ",".join(locations)
            self.setLocation(location)
        d.addCallback(_got_local_ip)
        return d

    def listenOn(self, what, _test_options={}):
        """Start listening for connections.

        @type  what: string
        @param what: a L{twisted.internet.endpoints.serverFromString} -style
                     description
        @param _test_options: a dictionary of options that can influence
                              connection negotiation before the target Tub
                              has been determined

        @return: The Listener object that was created. This can be used to
        stop listening later on."""

        if isinstance(what, (bytes, str)):
            what = six.ensure_str(what)

        if what in ("0", "tcp:0"):
            warningString = ("Tub.listenOn('tcp:0') was deprecated "
                             "in Foolscap 0.12.0; please use pre-allocated "
                             "port numbers instead")
            warn(warningString, DeprecationWarning, stacklevel=2)

        if isinstance(what, str) and re.search(r"^\d+$", what):
            warn("Tub.listenOn('12345') was deprecated "
                 "in Foolscap 0.12.0; please use qualified endpoint "
                 "descriptions like 'tcp:12345'",
                 DeprecationWarning, stacklevel=2)
            what = "tcp:%s" % what

        l = Listener(self, what, _test_options, self.negotiationClass)
        self.listeners.append(l)
        l.setServiceParent(self)
        return l

    def stopListeningOn(self, l):
        # this returns a Deferred when the port is shut down
        self.listeners.remove(l)
        return l.disownServiceParent()

    def getListeners(self):
        """Return the set of Listener objects that allow the outside world to
        connect to this Tub."""
        return self.listeners[:]

    def getTubID(self):
        return self.tubID
    def getShortTubID(self):
        return self.tubID[:4]

    def getConnectionInfoForFURL(self, furl):
        try:
            tubref = SturdyRef(furl).getTubRef()
        except (ValueError, BadFURLError):
            return None # unparseable FURL
        return self._getConnectionInfoForTubRef(tubref)

    def _getConnectionInfoForTubRef(self, tubref):
        if tubref in self.brokers:
            return self.brokers[tubref].getConnectionInfo()
        if tubref in self.tubConnectors:
            return self.tubConnectors[tubref].getConnectionInfo()
        return None # currently have no established or in-progress connection

    def connectorStarted(self, c):
        assert self.running
        # TODO: why a list? shouldn't there only ever be one TubConnector?
        self._activeConnectors.append(c)
    def connectorFinished(self, c):
        if c in self._activeConnectors:
            self._activeConnectors.remove(c)

    def startService(self):
        service.MultiService.startService(self)
        for d,sturdy in self._pending_getReferences:
            d1 = eventual.fireEventually(sturdy)
            d1.addCallback(self.getReference)
            d1.addBoth(lambda res, d=d: d.callback(res))
        del self._pending_getReferences
        for rc in self.reconnectors:
            eventual.eventually(rc.startConnecting, self)

    def _tubsAreNotRestartable(self, *args, **kwargs):
        raise RuntimeError("Sorry, but Tubs cannot be restarted.")
    def _tubHasBeenShutDown(self, *args, **kwargs):
        raise RuntimeError("Sorry, but this Tub has been shut down.")

    def stopService(self):
        # note that once you stopService a Tub, I cannot be restarted. (at
        # least this code is not designed to make that possible.. it might be
        # doable in the future).
        assert self.running
        self.startService = self._tubsAreNotRestartable
        self.getReference = self._tubHasBeenShutDown
        self.connectTo = self._tubHasBeenShutDown

        # Tell everything to shut down now. We assume that it will stop
        # twitching by the next tick, so Trial unit tests won't complain
        # about a dirty reactor. We wait on a few things that might not
        # behave.
        dl = []
        for rc in list(self.reconnectors):
            rc.stopConnecting()
        del self.reconnectors
        for c in list(self._activeConnectors):
            c.shutdown()
        why = Failure(error.ConnectionDone("Tub.stopService was called"))
        for b in list(self.brokers.values()):
            broker_disconnected = defer.Deferred()
            dl.append(broker_disconnected)
            b._notifyOnConnectionLost(
                lambda d=broker_disconnected: d.callback(None)
            )
            b.shutdown(why, fireDisconnectWatchers=False)

        d = defer.DeferredList(dl)
        d.addCallback(lambda _: service.MultiService.stopService(self))
        d.addCallback(eventual.fireEventually)
        return d

    def generateSwissnumber(self, bits):
        return generateSwissnumber(bits)

    def buildURL(self, name):
        # TODO: IPv6 dotted-quad addresses have colons, but need to have
        # host:port
        hints = ",".join(self.locationHints)
        return "pb://" + self.tubID + "@" + hints + "/" + name
        #hints = b",".join(self.locationHints)
        #return b"pb://" + self.tubID + b"@" + hints + b"/" + name

    def registerReference(self, ref, name=None, furlFile=None):
        """Make a Referenceable available to the outside world. A URL is
        returned which can be used to access this object. This registration
        will remain in effect (and the Tub will retain a reference to the
        object to keep it meaningful) until explicitly unregistered, or the
        Tub is shut down.

        @type  name: string (optional)
        @param name: if provided, the object will be registered with this
                     name. If not, a random (unguessable) string will be
                     used.

        @param furlFile: if provided, get the name from this file (if
                         it exists), and write the new FURL to this file.
                         If 'name=' is also provided, it is used for the
                         name, but the FURL is still written to this file.

        @rtype: string
        @return: the URL which points to this object. This URL can be passed
        to Tub.getReference() in any Tub on any host which can reach this
        one.
        """

        if not self.locationHints:
            raise NoLocationError("you must setLocation() before "
                                  "you can registerReference()")
        oldfurl = None
        if furlFile:
            try:
                oldfurl = open(furlFile, "r").read().strip()
            except EnvironmentError:
                pass
        if oldfurl:
            sr = SturdyRef(oldfurl)
            if name is None:
                name = sr.name
            if self.tubID != sr.tubID:
                raise WrongTubIdError("I cannot keep using the old FURL from %s"
                                      " because it does not have the same"
                                      " TubID as I do (%s)" %
                                      (furlFile, self.tubID))
            if name != sr.name:
                raise WrongNameError("I cannot keep using the old FURL from %s"
                                     " because you called registerReference"
                                     " with a new name (%s)" %
                                     (furlFile, name))
        name = self._assignName(ref, name)
        assert name
        if ref not in self.strongReferences:
            self.strongReferences.append(ref)
        furl = self.buildURL(name)
        if furlFile:
            need_to_chmod = not os.path.exists(furlFile)
            f = open(furlFile, "w")
            f.write(furl + "\n")
            f.close()
            if need_to_chmod:
                # XXX: open-to-chmod race here
                os.chmod(furlFile, 0o600)
        return furl

    # this is called by either registerReference or by
    # getOrCreateURLForReference
    def _assignName(self, ref, preferred_name=None):
        """Make a Referenceable available to the outside world, but do not
        retain a strong reference to it. If we must create a new name, use
        preferred_name. If that is None, use a random unguessable name.
        """
        if not self.locationHints:
            # without a location, there is no point in giving it a name
            return None
        if ref in self.referenceToName:
            return self.referenceToName[ref]
        name = preferred_name
        if not name:
            name = self.generateSwissnumber(self.NAMEBITS)
        self.referenceToName[ref] = name
        self.nameToReference[name] = ref
        return name

    def getReferenceForName(self, name):
        if name in self.nameToReference:
            return self.nameToReference[name]
        for lookup in self.nameLookupHandlers:
            ref = lookup(name)
            if ref:
                if ref not in self.referenceToName:
                    self.referenceToName[ref] = name
                return ref
        # don't reveal the full swissnum
        hint = name[:2]
        raise KeyError("unable to find reference for name starting with '%s'"
                       % hint)

    def getReferenceForURL(self, url):
        # TODO: who should this be used by?
        sturdy = SturdyRef(url)
        assert sturdy.tubID == self.tubID
        return self.getReferenceForName(sturdy.name)

    def getOrCreateURLForReference(self, ref):
        """Return the global URL for the reference, if there is one, or None
        if there is not."""
        name = self._assignName(ref)
        if name:
            return self.buildURL(name)
        return None

    def revokeReference(self, ref):
        # TODO
        pass

    def unregisterURL(self, url):
        sturdy = SturdyRef(url)
        name = sturdy.name
        ref = self.nameToReference[name]
        del self.nameToReference[name]
        del self.referenceToName[ref]
        self.revokeReference(ref)

    def unregisterReference(self, ref):
        name = self.referenceToName[ref]
        url = self.buildURL(name)
        sturdy = SturdyRef(url)
        name = sturdy.name
        del self.nameToReference[name]
        del self.referenceToName[ref]
        if ref in self.strongReferences:
            self.strongReferences.remove(ref)
        self.revokeReference(ref)

    def registerNameLookupHandler(self, lookup):
        """Add a function to help convert names to Referenceables.

        When remote systems pass a FURL to their Tub.getReference(), our Tub
        will be asked to locate a Referenceable for the name inside that
        furl. The normal mechanism for this is to look at the table
        maintained by registerReference() and unregisterReference(). If the
        name does not exist in that table, other 'lookup handler' functions
        are given a chance. Each lookup handler is asked in turn, and the
        first which returns a non-None value wins.

        This may be useful for cases where the furl represents an object that
        lives on disk, or is generated on demand: rather than creating all
        possible Referenceables at startup, the lookup handler can create or
        retrieve the objects only when someone asks for them.

        Note that constructing the FURLs of these objects may be non-trivial.
        It is safe to create an object, use tub.registerReference in one
        invocation of a program to obtain (and publish) the furl, parse the
        furl to extract the name, save the contents of the object on disk,
        then in a later invocation of the program use a lookup handler to
        retrieve the object from disk. This approach means the objects that
        are created in a given invocation stick around (inside
        tub.strongReferences) for the rest of that invocation. An alternatve
        approach is to create the object but *not* use tub.registerReference,
        but in that case you have to construct the FURL yourself, and the Tub
        does not currently provide any support for doing this robustly.

        @param lookup: a callable which accepts a name (as a string) and
                       returns either a Referenceable or None. Note that
                       these strings should not contain a slash, a question
                       mark, or an ampersand, as these are reserved in the
                       FURL for later expansion (to add parameters beyond the
                       object name)
        """
        self.nameLookupHandlers.append(lookup)

    def unregisterNameLookupHandler(self, lookup):
        self.nameLookupHandlers.remove(lookup)

    def getReference(self, sturdyOrURL):
        """Acquire a RemoteReference for the given SturdyRef/URL.

        The Tub must be running (i.e. Tub.startService()) when this is
        invoked. Future releases may relax this requirement.

        @return: a Deferred that fires with the RemoteReference. Any failures
        are returned asynchronously.
        """

        return defer.maybeDeferred(self._getReference, sturdyOrURL)

    def _getReference(self, sturdyOrURL):
        if isinstance(sturdyOrURL, SturdyRef):
            sturdy = sturdyOrURL
        else:
            sturdyOrURL = six.ensure_str(sturdyOrURL)
            sturdy = SturdyRef(sturdyOrURL)

        if not self.running:
            # queue their request for service once the Tub actually starts
            log.msg("Tub.getReference(%s) queued until Tub.startService called"
                    % sturdy, facility="foolscap.tub")
            d = defer.Deferred()
            self._pending_getReferences.append((d, sturdy))
            return d

        name = sturdy.name
        d = self.getBrokerForTubRef(sturdy.getTubRef())
        d.addCallback(lambda b: b.getYourReferenceByName(name))
        return d

    def connectTo(self, _furl, _cb, *args, **kwargs):
        """Establish (and maintain) a connection to a given PBURL.

        I establish a connection to the PBURL and run a callback to inform
        the caller about the newly-available RemoteReference. If the
        connection is lost, I schedule a reconnection attempt for the near
        future. If that one fails, I keep trying at longer and longer
        intervals (exponential backoff).

        I accept a callback which will be fired each time a connection
        attempt succeeds. This callback is run with the new RemoteReference
        and any additional args/kwargs provided to me. The callback should
        then use rref.notifyOnDisconnect() to get a message when the
        connection goes away. At some point after it goes away, the
        Reconnector will reconnect.

        The Tub must be running (i.e. Tub.startService()) when this is
        invoked. Future releases may relax this requirement.

        I return a Reconnector object. When you no longer want to maintain
        this connection, call the stopConnecting() method on the Reconnector.
        I promise to not invoke your callback after you've called
        stopConnecting(), even if there was already a connection attempt in
        progress. If you had an active connection before calling
        stopConnecting(), you will still have access to it, until it breaks
        on its own. (I will not attempt to break existing connections, I will
        merely stop trying to create new ones). All my Reconnector objects
        will be shut down when the Tub is stopped.

        Usage::

         def _got_ref(rref, arg1, arg2):
             rref.callRemote('hello again')
             # etc
         rc = tub.connectTo(_got_ref, 'arg1', 'arg2')
         ...
         rc.stopConnecting() # later
        """

        rc = Reconnector(_furl, _cb, args, kwargs)
        if self.running:
            rc.startConnecting(self)
        else:
            self.log("Tub.connectTo(%s) queued until Tub.startService called"
                     % _furl, level=UNUSUAL)
        self.reconnectors.append(rc)
        return rc

    def serialize(self, obj):
        b = broker.StorageBroker(None)
        b.setTub(self)
        d = storage.serialize(obj, banana=b)
        return d

    def unserialize(self, data):
        b = broker.StorageBroker(None)
        b.setTub(self)
        d = storage.unserialize(data, banana=b)
        assert isinstance(d, defer.Deferred)
        return d

    # beyond here are internal methods, not for use by application code

    # _removeReconnector is called by the Reconnector
    def _removeReconnector(self, rc):
        self.reconnectors.remove(rc)

    def getBrokerForTubRef(self, tubref):
        if tubref in self.brokers:
            return defer.succeed(self.brokers[tubref])
        if tubref.getTubID() == self.tubID:
            b = self._createLoopbackBroker(tubref)
            # _createLoopbackBroker will call brokerAttached, which will add
            # it to self.brokers
            # TODO: stash this in self.brokers, so we don't create multiples
            return defer.succeed(b)

        d = defer.Deferred()
        if tubref not in self.waitingForBrokers:
            self.waitingForBrokers[tubref] = []
        self.waitingForBrokers[tubref].append(d)

        if tubref not in self.tubConnectors:
            # the TubConnector will call our brokerAttached when it finishes
            # negotiation, which will fire waitingForBrokers[tubref].
            c = connection.TubConnector(self, tubref, self._connectionHandlers)
            self.tubConnectors[tubref] = c
            c.connect()

        return d

    def _createLoopbackBroker(self, tubref):
        t1,t2 = broker.LoopbackTransport(), broker.LoopbackTransport()
        t1.setPeer(t2); t2.setPeer(t1)
        n = negotiate.Negotiation()
        params = n.loopbackDecision()
        ci = info.ConnectionInfo()
        b1 = self.brokerClass(tubref, params, connectionInfo=ci)
        b2 = self.brokerClass(tubref, params)
        # we treat b1 as "our" broker, and b2 as "theirs", and we pretend
        # that b2 has just connected to us. We keep track of b1, and b2 keeps
        # track of us.
        b1.setTub(self)
        b2.setTub(self)
        t1.protocol = b1; t2.protocol = b2
        b1.makeConnection(t1); b2.makeConnection(t2)
        ci._set_connected(True)
        ci._set_winning_hint("loopback")
        ci._set_connection_status("loopback", "connected")
        ci._set_established_at(b1.creation_timestamp)
        self.brokerAttached(tubref, b1, False)
        return b1

    def connectionFailed(self, tubref, why):
        # we previously initiated an outbound TubConnector to this tubref, but
        # it was unable to establish a connection. 'why' is the most useful
        # Failure that occurred (i.e. it is a NegotiationError if we made it
        # that far, otherwise it's a ConnectionFailed).

        if tubref in self.tubConnectors:
            del self.tubConnectors[tubref]
        if tubref in self.brokers:
            # oh, but fortunately an inbound connection must have succeeded.
            # Nevermind.
            return

        # inform hopeful Broker-waiters that they aren't getting one
        if tubref in self.waitingForBrokers:
            waiting = self.waitingForBrokers[tubref]
            del self.waitingForBrokers[tubref]
            for d in waiting:
                d.errback(why)

    def brokerAttached(self, tubref, broker, isClient):
        assert self.running
        assert tubref

        if tubref in self.tubConnectors:
            # we initiated an outbound connection to this tubref
            if not isClient:
                # however, the connection we got was from an inbound
                # connection. The completed (inbound) connection wins, so
                # abandon the outbound TubConnector
                self.tubConnectors[tubref].shutdown()

            # we don't need the TubConnector any more
            del self.tubConnectors[tubref]

        if tubref in self.brokers:
            # this shouldn't happen: acceptDecision is supposed to drop any
            # existing old connection first.
            self.log("ERROR: unexpected duplicate connection from %s" % tubref)
            raise BananaError("unexpected duplicate connection")
        self.brokers[tubref] = broker

        # now inform everyone who's been waiting on it
        if tubref in self.waitingForBrokers:
            for d in self.waitingForBrokers[tubref]:
                eventual.eventually(d.callback, broker)
            del self.waitingForBrokers[tubref]

    def brokerDetached(self, broker, why):
        # a loopback connection will produce two Brokers that both use the
        # same tubref. Both will shut down about the same time. Make sure
        # this doesn't confuse us.

        # the Broker will have already severed all active references
        for tubref in list(self.brokers.keys()):
            if self.brokers[tubref] is broker:
                del self.brokers[tubref]

    def debug_listBrokers(self):
        # return a list of (tubref, inbound, outbound) tuples. The tubref
        # tells you which broker this is, 'inbound' is a list of
        # InboundDelivery objects (one per outstanding inbound message), and
        # 'outbound' is a list of PendingRequest objects (one per message
        # that's waiting on a remote broker to complete).
        output = []
        all_brokers = list(self.brokers.items())
        for tubref,_broker in all_brokers:
            inbound = _broker.inboundDeliveryQueue[:]
            outbound = [pr
                        for (reqID, pr) in
                        sorted(_broker.waitingForAnswers.items()) ]
            output.append( (str(tubref), inbound, outbound) )
        return output
