
class ConnectionInfo:
    def __init__(self):
        self.connected = False
        self.connectorStatuses = {}
        self.connectionHandlers = {}
        self.listenerStatus = (None, None)
        self.winningHint = None
        self.establishedAt = None
        self.lostAt = None

    def _set_connected(self, connected):
        self.connected = connected

    def _set_connection_status(self, location, status):
        self.connectorStatuses[location] = status
    def _describe_connection_handler(self, location, description):
        self.connectionHandlers[location] = description
    def _set_established_at(self, when):
        self.establishedAt = when
    def _set_winning_hint(self, location):
        self.winningHint = location
    def _set_listener_description(self, description):
        self.listenerStatus = (description, self.listenerStatus[1])
    def _set_listener_status(self, status):
        self.listenerStatus = (self.listenerStatus[0], status)
    def _set_lost_at(self, when):
        self.lostAt = when
