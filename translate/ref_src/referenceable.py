# -*- test-case-name: foolscap.test.test_sturdyref -*-

# this module is responsible for sending and receiving OnlyReferenceable and
# Referenceable (callable) objects. All details of actually invoking methods
# live in call.py

import weakref
from functools import total_ordering
import six
from zope.interface import interface
from zope.interface import implementer
from twisted.python.components import registerAdapter
Interface = interface.Interface
from twisted.internet import defer
from twisted.python import failure, log

from foolscap import ipb, slicer, tokens, call
BananaError = tokens.BananaError
Violation = tokens.Violation
from foolscap.constraint import IConstraint, ByteStringConstraint
from foolscap.remoteinterface import getRemoteInterface, \
     getRemoteInterfaceByName, RemoteInterfaceConstraint
from foolscap.schema import constraintMap
from foolscap.copyable import Copyable, RemoteCopy
from foolscap.eventual import eventually, fireEventually
from foolscap.furl import decode_furl

@implementer(ipb.IReferenceable)
class OnlyReferenceable(object):
    def processUniqueID(self):
        return id(self)

@implementer(ipb.IReferenceable, ipb.IRemotelyCallable)
class Referenceable(OnlyReferenceable):
    _interface = None
    _interfaceName = None

    # TODO: this code wants to be in an adapter, not a base class. Also, it
    # would be nice to cache this across the class: if every instance has the
    # same interfaces, they will have the same values of _interface and
    # _interfaceName, and it feels silly to store this data separately for
    # each instance. Perhaps we could compare the instance's interface list
    # with that of the class and only recompute this stuff if they differ.

    def getInterface(self):
        if not self._interface:
            self._interface = getRemoteInterface(self)
            if self._interface:
                self._interfaceName = self._interface.__remote_name__
            else:
                self._interfaceName = None
        return self._interface

    def getInterfaceName(self):
        self.getInterface()
        return self._interfaceName

    def doRemoteCall(self, methodname, args, kwargs):
        meth = getattr(self, "remote_%s" % methodname)
        res = meth(*args, **kwargs)
        return res

constraintMap[Referenceable] = RemoteInterfaceConstraint(None)

class ReferenceableTracker(object):
    """I hold the data which tracks a local Referenceable that is in used by
    a remote Broker.

    @ivar obj: the actual object
    @ivar refcount: the number of times this reference has been sent to the
                    remote end, minus the number of DECREF messages which it
                    has sent back. When it goes to zero, the remote end has
                    forgotten the RemoteReference, and is prepared to forget
                    the RemoteReferenceData as soon as the DECREF message is
                    acknowledged.
    @ivar clid: the connection-local ID used to represent this object on the
                wire.
    """

    def __init__(self, tub, obj, puid, clid):
        self.tub = tub
        self.obj = obj
        self.clid = clid
        self.puid = puid
        self.refcount = 0

    def send(self):
        """Increment the refcount.
        @return: True if this is the first transmission of the reference.
        """
        self.refcount += 1
        if self.refcount == 1:
            return True

    def getURL(self):
        if self.tub:
            return self.tub.getOrCreateURLForReference(self.obj)
        return None

    def decref(self, count):
        """Call this in response to a DECREF message from the other end.
        @return: True if the refcount went to zero, meaning this clid should
        be retired.
        """
        assert self.refcount >= count, "decref(%d) but refcount was %d" % (count, self.refcount)
        self.refcount -= count
        if self.refcount == 0:
            return True
        return False

# TODO: rather than subclassing Referenceable, ReferenceableSlicer should be
# registered to use for anything which provides any RemoteInterface

class ReferenceableSlicer(slicer.BaseSlicer):
    """I handle pb.Referenceable objects (things with remotely invokable
    methods, which are copied by reference).
    """
    opentype = ('my-reference',)

    def slice(self, streamable, protocol):
        broker = self.requireBroker(protocol)
        puid = ipb.IReferenceable(self.obj).processUniqueID()
        tracker = broker.getTrackerForMyReference(puid, self.obj)
        if broker.remote_broker:
            # emit a my-reference sequence
            yield b'my-reference'
            yield tracker.clid
            firstTime = tracker.send()
            if firstTime:
                # this is the first time the Referenceable has crossed this
                # wire. In addition to the clid, send the interface name (if
                # any), and any URL this reference might be known by
                iname = ipb.IRemotelyCallable(self.obj).getInterfaceName() or ""
                yield six.ensure_binary(iname)
                url = tracker.getURL()
                if url:
                    yield six.ensure_binary(url)
        else:
            # when we're serializing to data, rather than to a live
            # connection, all of my Referenceables are turned into
            # their-reference sequences, to prompt the eventual recipient to
            # create a new connection for this object.

            # a big note on object lifetimes: obviously, the data cannot keep
            # the Referenceable alive. Use tub.registerReference() on any
            # Referenceable that you want to include in the serialized data,
            # and take steps to make sure that later incarnations of this Tub
            # will do the same.
            yield b'their-reference'
            yield 0 # giftID==0 tells the recipient to not try to ack it
            yield six.ensure_binary(tracker.getURL())


registerAdapter(ReferenceableSlicer, Referenceable, ipb.ISlicer)

class CallableSlicer(slicer.BaseSlicer):
    """Bound methods are serialized as my-reference sequences with negative
    clid values."""
    opentype = ('my-reference',)

    def sliceBody(self, streamable, protocol):
        broker = self.requireBroker(protocol)
        # TODO: consider this requirement, maybe based upon a Tub flag
        # assert ipb.ISlicer(self.obj.im_self)
        # or maybe even isinstance(self.obj.im_self, Referenceable)
        puid = id(self.obj)
        tracker = broker.getTrackerForMyCall(puid, self.obj)
        yield tracker.clid
        firstTime = tracker.send()
        if firstTime:
            # this is the first time the Call has crossed this wire. In
            # addition to the clid, send the schema name and any URL this
            # reference might be known by
            schema = self.getSchema() or ""
            yield six.ensure_binary(schema)
            url = tracker.getURL()
            if url:
                yield six.ensure_binary(url)

    def getSchema(self):
        return None # TODO: not quite ready yet
        # callables which are actually bound methods of a pb.Referenceable
        # can use the schema from that
        s = ipb.IReferenceable(self.obj.im_self, None)
        if s:
            return s.getSchemaForMethodNamed(self.obj.im_func.__name__)
        # both bound methods and raw callables can also use a .schema
        # attribute
        return getattr(self.obj, "schema", None)


# The CallableSlicer is activated through PBRootSlicer.slicerTable, because a
# StorageBanana might want to stick with the old MethodSlicer/FunctionSlicer
# for these types
#registerAdapter(CallableSlicer, types.MethodType, ipb.ISlicer)


class ReferenceUnslicer(slicer.BaseUnslicer):
    """I turn an incoming 'my-reference' sequence into a RemoteReference or a
    RemoteMethodReference."""
    state = 0
    clid = None
    interfaceName = None
    url = None
    inameConstraint = ByteStringConstraint() # TODO: only known RI names?
    urlConstraint = ByteStringConstraint()

    def checkToken(self, typebyte, size):
        if self.state == 0:
            if typebyte not in (tokens.INT, tokens.NEG):
                raise BananaError("reference ID must be an INT or NEG")
        elif self.state == 1:
            self.inameConstraint.checkToken(typebyte, size)
        elif self.state == 2:
            self.urlConstraint.checkToken(typebyte, size)
        else:
            raise Violation("too many parameters in my-reference")

    def receiveChild(self, obj, ready_deferred=None):
        assert not isinstance(obj, defer.Deferred)
        assert ready_deferred is None
        if self.state == 0:
            self.clid = obj
            self.state = 1
        elif self.state == 1:
            # must be the interface name
            self.interfaceName = six.ensure_str(obj) or None
            self.state = 2
        elif self.state == 2:
            # URL
            self.url = six.ensure_str(obj)
            self.state = 3
        else:
            raise BananaError("Too many my-reference parameters")

    def receiveClose(self):
        if self.clid is None:
            raise BananaError("sequence ended too early")
        tracker = self.broker.getTrackerForYourReference(self.clid,
                                                         self.interfaceName,
                                                         self.url)
        return tracker.getRef(), None

    def describe(self):
        if self.clid is None:
            return "<ref-?>"
        return "<ref-%s>" % self.clid



class RemoteReferenceTracker(object):
    """I hold the data necessary to locate (or create) a RemoteReference.

    @ivar url: the target Referenceable's global URL
    @ivar broker: the Broker which holds this RemoteReference
    @ivar clid: for that Broker, the your-reference CLID for the
                RemoteReference
    @ivar interfaceName: the name of a RemoteInterface object that the
                         RemoteReference claims to implement
    @ivar interface: our version of a RemoteInterface object that corresponds
                     to interfaceName
    @ivar received_count: the number of times the remote end has send us this
                          object. We must send back decref() calls to match.
    @ivar ref: a weakref to the RemoteReference itself
    """

    def __init__(self, parent, clid, url, interfaceName):
        self.broker = parent
        self.clid = clid
        # TODO: the remote end sends us a global URL, when really it should
        # probably send us a per-Tub name, which can can then concatenate to
        # their TubID if/when we pass it on to others. By accepting a full
        # URL, we give them the ability to sort-of spoof others. For now, we
        # check that their URL uses the same tubid as our broker is
        # expecting, but the Right Way is to just not have them send the base
        # part in the first place. I haven't yet made this change because I'm
        # not yet positive it would work.. how exactly does the base url get
        # sent, anyway? What about Tubs visible through multiple names?
        self.url = url
        if url is not None:
            # unit tests frequently set url=None
            assert self.broker.remote_tubref
            expected_tubid = self.broker.remote_tubref.getTubID()
            url_tubid = SturdyRef(url).getTubRef().getTubID()
            if expected_tubid != url_tubid:
                raise BananaError("inbound reference claims bad tubid, %s vs %s"
                                  % (expected_tubid, url_tubid))
        self.interfaceName = interfaceName
        self.interface = getRemoteInterfaceByName(interfaceName)
        self.received_count = 0
        self.ref = None

    def __repr__(self):
        s = "<RemoteReferenceTracker(clid=%d,url=%s)>" % (self.clid, self.url)
        return s

    def getURL(self):
        return self.url

    def getRef(self):
        """Return the actual RemoteReference that we hold, creating it if
        necessary. This is called when we receive a my-reference sequence
        from the remote end, so we must increment our received_count."""
        # self.ref might be None (if we haven't created it yet), or it might
        # be a dead weakref (if it has been released but our _handleRefLost
        # hasn't fired yet). In either case we need to make a new
        # RemoteReference.
        if self.ref is None or self.ref() is None:
            ref = RemoteReference(self)
            self.ref = weakref.ref(ref, self._refLost)
        self.received_count += 1
        return self.ref()

    def _refLost(self, wref):
        # don't do anything right now, we could be in the middle of all sorts
        # of weird code. both __del__ and weakref callbacks can fire at any
        # time. Almost as bad as threads..

        # instead, do stuff later.
        eventually(self._handleRefLost)

    def _handleRefLost(self):
        if self.ref is None or self.ref() is None:
            count, self.received_count = self.received_count, 0
            if count == 0:
                return
            self.broker.freeYourReference(self, count)
        # otherwise our RemoteReference is actually still alive, resurrected
        # between the call to _refLost and the eventual call to
        # _handleRefLost. In this case, don't decref anything.


@implementer(ipb.IRemoteReference)
class RemoteReferenceOnly(object):
    def __init__(self, tracker):
        """@param tracker: the RemoteReferenceTracker which points to us"""
        self.tracker = tracker

    def getSturdyRef(self):
        return SturdyRef(self.tracker.getURL())
    def getRemoteTubID(self):
        rt = self.tracker.broker.remote_tubref
        assert rt
        return rt.getTubID()

    def getPeer(self):
        """Return an IAddress-providing object that describes the remote
        peer. If we've connected to ourselves, this will be a
        foolscap.broker.LoopbackAddress instance. If we've connected to
        someone else, this will be a twisted.internet.address.IPv4Address
        instance, with .host and .port attributes."""
        transport = self.tracker.broker.transport
        return transport.getPeer()

    def isConnected(self):
        """Return False if this reference is known to be dead."""
        return not self.tracker.broker.disconnected
    def getLocationHints(self):
        return SturdyRef(self.tracker.url).locationHints
    def getConnectionInfo(self):
        return self.tracker.broker.getConnectionInfo()

    def getDataLastReceivedAt(self):
        """If keepalives are enabled, this returns seconds-since-epoch when
        we last received any data from the remote side. This is
        connection-wide, not specific to this particular object. If
        keepalives are disabled (the default), it returns None."""
        return self.tracker.broker.getDataLastReceivedAt()

    def notifyOnDisconnect(self, callback, *args, **kwargs):
        """Register a callback to run when we lose this connection.

        The callback will be invoked with whatever extra arguments you
        provide to this function. For example::

         def my_callback(name, number):
             print name, number+4
         cookie = rref.notifyOnDisconnect(my_callback, 'bob', number=3)

        This function returns an opaque cookie. If you want to cancel the
        notification, pass this same cookie back to dontNotifyOnDisconnect::

         rref.dontNotifyOnDisconnect(cookie)

        Note that if the Tub is shutdown (via stopService), all
        notifyOnDisconnect handlers are cancelled.
        """

        # return a cookie (really the (cb,args,kwargs) tuple) that they must
        # use to deregister
        marker = self.tracker.broker.notifyOnDisconnect(callback,
                                                        *args, **kwargs)
        return marker
    def dontNotifyOnDisconnect(self, marker):
        self.tracker.broker.dontNotifyOnDisconnect(marker)

    def __repr__(self):
        r = "<%s at 0x%x" % (self.__class__.__name__, abs(id(self)))
        if self.tracker.url:
            r += " [%s]" % self.tracker.url
        r += ">"
        return r

class RemoteReference(RemoteReferenceOnly):
    def callRemote(self, _name, *args, **kwargs):
        # Note: for consistency, *all* failures are reported asynchronously.
        return defer.maybeDeferred(self._callRemote, _name, False,
                                   args, kwargs)

    def callRemoteOnly(self, _name, *args, **kwargs):
        # the remote end will not send us a response. The only error cases
        # are arguments that don't match the schema, or broken invariants. In
        # particular, DeadReferenceError will be silently consumed.
        d = defer.maybeDeferred(self._callRemote, _name, True,
                                args, kwargs)
        del d
        return None

    def _callRemote(self, _name, callOnly, args, kwargs):
        req = None
        broker = self.tracker.broker
        _name = six.ensure_str(_name)

        # remember that "none" is not a valid constraint, so we use it to
        # mean "not set by the caller", which means we fall back to whatever
        # the RemoteInterface says. Using None would mean an AnyConstraint,
        # which is not the same thing.
        methodConstraintOverride = kwargs.get("_methodConstraint", "none")
        resultConstraint = kwargs.get("_resultConstraint", "none")
        useSchema = kwargs.get("_useSchema", True)

        if "_methodConstraint" in kwargs:
            del kwargs["_methodConstraint"]
        if "_resultConstraint" in kwargs:
            del kwargs["_resultConstraint"]
        if "_useSchema" in kwargs:
            del kwargs["_useSchema"]

        if callOnly:
            if broker.disconnected:
                # DeadReferenceError is silently consumed
                return
            reqID = 0
        else:
            # newRequestID() could fail with a DeadReferenceError
            reqID = broker.newRequestID()

        # in this section, we validate the outbound arguments against our
        # notion of what the other end will accept (the RemoteInterface)

        # first, figure out which method they want to invoke
        (interfaceName,
         methodName,
         methodSchema) = self._getMethodInfo(_name)
        methodName = six.ensure_str(methodName)

        req = call.PendingRequest(reqID, self, interfaceName, methodName)
        # TODO: consider adding a stringified stack trace to that
        # PendingRequest creation, so that DeadReferenceError can emit even
        # more information about the call which failed

        # for debugging: these are put into the messages emitted when
        # logRemoteFailures is turned on
        req.interfaceName = interfaceName
        req.methodName = methodName

        if methodConstraintOverride != "none":
            methodSchema = methodConstraintOverride

        if useSchema and methodSchema:
            # check args against the arg constraint. This could fail if
            # any arguments are of the wrong type
            try:
                methodSchema.checkAllArgs(args, kwargs, False)
            except Violation as v:
                v.setLocation("%s.%s(%s)" % (interfaceName, methodName,
                                             v.getLocation()))
                raise

            # the Interface gets to constraint the return value too, so
            # make a note of it to use later
            req.setConstraint(methodSchema.getResponseConstraint())

        # if the caller specified a _resultConstraint, that overrides
        # the schema's one
        if resultConstraint != "none":
            # overrides schema
            req.setConstraint(IConstraint(resultConstraint))

        clid = self.tracker.clid
        slicer = call.CallSlicer(reqID, clid, methodName, args, kwargs)

        # up to this point, we are not committed to sending anything to the
        # far end. The various phases of commitment are:

        #  1: once we tell our broker about the PendingRequest, we must
        #  promise to retire it eventually. Specifically, if we encounter an
        #  error before we give responsibility to the connection, we must
        #  retire it ourselves.

        #  2: once we start sending the CallSlicer to the other end (in
        #  particular, once they receive the reqID), they might send us a
        #  response, so we must be prepared to handle that. Giving the
        #  PendingRequest to the broker arranges for this to happen.

        # So all failures which occur before these commitment events are
        # entirely local: stale broker, bad method name, bad arguments. If
        # anything raises an exception before this point, the PendingRequest
        # is abandoned, and our maybeDeferred wrapper returns a failing
        # Deferred.

        # commitment point 1. We assume that if this call raises an
        # exception, the broker will be sure to not track the dead
        # PendingRequest
        if not callOnly:
            broker.addRequest(req)
            # if callOnly, the PendingRequest will never know about the
            # broker, and will therefore never ask to be removed from it

        # TODO: there is a decidability problem here: if the reqID made
        # it through, the other end will send us an answer (possibly an
        # error if the remaining slices were aborted). If not, we will
        # not get an answer. To decide whether we should remove our
        # broker.waitingForAnswers[] entry, we need to know how far the
        # slicing process made it.

        try:
            # commitment point 2
            d = broker.send(slicer)
            # d will fire when the last argument has been serialized. It will
            # errback if the arguments (or any of their children) could not
            # be serialized. We need to catch this case and errback the
            # caller.

            # if we got here, we have been able to start serializing the
            # arguments. If serialization fails, the PendingRequest needs to
            # be flunked (because we aren't guaranteed that the far end will
            # do it).

            d.addErrback(req.fail)

        except:
            req.fail(failure.Failure())

        # the remote end could send back an error response for many reasons:
        #  bad method name
        #  bad argument types (violated their schema)
        #  exception during method execution
        #  method result violated the results schema
        # something else could occur to cause an errback:
        #  connection lost before response completely received
        #  exception during deserialization of the response
        #   [but only if it occurs after the reqID is received]
        #  method result violated our results schema
        # if none of those occurred, the callback will be run

        return req.deferred

    def _getMethodInfo(self, name):
        assert type(name) is str
        interfaceName = None
        methodName = name
        methodSchema = None

        iface = self.tracker.interface
        if iface:
            interfaceName = iface.__remote_name__
            try:
                methodSchema = iface[name]
            except KeyError:
                raise Violation("%s(%s) does not offer %s" % \
                                (interfaceName, self, name))
        return interfaceName, methodName, methodSchema


class RemoteMethodReferenceTracker(RemoteReferenceTracker):
    def getRef(self):
        # as in RemoteReferenceTracker.getRef, self.ref may be a dead weakref
        # (released, but _handleRefLost has not fired yet)
        if self.ref is None or self.ref() is None:
            ref = RemoteMethodReference(self)
            self.ref = weakref.ref(ref, self._refLost)
        self.received_count += 1
        return self.ref()

class RemoteMethodReference(RemoteReference):
    def callRemote(self, *args, **kwargs):
        # TODO: I suspect it would safer to use something other than
        # 'callRemote' here.
        # TODO: this probably needs a very different implementation

        # there is no schema support yet, so we can't convert positional args
        # into keyword args
        assert args == ()
        return RemoteReference.callRemote(self, "", *args, **kwargs)

    def _getMethodInfo(self, name):
        interfaceName = None
        methodName = ""
        methodSchema = None
        return interfaceName, methodName, methodSchema

@implementer(ipb.IRemoteReference)
class LocalReferenceable(object):
    def __init__(self, original):
        self.original = original

    def notifyOnDisconnect(self, callback, *args, **kwargs):
        # local objects never disconnect
        return None
    def dontNotifyOnDisconnect(self, marker):
        pass

    def callRemote(self, methname, *args, **kwargs):
        def _try(ignored):
            meth = getattr(self.original, "remote_" + methname)
            return meth(*args, **kwargs)
        d = fireEventually()
        d.addCallback(_try)
        return d

    def callRemoteOnly(self, methname, *args, **kwargs):
        d = self.callRemote(methname, *args, **kwargs)
        d.addErrback(lambda f: None)
        return None

registerAdapter(LocalReferenceable, ipb.IReferenceable, ipb.IRemoteReference)



class YourReferenceSlicer(slicer.BaseSlicer):
    """I handle pb.RemoteReference objects (being sent back home to the
    original pb.Referenceable-holder)
    """

    def slice(self, streamable, protocol):
        broker = self.requireBroker(protocol)
        self.streamable = streamable
        tracker = self.obj.tracker
        if tracker.broker == broker:
            # sending back to home broker
            yield b'your-reference'
            yield tracker.clid
        else:
            # sending somewhere else
            furl = tracker.getURL()
            if furl is None:
                log.msg("gift has no FURL, host Tub is unreachable, sending ''")
                furl = ""
            assert isinstance(furl, str)
            giftID = broker.makeGift(self.obj)
            yield b'their-reference'
            yield giftID
            yield six.ensure_binary(furl)

    def describe(self):
        return "<your-ref-%s>" % self.obj.tracker.clid

registerAdapter(YourReferenceSlicer, RemoteReference, ipb.ISlicer)

class YourReferenceUnslicer(slicer.LeafUnslicer):
    """I accept incoming (integer) your-reference sequences and try to turn
    them back into the original Referenceable. I also accept (string)
    your-reference sequences and try to turn them into a published
    Referenceable that they did not have access to before."""
    clid = None

    def checkToken(self, typebyte, size):
        if typebyte != tokens.INT:
            raise BananaError("your-reference ID must be an INT")

    def receiveChild(self, obj, ready_deferred=None):
        assert not isinstance(obj, defer.Deferred)
        assert ready_deferred is None
        self.clid = obj

    def receiveClose(self):
        if self.clid is None:
            raise BananaError("sequence ended too early")
        try:
            obj = self.broker.getMyReferenceByCLID(self.clid)
        except KeyError:
            obj = None
        if not obj:
            raise Violation("unknown clid '%s'" % self.clid)
        return obj, None

    def describe(self):
        return "<your-ref-%s>" % self.obj.refID


class TheirReferenceUnslicer(slicer.LeafUnslicer):
    """I accept gifts of third-party references. This is turned into a live
    reference upon receipt."""
    # (their-reference, giftID, URL)
    state = 0
    giftID = None
    url = None
    urlConstraint = ByteStringConstraint()

    def checkToken(self, typebyte, size):
        if self.state == 0:
            if typebyte != tokens.INT:
                raise BananaError("their-reference giftID must be an INT")
        elif self.state == 1:
            self.urlConstraint.checkToken(typebyte, size)
        else:
            raise Violation("too many parameters in their-reference")

    def receiveChild(self, obj, ready_deferred=None):
        assert not isinstance(obj, defer.Deferred)
        assert ready_deferred is None
        if self.state == 0:
            self.giftID = obj
            self.state = 1
        elif self.state == 1:
            # URL
            self.url = six.ensure_str(obj)
            self.state = 2
        else:
            raise BananaError("Too many their-reference parameters")

    def receiveClose(self):
        if self.giftID is None or self.url is None:
            raise BananaError("sequence ended too early")
        if self.broker.tub.accept_gifts:
            d = self.broker.tub.getReference(self.url)
            d.addBoth(self.ackGift)
        else:
            d = defer.fail(Violation("gifts are prohibited in this Tub"))

        # we return a Deferred that will fire with the RemoteReference when
        # it becomes available. The RemoteReference is not even referenceable
        # until then. In addition, we provide a ready_deferred, since any
        # mutable container which holds the gift will be referenceable early
        # but the message delivery must still wait for the getReference to
        # complete. See to it that we fire the object deferred before we fire
        # the ready_deferred.

        obj_deferred = defer.Deferred()
        ready_deferred = defer.Deferred()

        def _ready(rref):
            obj_deferred.callback(rref)
            ready_deferred.callback(rref)
        def _failed(f):
            # if an error in getReference() occurs, log it locally (with
            # priority UNUSUAL), because this end might need to diagnose some
            # connection or networking problems.
            log.msg("gift (%s) failed to resolve: %s" % (self.url, f))
            # deliver a placeholder object to the container, but signal the
            # ready_deferred that we've failed. This will bubble up to the
            # enclosing InboundDelivery, and when it gets to the top of the
            # queue, it will be flunked.
            obj_deferred.callback("Place holder for a Gift which failed to "
                                  "resolve: %s" % f)
            ready_deferred.errback(f)
        d.addCallbacks(_ready, _failed)

        return obj_deferred, ready_deferred

    def ackGift(self, rref):
        # giftID==0 means they aren't doing reference counting
        if self.giftID != 0:
            rb = self.broker.remote_broker
            # if we lose the connection, they'll decref the gift anyway
            rb.callRemoteOnly("decgift", giftID=self.giftID, count=1)
        return rref

    def describe(self):
        if self.giftID is None:
            return "<gift-?>"
        return "<gift-%s>" % self.giftID


@total_ordering
class SturdyRef(Copyable, RemoteCopy):
    """I am a pointer to a Referenceable that lives in some (probably remote)
    Tub. This pointer is long-lived, however you cannot send messages with it
    directly. To use it, you must ask your Tub to turn it into a
    RemoteReference with tub.getReference(sturdyref).

    The SturdyRef is associated with a URL: you can create a SturdyRef out of
    a URL that you obtain from some other source, and you can ask the
    SturdyRef for its URL.

    SturdyRefs are serialized by copying their URL, and create an identical
    SturdyRef on the receiving side."""

    typeToCopy = copytype = "foolscap.SturdyRef"

    tubID = None
    name = None

    def __init__(self, url=None):
        self.locationHints = [] # list of strings
        self.url = url
        if url:
            self.url = six.ensure_str(self.url)
            self.tubID, self.locationHints, self.name = decode_furl(url)

    def setCopyableState(self, state):
        # a received SturdyRef is made of the four attributes every release
        # sends; anything else in the peer-supplied state (it could shadow a
        # method) is ignored
        for k in ("url", "tubID", "locationHints", "name"):
            if k in state:
                setattr(self, k, state[k])

    def getTubRef(self):
        return TubRef(self.tubID, self.locationHints)


    def getURL(self):
        return self.url

    def __str__(self):
        return str(self.url)

    def _distinguishers(self):
        """Two SturdyRefs are equivalent if they point to the same object.
        SturdyRefs pay attention only to the TubID and the reference name.
        This method makes it easier to compare a pair of SturdyRefs."""
        return (True, self.tubID, self.name)

    def __hash__(self):
        return hash(self._distinguishers())

    def __lt__(self, them):
        return self._distinguishers() < them._distinguishers()
    def __eq__(self, them):
        return (type(self) is type(them) and
                self.__class__ == them.__class__ and
                self._distinguishers() == them._distinguishers())
    def __ne__(self, them):
        return not self == them

@total_ordering
class TubRef(object):
    """This is a little helper class which provides a comparable identifier
    for Tubs. TubRefs can be used as keys in dictionaries that track
    connections to remote Tubs."""

    def __init__(self, tubID, locationHints=None):
        if locationHints is None:
            locationHints = []
        assert isinstance(locationHints, list), locationHints
        assert all([isinstance(hint, str) for hint in locationHints]), \
               locationHints
        self.tubID = tubID and six.ensure_str(tubID)
        self.locationHints = locationHints

    def getLocations(self):
        return self.locationHints

    def getTubID(self):
        return self.tubID
    def getShortTubID(self):
        return self.tubID[:4]

    def __str__(self):
        return "pb://" + self.tubID

    def _distinguishers(self):
        """This serves the same purpose as SturdyRef._distinguishers."""
        return (self.tubID,)

    def __hash__(self):
        return hash(self._distinguishers())

    def __lt__(self, them):
        return self._distinguishers() < them._distinguishers()
    def __eq__(self, them):
        return (type(self) is type(them) and
                self.__class__ == them.__class__ and
                self._distinguishers() == them._distinguishers())
    def __ne__(self, them):
        return not self == them
