# -*- test-case-name: foolscap.test.test_copyable -*-

# this module is responsible for all copy-by-value objects
import six
from zope.interface import interface, implementer
from twisted.python import reflect, log
from twisted.python.components import registerAdapter
from twisted.internet import defer

from . import slicer, tokens
from .tokens import BananaError, Violation
from foolscap.constraint import OpenerConstraint, IConstraint, Optional

Interface = interface.Interface

############################################################
# the first half of this file is sending/serialization

class ICopyable(Interface):
    """I represent an object which is passed-by-value across PB connections.
    """

    def getTypeToCopy():
        """Return a string which names the class. This string must match the
        one that gets registered at the receiving end. This is typically a
        URL of some sort, in a namespace which you control."""
    def getStateToCopy():
        """Return a state dictionary (with plain-string keys) which will be
        serialized and sent to the remote end. This state object will be
        given to the receiving object's setCopyableState method."""

@implementer(ICopyable)
class Copyable(object):
    # you *must* set 'typeToCopy'

    def getTypeToCopy(self):
        try:
            copytype = self.typeToCopy
        except AttributeError:
            raise RuntimeError("Copyable subclasses must specify 'typeToCopy'")
        return copytype
    def getStateToCopy(self):
        return self.__dict__

class CopyableSlicer(slicer.BaseSlicer):
    """I handle ICopyable objects (things which are copied by value)."""
    def slice(self, streamable, banana):
        self.streamable = streamable
        yield b'copyable'
        copytype = self.obj.getTypeToCopy()
        assert isinstance(copytype, str)
        yield six.ensure_binary(copytype)
        state = self.obj.getStateToCopy()
        for k,v in state.items():
            yield six.ensure_binary(k)
            yield v
    def describe(self):
        return "<%s>" % self.obj.getTypeToCopy()
registerAdapter(CopyableSlicer, ICopyable, tokens.ISlicer)


class Copyable2(slicer.BaseSlicer):
    # I am my own Slicer. This has more methods than you'd usually want in a
    # base class, but if you can't register an Adapter for a whole class
    # hierarchy then you may have to use it.
    def getTypeToCopy(self):
        return reflect.qual(self.__class__)
    def getStateToCopy(self):
        return self.__dict__
    def slice(self, streamable, banana):
        self.streamable = streamable
        yield b'instance'
        yield six.ensure_binary(self.getTypeToCopy())
        yield self.getStateToCopy()
    def describe(self):
        return "<%s>" % self.getTypeToCopy()

#registerRemoteCopy(typename, factory)
#registerUnslicer(typename, factory)

def registerCopier(klass, copier):
    """This is a shortcut for arranging to serialize third-party clases.
    'copier' must be a callable which accepts an instance of the class you
    want to serialize, and returns a tuple of (typename, state_dictionary).
    If it returns a typename of None, the original class's fully-qualified
    classname is used.
    """
    klassname = reflect.qual(klass)
    @implementer(ICopyable)
    class _CopierAdapter:
        def __init__(self, original):
            self.nameToCopy, self.state = copier(original)
            if self.nameToCopy is None:
                self.nameToCopy = klassname
        def getTypeToCopy(self):
            return self.nameToCopy
        def getStateToCopy(self):
            return self.state
    registerAdapter(_CopierAdapter, klass, ICopyable)

############################################################
# beyond here is the receiving/deserialization side

class RemoteCopyUnslicer(slicer.BaseUnslicer):
    attrname = None
    attrConstraint = None

    def __init__(self, factory, stateSchema):
        self.factory = factory
        self.schema = stateSchema

    def start(self, count):
        self.d = {}
        self.count = count
        self.deferred = defer.Deferred()
        self.protocol.setObject(count, self.deferred)

    def checkToken(self, typebyte, size):
        if self.attrname == None:
            if typebyte not in (tokens.STRING, tokens.VOCAB):
                raise BananaError("RemoteCopyUnslicer keys must be STRINGs")
        else:
            if self.attrConstraint:
                self.attrConstraint.checkToken(typebyte, size)

    def doOpen(self, opentype):
        if self.attrConstraint:
            self.attrConstraint.checkOpentype(opentype)
        unslicer = self.open(opentype)
        if unslicer:
            if self.attrConstraint:
                unslicer.setConstraint(self.attrConstraint)
        return unslicer

    def receiveChild(self, obj, ready_deferred=None):
        assert not isinstance(obj, defer.Deferred)
        assert ready_deferred is None
        if self.attrname == None:
            try:
                attrname = six.ensure_str(obj)
            except UnicodeDecodeError:
                raise Violation("attribute name is not UTF-8")
            if attrname in self.d:
                raise BananaError("duplicate attribute name '%s'" % attrname)
            s = self.schema
            if s:
                accept, self.attrConstraint = s.getAttrConstraint(attrname)
                assert accept
            self.attrname = attrname
        else:
            if isinstance(obj, defer.Deferred):
                # TODO: this is an artificial restriction, and it might
                # be possible to remove it, but I need to think through
                # it carefully first
                raise BananaError("unreferenceable object in attribute")
            self.setAttribute(self.attrname, obj)
            self.attrname = None
            self.attrConstraint = None

    def setAttribute(self, name, value):
        self.d[name] = value

    def receiveClose(self):
        try:
            obj = self.factory(self.d)
        except:
            log.msg("%s.receiveClose: problem in factory %s" %
                    (self.__class__.__name__, self.factory))
            log.err()
            raise
        self.protocol.setObject(self.count, obj)
        self.deferred.callback(obj)
        return obj, None

    def describe(self):
        if self.classname == None:
            return "<??>"
        me = "<%s>" % self.classname
        if self.attrname is None:
            return "%s.attrname??" % me
        else:
            return "%s.%s" % (me, self.attrname)


class NonCyclicRemoteCopyUnslicer(RemoteCopyUnslicer):
    # The Deferred used in RemoteCopyUnslicer (used in case the RemoteCopy
    # is participating in a reference cycle, say 'obj.foo = obj') makes it
    # unsuitable for holding Failures (which cannot be passed through
    # Deferred.callback). Use this class for Failures. It cannot handle
    # reference cycles (they will cause a KeyError when the reference is
    # followed).

    def start(self, count):
        self.d = {}
        self.count = count
        self.gettingAttrname = True

    def receiveClose(self):
        obj = self.factory(self.d)
        return obj, None


class IRemoteCopy(Interface):
    """This interface defines what a RemoteCopy class must do. RemoteCopy
    subclasses are used as factories to create objects that correspond to
    Copyables sent over the wire.

    Note that the constructor of an IRemoteCopy class will be called without
    any arguments.
    """

    def setCopyableState(statedict):
        """I accept an attribute dictionary name/value pairs and use it to
        set my internal state.

        Some of the values may be Deferreds, which are placeholders for the
        as-yet-unreferenceable object which will eventually go there. If you
        receive a Deferred, you are responsible for adding a callback to
        update the attribute when it fires. [note:
        RemoteCopyUnslicer.receiveChild currently has a restriction which
        prevents this from happening, but that may go away in the future]

        Some of the objects referenced by the attribute values may have
        Deferreds in them (e.g. containers which reference recursive tuples).
        Such containers are responsible for updating their own state when
        those Deferreds fire, but until that point their state is still
        subject to change. Therefore you must be careful about how much state
        inspection you perform within this method."""

    stateSchema = interface.Attribute("""I return an AttributeDictConstraint
    object which places restrictions on incoming attribute values. These
    restrictions are enforced as the tokens are received, before the state is
    passed to setCopyableState.""")


# This maps typename to an Unslicer factory
CopyableRegistry = {}
def registerRemoteCopyUnslicerFactory(typename, unslicerfactory,
                                      registry=None):
    """Tell PB that unslicerfactory can be used to handle Copyable objects
    that provide a getTypeToCopy name of 'typename'. 'unslicerfactory' must
    be a callable which takes no arguments and returns an object which
    provides IUnslicer.
    """
    assert callable(unslicerfactory)
    # in addition, it must produce a tokens.IUnslicer . This is safe to do
    # because Unslicers don't do anything significant when they are created.
    test_unslicer = unslicerfactory()
    assert tokens.IUnslicer.providedBy(test_unslicer)
    assert type(typename) is str

    if registry == None:
        registry = CopyableRegistry
    assert typename not in registry
    registry[typename] = unslicerfactory

# this keeps track of everything submitted to registerRemoteCopyFactory
debug_CopyableFactories = {}
def registerRemoteCopyFactory(typename, factory, stateSchema=None,
                              cyclic=True, registry=None):
    """Tell PB that 'factory' can be used to handle Copyable objects that
    provide a getTypeToCopy name of 'typename'. 'factory' must be a callable
    which accepts a state dictionary and returns a fully-formed instance.

    'cyclic' is a boolean, which should be set to False to avoid using a
    Deferred to provide the resulting RemoteCopy instance. This is needed to
    deserialize Failures (or instances which inherit from one, like
    CopiedFailure). In exchange for this, it cannot handle reference cycles.
    """
    assert callable(factory)
    debug_CopyableFactories[typename] = (factory, stateSchema, cyclic)
    if cyclic:
        def _RemoteCopyUnslicerFactory():
            return RemoteCopyUnslicer(factory, stateSchema)
        registerRemoteCopyUnslicerFactory(typename,
                                          _RemoteCopyUnslicerFactory,
                                          registry)
    else:
        def _RemoteCopyUnslicerFactoryNonCyclic():
            return NonCyclicRemoteCopyUnslicer(factory, stateSchema)
        registerRemoteCopyUnslicerFactory(typename,
                                          _RemoteCopyUnslicerFactoryNonCyclic,
                                          registry)

# this keeps track of everything submitted to registerRemoteCopy, which may
# be useful when you're wondering what's been auto-registered by the
# RemoteCopy metaclass magic
debug_RemoteCopyClasses = {}
def registerRemoteCopy(typename, remote_copy_class, registry=None):
    """Tell PB that remote_copy_class is the appropriate RemoteCopy class to
    use when deserializing a Copyable sequence that is tagged with
    'typename'. 'remote_copy_class' should be a RemoteCopy subclass or
    implement the same interface, which means its constructor takes no
    arguments and it has a setCopyableState(state) method to actually set the
    instance's state after initialization. It must also have a nonCyclic
    attribute.
    """
    assert IRemoteCopy.implementedBy(remote_copy_class)
    assert type(typename) is str

    debug_RemoteCopyClasses[typename] = remote_copy_class
    def _RemoteCopyFactory(state):
        obj = remote_copy_class()
        obj.setCopyableState(state)
        return obj

    registerRemoteCopyFactory(typename, _RemoteCopyFactory,
                              remote_copy_class.stateSchema,
                              not remote_copy_class.nonCyclic,
                              registry)

class RemoteCopyClass(type):
    # auto-register RemoteCopy classes
    def __init__(self, name, bases, dict):
        type.__init__(self, name, bases, dict)
        # don't try to register RemoteCopy itself
        if name == "RemoteCopy" and _RemoteCopyBase in bases:
            #print "not auto-registering %s %s" % (name, bases)
            return
        if "copytype" not in dict:
            # TODO: provide a file/line-number for the class
            raise RuntimeError("RemoteCopy subclass %s must specify 'copytype'"
                               % name)
        copytype = dict['copytype']
        if copytype:
            registry = dict.get('copyableRegistry', None)
            registerRemoteCopy(copytype, self, registry)

@implementer(IRemoteCopy)
class _RemoteCopyBase:
    stateSchema = None # always a class attribute
    nonCyclic = False

    def __init__(self):
        # the constructor will always be called without arguments
        pass

    def setCopyableState(self, state):
        self.__dict__ = state

class RemoteCopyOldStyle(_RemoteCopyBase):
    # note that these will not auto-register for you, because old-style
    # classes do not do metaclass magic
    copytype = None

class RemoteCopy(_RemoteCopyBase, metaclass=RemoteCopyClass):
    # Set 'copytype' to a unique string that is shared between the
    # sender-side Copyable and the receiver-side RemoteCopy. This RemoteCopy
    # subclass will be auto-registered using the 'copytype' name. Set
    # copytype to None to disable auto-registration.
    pass


class AttributeDictConstraint(OpenerConstraint):
    """This is a constraint for dictionaries that are used for attributes.
    All keys are short strings, and each value has a separate constraint.
    It could be used to describe instance state, but could also be used
    to constraint arbitrary dictionaries with string keys.

    Some special constraints are legal here: Optional.
    """
    opentypes = [("attrdict",)]
    name = "AttributeDictConstraint"

    def __init__(self, *attrTuples, **kwargs):
        self.ignoreUnknown = kwargs.get('ignoreUnknown', False)
        self.acceptUnknown = kwargs.get('acceptUnknown', False)
        self.keys = {}
        for name, constraint in (list(attrTuples) +
                                 list(kwargs.get('attributes', {}).items())):
            assert name not in list(self.keys.keys())
            self.keys[name] = IConstraint(constraint)

    def getAttrConstraint(self, attrname):
        c = self.keys.get(attrname)
        if c:
            if isinstance(c, Optional):
                c = c.constraint
            return (True, c)
        # unknown attribute
        if self.ignoreUnknown:
            return (False, None)
        if self.acceptUnknown:
            return (True, None)
        raise Violation("unknown attribute '%s'" % attrname)

    def checkObject(self, obj, inbound):
        if type(obj) != type({}):
            raise Violation("'%s' (%s) is not a Dictionary" % (obj,
                                                               type(obj)))
        allkeys = list(self.keys.keys())
        for k in list(obj.keys()):
            try:
                constraint = self.keys[k]
                allkeys.remove(k)
            except KeyError:
                if not self.ignoreUnknown:
                    raise Violation("key '%s' not in schema" % k)
                else:
                    # hmm. kind of a soft violation. allow it for now.
                    pass
            else:
                constraint.checkObject(obj[k], inbound)

        for k in allkeys[:]:
            if isinstance(self.keys[k], Optional):
                allkeys.remove(k)
        if allkeys:
            raise Violation("object is missing required keys: %s" % \
                            ",".join(allkeys))

