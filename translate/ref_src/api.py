
# application code should import all names from here instead of from
# __init__.py . Use code like this:
#
#  from foolscap.api import Tub
#
# This will make it easier to rearrange Foolscap's internals in the future.
# Anything you might import from outside foolscap.api is subject to movement
# in new releases.

from foolscap._version import get_versions
__version__ = str(get_versions()['version'])
del get_versions

# here is the primary entry point
from foolscap.pb import Tub

# names we import so that others can reach them as foolscap.api.foo
from foolscap.remoteinterface import RemoteInterface
from foolscap.referenceable import Referenceable, SturdyRef
from foolscap.copyable import Copyable, RemoteCopy, registerRemoteCopy
from foolscap.copyable import registerCopier, registerRemoteCopyFactory
from foolscap.ipb import DeadReferenceError, IConnectionHintHandler
from foolscap.tokens import BananaError
from foolscap.schema import StringConstraint, IntegerConstraint, \
    ListOf, TupleOf, SetOf, DictOf, ChoiceOf, Any
from foolscap.storage import serialize, unserialize
from foolscap.tokens import Violation, RemoteException
from foolscap.eventual import eventually, fireEventually, flushEventualQueue
from foolscap.logging import app_versions

# hush pyflakes
_unused = [
    __version__,
    Tub,
    RemoteInterface,
    Referenceable, SturdyRef,
    Copyable, RemoteCopy, registerRemoteCopy,
    registerCopier, registerRemoteCopyFactory,
    DeadReferenceError, IConnectionHintHandler,
    BananaError,
    StringConstraint, IntegerConstraint,
    ListOf, TupleOf, SetOf, DictOf, ChoiceOf, Any,
    serialize, unserialize,
    Violation, RemoteException,
    eventually, fireEventually, flushEventualQueue,
    app_versions,
    ]
del _unused

