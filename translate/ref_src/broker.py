

# This module is responsible for the per-connection Broker object

import six
import types, time
from itertools import count

from zope.interface import implementer
from twisted.python import failure
from twisted.internet import defer, error
from twisted.internet import interfaces as twinterfaces
from twisted.internet.protocol import connectionDone

from foolscap import banana, tokens, ipb, vocab
from foolscap import call, slicer, referenceable, copyable, remoteinterface
from foolscap.constraint import Any
from foolscap.tokens import Violation, BananaError
from foolscap.ipb import DeadReferenceError, IBroker
from foolscap.slicers.root import RootSlicer, RootUnslicer, ScopedRootSlicer
from foolscap.eventual import eventually
from foolscap.logging import log
from functools import reduce

LOST_CONNECTION_ERRORS = [error.ConnectionLost, error.ConnectionDone]
try:
    from OpenSSL import SSL
    LOST_CONNECTION_ERRORS.append(SSL.Error)
except ImportError:
    pass

PBTopRegistry = {
    ("call",): call.CallUnslicer,
    ("answer",): call.AnswerUnslicer,
    ("error",): call.ErrorUnslicer,
    }

PBOpenRegistry = {
    ('arguments',): call.ArgumentUnslicer,
    ('my-reference',): referenceable.ReferenceUnslicer,
    ('your-reference',): referenceable.YourReferenceUnslicer,
    ('their-reference',): referenceable.TheirReferenceUnslicer,
    # ('copyable', classname) is handled inline, through the CopyableRegistry
    }

class PBRootUnslicer(RootUnslicer):
    # topRegistries defines what objects are allowed at the top-level
    topRegistries = [PBTopRegistry]
    # openRegistries defines what objects are allowed at the second level and
    # below
    openRegistries = [slicer.UnslicerRegistry, PBOpenRegistry]
    logViolations = False

    def checkToken(self, typebyte, size):
        if typebyte != tokens.OPEN:
            raise BananaError("top-level must be OPEN")

    def openerCheckToken(self, typebyte, size, opentype):
        if typebyte == tokens.STRING:
            if len(opentype) == 0:
                if size > self.maxIndexLength:
                    why = "first opentype STRING token is too long, %d>%d" % \
                          (size, self.maxIndexLength)
                    raise Violation(why)
            if tuple(opentype) == ("copyable",):
                # TODO: this is silly, of course (should pre-compute maxlen)
                maxlen = reduce(max,
                                [len(cname) \
                                 for cname in list(copyable.CopyableRegistry.keys())]
                                )
                if size > maxlen:
                    why = "copyable-classname token is too long, %d>%d" % \
                          (size, maxlen)
                    raise Violation(why)
        elif typebyte == tokens.VOCAB:
            return
        else:
            # TODO: hack for testing
            raise Violation("index token 0x%02x not STRING or VOCAB" % \
                              six.byte2int(typebyte))
            raise BananaError("index token 0x%02x not STRING or VOCAB" % \
                              six.byte2int(typebyte))

    def open(self, opentype):
        # used for lower-level objects, delegated up from childunslicer.open
        child = RootUnslicer.open(self, opentype)
        if child:
            child.broker = self.broker
        return child

    def doOpen(self, opentype):
        child = RootUnslicer.doOpen(self, opentype)
        if child:
            child.broker = self.broker
        return child

    def reportViolation(self, f):
        if self.logViolations:
            print("hey, something failed:", f)
        return None # absorb the failure

    def receiveChild(self, token, ready_deferred):
        if isinstance(token, call.InboundDelivery):
            self.broker.scheduleCall(token, ready_deferred)



class PBRootSlicer(RootSlicer):
    slicerTable = {types.MethodType: referenceable.CallableSlicer,
                   types.FunctionType: referenceable.CallableSlicer,
                   }
    def registerRefID(self, refid, obj):
        # references are never Broker-scoped: they're always scoped more
        # narrowly, by the CallSlicer or the AnswerSlicer.
        assert 0


class RIBroker(remoteinterface.RemoteInterface):
    def getReferenceByName(name=bytes):
        """If I have published an object by that name, return a reference to
        it."""
        # return Remote(interface=any)
        return Any()
    def decref(clid=int, count=int):
        """Release some references to my-reference 'clid'. I will return an
        ack when the operation has completed."""
        return None
    def decgift(giftID=int, count=int):
        """Release some reference to a their-reference 'giftID' that was
        sent earlier."""
        return None


@implementer(RIBroker, IBroker)
class Broker(banana.Banana, referenceable.Referenceable):
    """I manage a connection to a remote Broker.

    @ivar tub: the L{Tub} which contains us
    @ivar yourReferenceByCLID: maps your CLID to a RemoteReferenceData
    #@ivar yourReferenceByName: maps a per-Tub name to a RemoteReferenceData
    @ivar yourReferenceByURL: maps a global URL to a RemoteReferenceData

    """

    slicerClass = PBRootSlicer
    unslicerClass = PBRootUnslicer
    unsafeTracebacks = True
    requireSchema = False
    disconnected = False
    factory = None
    tub = None
    remote_broker = None
    startingTLS = False
    startedTLS = False
    use_remote_broker = True

    def __init__(self, remote_tubref, params={},
                 keepaliveTimeout=None, disconnectTimeout=None,
                 connectionInfo=None):
        banana.Banana.__init__(self, params)
        self._expose_remote_exception_types = True
        self.remote_tubref = remote_tubref
        self.keepaliveTimeout = keepaliveTimeout
        self.disconnectTimeout = disconnectTimeout
        self._banana_decision_version = params.get("banana-decision-version") # native str
        vocab_table_index = params.get('initial-vocab-table-index') # native str
        if vocab_table_index:
            table = vocab.INITIAL_VOCAB_TABLES[vocab_table_index]
            self.populateVocabTable(table)
        self.initBroker()
        self.current_slave_IR = params.get('current-slave-IR')
        self.current_seqnum = params.get('current-seqnum')
        self.creation_timestamp = time.time()
        self._connectionInfo = connectionInfo

    def initBroker(self):

        # tracking Referenceables
        # sending side uses these
        self.nextCLID = count(1) # 0 is for the broker
        self.myReferenceByPUID = {} # maps ref.processUniqueID to a tracker
        self.myReferenceByCLID = {} # maps CLID to a tracker
        # receiving side uses these
        self.yourReferenceByCLID = {}
        self.yourReferenceByURL = {}

        # tracking Gifts
        self.nextGiftID = count(1)
        self.myGifts = {} # maps (broker,clid) to (rref, giftID, count)
        self.myGiftsByGiftID = {} # maps giftID to (broker,clid)

        # remote calls
        # sending side uses these
        self.nextReqID = count(1) # 0 means "we don't want a response"
        self.waitingForAnswers = {} # we wait for the other side to answer
        self.disconnectWatchers = []

        # Callables waiting to hear about connectionLost.
        self._connectionLostWatchers = []

        # receiving side uses these
        self.inboundDeliveryQueue = []
        self._waiting_for_call_to_be_ready = False
        self.activeLocalCalls = {} # the other side wants an answer from us

    def setTub(self, tub):
        assert ipb.ITub.providedBy(tub)
        self.tub = tub
        self.unsafeTracebacks = tub.unsafeTracebacks
        self._expose_remote_exception_types = tub._expose_remote_exception_types
        if tub.debugBanana:
            self.debugSend = True
            self.debugReceive = True

    def connectionMade(self):
        banana.Banana.connectionMade(self)
        self.rootSlicer.broker = self
        self.rootUnslicer.broker = self
        if self.use_remote_broker:
            self._create_remote_broker()

    def _create_remote_broker(self):
        # create the remote_broker object. We don't use the usual
        # reference-counting mechanism here, because this is a synthetic
        # object that lives forever.
        tracker = referenceable.RemoteReferenceTracker(self, 0, None,
                                                       "RIBroker")
        self.remote_broker = referenceable.RemoteReference(tracker)

    # connectionTimedOut is called in response to the Banana layer detecting
    # the lack of connection activity

    def connectionTimedOut(self):
        err = error.ConnectionLost("banana timeout: connection dropped")
        why = failure.Failure(err)
        self.shutdown(why)

    def shutdown(self, why, fireDisconnectWatchers=True):
        """Stop using this connection. If fireDisconnectWatchers is False,
        all disconnect watchers are removed before shutdown, so they will not
        be called (this is appropriate when the Broker is shutting down
        because the whole Tub is being shut down). We terminate the
        connection quickly, rather than waiting for the transmit queue to
        drain.
        """
        assert isinstance(why, failure.Failure)
        if not fireDisconnectWatchers:
            self.disconnectWatchers = []
        self.finish(why)
        # loseConnection eventually provokes connectionLost()
        self.transport.loseConnection()

    def connectionLost(self, why):
        tubid = "?"
        if self.remote_tubref:
            tubid = self.remote_tubref.getShortTubID()
        log.msg("connection to %s lost" % tubid, facility="foolscap.connection")
        banana.Banana.connectionLost(self, why)
        self.finish(why)
        self._notifyConnectionLostWatchers()

    def _notifyConnectionLostWatchers(self):
        """
        Call all functions waiting to learn about the loss of the connection of
        this broker.
        """
        watchers = self._connectionLostWatchers
        self._connectionLostWatchers = None

        for w in watchers:
            eventually(w)

    def finish(self, why):
        if self.disconnected:
            return
        assert isinstance(why, failure.Failure), why
        self.disconnected = True
        self.remote_broker = None
        self.abandonAllRequests(why)
        # TODO: why reset all the tables to something useable? There may be
        # outstanding RemoteReferences that point to us, but I don't see why
        # that requires all these empty dictionaries.
        self.myReferenceByPUID = {}
        self.myReferenceByCLID = {}
        self.yourReferenceByCLID = {}
        self.yourReferenceByURL = {}
        self.myGifts = {}
        self.myGiftsByGiftID = {}
        # inbound calls that were parsed but not yet run will never run
        # (doNextCall does nothing once we are disconnected): do not keep
        # their target objects and arguments alive
        for (delivery, ready_deferred) in self.inboundDeliveryQueue:
            self.activeLocalCalls.pop(delivery.reqID, None)
        self.inboundDeliveryQueue = []
        for (cb,args,kwargs) in self.disconnectWatchers:
            eventually(cb, *args, **kwargs)
        self.disconnectWatchers = []
        if self.tub:
            # TODO: remove the conditional. It is only here to accomodate
            # some tests: test_pb.TestCall.testDisconnect[123]
            self.tub.brokerDetached(self, why)

    def _notifyOnConnectionLost(self, callback):
        """
        Arrange to have C{callback} called when this broker loses its connection.
        """
        self._connectionLostWatchers.append(callback)

    def notifyOnDisconnect(self, callback, *args, **kwargs):
        marker = (callback, args, kwargs)
        if self.disconnected:
            eventually(callback, *args, **kwargs)
        else:
            self.disconnectWatchers.append(marker)
        return marker
    def dontNotifyOnDisconnect(self, marker):
        if self.disconnected:
            return
        # be tolerant of attempts to unregister a callback that has already
        # fired. I think it is hard to write safe code without this
        # tolerance.

        # TODO: on the other hand, I'm not sure this is the best policy,
        # since you lose the feedback that tells you about
        # unregistering-the-wrong-thing bugs. We need to look at the way that
        # register/unregister gets used and see if there is a way to retain
        # the typechecking that results from insisting that you can only
        # remove something that was stil in the list.
        if marker in self.disconnectWatchers:
            self.disconnectWatchers.remove(marker)

    def getConnectionInfo(self):
        return self._connectionInfo

    # methods to send my Referenceables to the other side

    def getTrackerForMyReference(self, puid, obj):
        tracker = self.myReferenceByPUID.get(puid)
        if not tracker:
            # need to add one
            clid = next(self.nextCLID)
            tracker = referenceable.ReferenceableTracker(self.tub,
                                                         obj, puid, clid)
            self.myReferenceByPUID[puid] = tracker
            self.myReferenceByCLID[clid] = tracker
        return tracker

    def getTrackerForMyCall(self, puid, obj):
        # just like getTrackerForMyReference, but with a negative clid
        tracker = self.myReferenceByPUID.get(puid)
        if not tracker:
            # need to add one
            clid = next(self.nextCLID)
            clid = -clid
            tracker = referenceable.ReferenceableTracker(self.tub,
                                                         obj, puid, clid)
            self.myReferenceByPUID[puid] = tracker
            self.myReferenceByCLID[clid] = tracker
        return tracker

    # methods to handle inbound 'my-reference' sequences

    def getTrackerForYourReference(self, clid, interfaceName=None, url=None):
        """The far end holds a Referenceable and has just sent us a reference
        to it (expressed as a small integer). If this is a new reference,
        they will give us an interface name too, and possibly a global URL
        for it. Obtain a RemoteReference object (creating it if necessary) to
        give to the local recipient.

        The sender remembers that we hold a reference to their object. When
        our RemoteReference goes away, we send a decref message to them, so
        they can possibly free their object. """

        assert type(interfaceName) is str or interfaceName is None
        if url is not None:
            assert type(url) is str
        tracker = self.yourReferenceByCLID.get(clid)
        if not tracker:
            # TODO: translate interfaceNames to RemoteInterfaces
            if clid >= 0:
                trackerclass = referenceable.RemoteReferenceTracker
            else:
                trackerclass = referenceable.RemoteMethodReferenceTracker
            tracker = trackerclass(self, clid, url, interfaceName)
            self.yourReferenceByCLID[clid] = tracker
            if url:
                self.yourReferenceByURL[url] = tracker
        return tracker

    def freeYourReference(self, tracker, count):
        # this is called when the RemoteReference is deleted
        if not self.remote_broker: # tests do not set this up
            self.freeYourReferenceTracker(None, tracker)
            return
        try:
            rb = self.remote_broker
            # TODO: do we want callRemoteOnly here? is there a way we can
            # avoid wanting to know when the decref has completed? Only if we
            # send the interface list and URL on every occurrence of the
            # my-reference sequence. Either A) we use callRemote("decref")
            # and wait until the ack to free the tracker, or B) we use
            # callRemoteOnly("decref") and free the tracker right away. In
            # case B, the far end has no way to know that we've just freed
            # the tracker and will therefore forget about everything they
            # told us (including the interface list), so they cannot
            # accurately do anything special on the "first" send of this
            # reference. Which means that if we do B, we must either send
            # that extra information on every my-reference sequence, or do
            # without it, or make it optional, or retrieve it separately, or
            # something.

            # rb.callRemoteOnly("decref", clid=tracker.clid, count=count)
            # self.freeYourReferenceTracker('bogus', tracker)
            # return

            d = rb.callRemote("decref", clid=tracker.clid, count=count)
            # if the connection was lost before we can get an ack, we're
            # tearing this down anyway
            def _ignore_loss(f):
                f.trap(DeadReferenceError, *LOST_CONNECTION_ERRORS)
                return None
            d.addErrback(_ignore_loss)
            # once the ack comes back, or if we know we'll never get one,
            # release the tracker
            d.addCallback(self.freeYourReferenceTracker, tracker)
        except:
            f = failure.Failure()
            log.msg("failure during freeRemoteReference", facility="foolscap",
                    level=log.UNUSUAL, failure=f)

    def freeYourReferenceTracker(self, res, tracker):
        if tracker.received_count != 0:
            return
        # release the table entries only if they still belong to THIS
        # tracker: the answer to an old decref may arrive after a newer
        # tracker has been registered under the same clid
        if self.yourReferenceByCLID.get(tracker.clid) is tracker:
            del self.yourReferenceByCLID[tracker.clid]
        if tracker.url and self.yourReferenceByURL.get(tracker.url) is tracker:
            del self.yourReferenceByURL[tracker.url]


    # methods to handle inbound 'your-reference' sequences

    def getMyReferenceByCLID(self, clid):
        """clid is the connection-local ID of the Referenceable the other
        end is trying to invoke or point to. If it is a number, they want an
        implicitly-created per-connection object that we sent to them at
        some point in the past. If it is a string, they want an object that
        was registered with our Factory.
        """

        assert isinstance(clid, int)
        if clid == 0:
            return self
        return self.myReferenceByCLID[clid].obj
        # obj = IReferenceable(obj)
        # assert isinstance(obj, pb.Referenceable)
        # obj needs .getMethodSchema, which needs .getArgConstraint

    def remote_decref(self, clid, count):
        # invoked when the other side sends us a decref message
        assert isinstance(clid, int)
        assert clid != 0
        tracker = self.myReferenceByCLID.get(clid, None)
        if not tracker:
            return # already gone, probably because we're shutting down
        done = tracker.decref(count)
        if done:
            del self.myReferenceByPUID[tracker.puid]
            del self.myReferenceByCLID[clid]

    # methods to send RemoteReference 'gifts' to third-parties

    def makeGift(self, rref):
        # return the giftid
        broker, clid = rref.tracker.broker, rref.tracker.clid
        i = (broker, clid)
        old = self.myGifts.get(i)
        if old:
            rref, giftID, count = old
            self.myGifts[i] = (rref, giftID, count+1)
        else:
            giftID = next(self.nextGiftID)
            self.myGiftsByGiftID[giftID] = i
            self.myGifts[i] = (rref, giftID, 1)
        return giftID

    def remote_decgift(self, giftID, count):
        broker, clid = self.myGiftsByGiftID[giftID]
        rref, giftID, gift_count = self.myGifts[(broker, clid)]
        gift_count -= count
        if gift_count == 0:
            del self.myGiftsByGiftID[giftID]
            del self.myGifts[(broker, clid)]
        else:
            self.myGifts[(broker, clid)] = (rref, giftID, gift_count)

    # methods to deal with URLs

    def getYourReferenceByName(self, name):
        # remain compatible with remotes running py2
        name = six.ensure_binary(name)
        d = self.remote_broker.callRemote("getReferenceByName", name=name)
        return d

    def remote_getReferenceByName(self, name):
        return self.tub.getReferenceForName(six.ensure_str(name))

    # remote-method-invocation methods, calling side, invoked by
    # RemoteReference.callRemote and CallSlicer

    def newRequestID(self):
        if self.disconnected:
            raise DeadReferenceError("Calling Stale Broker")
        return next(self.nextReqID)

    def addRequest(self, req):
        req.broker = self
        self.waitingForAnswers[req.reqID] = req

    def removeRequest(self, req):
        del self.waitingForAnswers[req.reqID]

    def getRequest(self, reqID):
        # invoked by AnswerUnslicer and ErrorUnslicer
        try:
            return self.waitingForAnswers[reqID]
        except KeyError:
            raise Violation("non-existent reqID '%d'" % reqID)

    def abandonAllRequests(self, why):
        for req in list(self.waitingForAnswers.values()):
            if why.check(*LOST_CONNECTION_ERRORS):
                # map all connection-lost errors to DeadReferenceError, so
                # application code only needs to check for one exception type
                tubid = None
                # since we're creating a new exception object for each call,
                # let's add more information to it
                if self.remote_tubref:
                    tubid = self.remote_tubref.getShortTubID()
                e = DeadReferenceError("Connection was lost", tubid, req)
                why = failure.Failure(e)
            eventually(req.fail, why)

    # target-side, invoked by CallUnslicer

    def getRemoteInterfaceByName(self, riname):
        # this lives in the broker because it ought to be per-connection
        return remoteinterface.RemoteInterfaceRegistry[riname]

    def getSchemaForMethod(self, rifaces, methodname):
        # this lives in the Broker so it can override the resolution order,
        # not that overlapping RemoteInterfaces should be allowed to happen
        # all that often
        for ri in rifaces:
            m = ri.get(methodname)
            if m:
                return m
        return None

    def scheduleCall(self, delivery, ready_deferred):
        self.inboundDeliveryQueue.append( (delivery,ready_deferred) )
        eventually(self.doNextCall)

    def doNextCall(self):
        if self.disconnected:
            return
        if self._waiting_for_call_to_be_ready:
            return
        if not self.inboundDeliveryQueue:
            return
        delivery, ready_deferred = self.inboundDeliveryQueue.pop(0)
        self._waiting_for_call_to_be_ready = True
        if not ready_deferred:
            ready_deferred = defer.succeed(None)
        d = ready_deferred

        def _ready(res):
            self._waiting_for_call_to_be_ready = False
            eventually(self.doNextCall)
            return res
        d.addBoth(_ready)

        # at this point, the Deferred chain for this one delivery runs
        # independently of any other, and methods which take a long time to
        # complete will not hold up other methods. We must call _doCall and
        # let the remote_ method get control before we process any other
        # message, but the eventually() above insures we'll have a chance to
        # do that before we give up control.

        d.addCallback(lambda res: self._doCall(delivery))
        d.addCallback(self._callFinished, delivery)
        d.addErrback(self.callFailed, delivery.reqID, delivery)
        d.addErrback(log.err)
        return None

    def _doCall(self, delivery):
        # our ordering rules require that the order in which each
        # remote_foo() method gets control is exactly the same as the order
        # in which the original caller invoked callRemote(). To insure this,
        # _startCall() is not allowed to insert additional delays before it
        # runs doRemoteCall() on the target object.
        obj = delivery.obj
        args = delivery.allargs.args
        kwargs = delivery.allargs.kwargs
        for i in args + list(kwargs.values()):
            assert not isinstance(i, defer.Deferred)

        if delivery.methodSchema:
            # we asked about each argument on the way in, but ask again so
            # they can look for missing arguments. TODO: see if we can remove
            # the redundant per-argument checks.
            delivery.methodSchema.checkAllArgs(args, kwargs, True)

        # interesting case: if the method completes successfully, but
        # our schema prohibits us from sending the result (perhaps the
        # method returned an int but the schema insists upon a string).
        # TODO: move the return-value schema check into
        # Referenceable.doRemoteCall, so the exception's traceback will be
        # attached to the object that caused it
        if delivery.methodname is None:
            assert callable(obj)
            return obj(*args, **kwargs)
        else:
            obj = ipb.IRemotelyCallable(obj)
            return obj.doRemoteCall(delivery.methodname, args, kwargs)


    def _callFinished(self, res, delivery):
        reqID = delivery.reqID
        if reqID == 0:
            return
        methodSchema = delivery.methodSchema
        assert self.activeLocalCalls[reqID]
        methodName = None
        if methodSchema:
            methodName = methodSchema.name
            try:
                methodSchema.checkResults(res, False) # may raise Violation
            except Violation as v:
                v.prependLocation("in return value of %s.%s" %
                                  (delivery.obj, methodSchema.name))
                raise

        answer = call.AnswerSlicer(reqID, res, methodName)
        # once the answer has started transmitting, any exceptions must be
        # logged and dropped, and not turned into an Error to be sent.
        try:
            self.send(answer)
            # TODO: .send should return a Deferred that fires when the last
            # byte has been queued, and we should delete the local note then
        except:
            f = failure.Failure()
            log.msg("Broker._callfinished unable to send",
                    facility="foolscap", level=log.UNUSUAL, failure=f)
        del self.activeLocalCalls[reqID]

    def callFailed(self, f, reqID, delivery=None):
        # this may be called either when an inbound schema is violated, or
        # when the method is run and raises an exception. If a Violation is
        # raised after we receive the reqID but before we've actually invoked
        # the method, we are called by CallUnslicer.reportViolation and don't
        # get a delivery= argument.
        if delivery:
            if (self.tub and self.tub.logLocalFailures) or not self.tub:
                # the 'not self.tub' case is for unit tests
                try:
                    delivery.logFailure(f)
                except Exception:
                    # the log entry formats the target and the arguments,
                    # whose __repr__ is application code: the caller must
                    # get its error whatever that does
                    log.err()
        if reqID != 0:
            assert self.activeLocalCalls[reqID]
            self.send(call.ErrorSlicer(reqID, f))
            del self.activeLocalCalls[reqID]

class StorageBrokerRootSlicer(ScopedRootSlicer):
    # each StorageBroker is a single serialization domain, so we inherit from
    # ScopedRootSlicer
    slicerTable = {types.MethodType: referenceable.CallableSlicer,
                   types.FunctionType: referenceable.CallableSlicer,
                   }

PBStorageOpenRegistry = {
    ('their-reference',): referenceable.TheirReferenceUnslicer,
    }

class StorageBrokerRootUnslicer(PBRootUnslicer):
    # we want all the behavior of PBRootUnslicer, plus the scopedness of a
    # ScopedRootUnslicer. TODO: find some way to refactor all of this,
    # probably by making the scopedness a mixin.

    openRegistries = [slicer.UnslicerRegistry, PBStorageOpenRegistry]
    topRegistries = openRegistries

    def __init__(self, protocol):
        PBRootUnslicer.__init__(self, protocol)
        self.references = {}

    def setObject(self, counter, obj):
        self.references[counter] = obj

    def getObject(self, counter):
        obj = self.references.get(counter)
        return obj

    def receiveChild(self, obj, ready_deferred):
        self.protocol.receiveChild(obj, ready_deferred)

    def reportViolation(self, why):
        # unlike PBRootUnslicer, we do *not* absorb the failure. Any error
        # during deserialization is fatal to the process. We give it to the
        # StorageBroker, which will eventually fire the unserialization
        # Deferred.
        self.protocol.reportViolation(why)

class StorageBroker(Broker):
    # like Broker, but used to serialize data for storage rather than for
    # transmission over a specific connection.
    slicerClass = StorageBrokerRootSlicer
    unslicerClass = StorageBrokerRootUnslicer
    object = None
    violation = None
    disconnectReason = None
    use_remote_broker = False

    def prepare(self):
        self.d = defer.Deferred()
        return self.d

    def receiveChild(self, obj, ready_deferred):
        if ready_deferred:
            ready_deferred.addBoth(self.d.callback)
            self.d.addCallback(lambda res: obj)
        else:
            self.d.callback(obj)
        del self.d

    def reportViolation(self, why):
        self.violation = why
        eventually(self.d.callback, None)
        return None

    def reportReceiveError(self, f):
        self.disconnectReason = f
        f.raiseException()

# this loopback stuff is based upon twisted.protocols.loopback, except that
# we use it for real, not just for testing. The IConsumer stuff hasn't been
# tested at all.

@implementer(twinterfaces.IAddress)
class LoopbackAddress(object):
    pass

@implementer(twinterfaces.ITransport, twinterfaces.IConsumer)
class LoopbackTransport(object):
    # we always create these in pairs, with .peer pointing at each other

    producer = None

    def __init__(self):
        self.connected = True
    def setPeer(self, peer):
        self.peer = peer

    def write(self, bytes):
        eventually(self.peer.dataReceived, bytes)
    def writeSequence(self, iovec):
        self.write(''.join(iovec))

    def dataReceived(self, data):
        if self.connected:
            self.protocol.dataReceived(data)

    def loseConnection(self, _connDone=connectionDone):
        if not self.connected:
            return
        self.connected = False
        eventually(self.peer.connectionLost, _connDone)
        eventually(self.protocol.connectionLost, _connDone)
    def connectionLost(self, reason):
        if not self.connected:
            return
        self.connected = False
        self.protocol.connectionLost(reason)

    def getPeer(self):
        return LoopbackAddress()
    def getHost(self):
        return LoopbackAddress()

    # IConsumer
    def registerProducer(self, producer, streaming):
        assert self.producer is None
        self.producer = producer
        self.streamingProducer = streaming
        self._pollProducer()

    def unregisterProducer(self):
        assert self.producer is not None
        self.producer = None

    def _pollProducer(self):
        if self.producer is not None and not self.streamingProducer:
            self.producer.resumeProducing()
