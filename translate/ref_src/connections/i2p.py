import re
from twisted.internet.endpoints import clientFromString
from twisted.internet.interfaces import IStreamClientEndpoint
from txi2p.sam import SAMI2PStreamClientEndpoint
from zope.interface import implementer

from foolscap.ipb import IConnectionHintHandler, InvalidHintError

HINT_RE=re.compile(r"^i2p:([A-Za-z.0-9\-]+)(:(\d{1,5}))?$")

@implementer(IConnectionHintHandler)
class _RunningI2P:
    def __init__(self, sam_endpoint, **kwargs):
        assert IStreamClientEndpoint.providedBy(sam_endpoint)
        self._sam_endpoint = sam_endpoint
        self._kwargs = kwargs

    def hint_to_endpoint(self, hint, reactor, update_status):
        # Return (endpoint, hostname), where "hostname" is what we pass to the
        # HTTP "Host:" header so a dumb HTTP server can be used to redirect us.
        mo = HINT_RE.search(hint)
        if not mo:
            raise InvalidHintError("unrecognized I2P hint")
        host, portnum = mo.group(1), int(mo.group(3)) if mo.group(3) else None
        kwargs = self._kwargs.copy()
        default_portnum = kwargs.pop('port', None)
        if not portnum:
            portnum = default_portnum
        ep = SAMI2PStreamClientEndpoint.new(self._sam_endpoint, host, portnum, **kwargs)
        return ep, host

    def describe(self):
        return "i2p"

def default(reactor, **kwargs):
    """Return a handler which connects to a pre-existing I2P process on the
    default SAM port.
    """
    return _RunningI2P(clientFromString(reactor, 'tcp:127.0.0.1:7656'), **kwargs)

def sam_endpoint(sam_port_endpoint, **kwargs):
    """Return a handler which connects to a pre-existing I2P process on the
    given SAM port.
    - sam_endpoint: a ClientEndpoint which points at the SAM API
    """
    return _RunningI2P(sam_port_endpoint, **kwargs)

def local_i2p(i2p_configdir=None):
    raise NotImplementedError

def launch(i2p_configdir=None, i2p_binary=None):
    raise NotImplementedError
