import os, re
import six
from twisted.internet.interfaces import IStreamClientEndpoint
from twisted.internet.defer import inlineCallbacks, succeed
from twisted.internet.endpoints import clientFromString
import ipaddress
from .. import observer

from zope.interface import implementer
from ..ipb import IConnectionHintHandler, InvalidHintError
from ..util import allocate_tcp_port
import txtorcon
from .tcp import DOTTED_QUAD_RESTR, DNS_NAME_RESTR

def is_non_public_numeric_address(host):
    # for numeric hostnames, skip RFC1918 addresses, since no Tor exit
    # node will be able to reach those. Likewise ignore IPv6 addresses.
    try:
        a = ipaddress.ip_address(six.ensure_text(host))
    except ValueError:
        return False # non-numeric, let Tor try it
    if a.version != 4:
        return True # IPv6 gets ignored
    if (a.is_loopback or a.is_multicast or a.is_private or a.is_reserved
        or a.is_unspecified):
        return True # too weird, don't connect
    return False

HINT_RE = re.compile(r"^[^:]*:(%s|%s):(\d{1,5})$" % (DOTTED_QUAD_RESTR,
                                                      DNS_NAME_RESTR))

class add_context(object):
    def __init__(self, update_status, context):
        self.update_status = update_status
        self.context = context
        self.suffix = " (while %s)" % context
    def __enter__(self):
        self.update_status(self.context)
    def __exit__(self, type, value, traceback):
        if value is not None:
            if not hasattr(value, "foolscap_connection_handler_error_suffix"):
                value.foolscap_connection_handler_error_suffix = self.suffix

@implementer(IConnectionHintHandler)
class _Common:
    # subclasses must define self._connect(reactor), which fires with the
    # socks Endpoint that TorClientEndpoint can use

    def __init__(self):
        self._connected = False
        self._when_connected = observer.OneShotObserverList()

    def _maybe_connect(self, reactor, update_status):
        if not self._connected:
            self._connected = True
            d = self._connect(reactor, update_status)
            d.addBoth(self._when_connected.fire)
        return self._when_connected.whenFired()

    @inlineCallbacks
    def hint_to_endpoint(self, hint, reactor, update_status):
        # Return (endpoint, hostname), where "hostname" is what we pass to the
        # HTTP "Host:" header so a dumb HTTP server can be used to redirect us.
        mo = HINT_RE.search(hint)
        if not mo:
            raise InvalidHintError("unrecognized TCP/Tor hint")
        host, portnum = mo.group(1), int(mo.group(2))
        if is_non_public_numeric_address(host):
            raise InvalidHintError("ignoring non-Tor-able ipaddr %s" % host)
        with add_context(update_status, "connecting to a Tor"):
            socks_endpoint = yield self._maybe_connect(reactor, update_status)
        ep = txtorcon.TorClientEndpoint(host, portnum,
                                        socks_endpoint=socks_endpoint)
        return ep, host

    def describe(self):
        return "tor"


# note: TorClientEndpoint imports 'reactor' itself, doesn't provide override.
# This will be fixed in txtorcon 1.0

class _SocksTor(_Common):
    def __init__(self, socks_endpoint=None):
        _Common.__init__(self)
        self._socks_endpoint = socks_endpoint
        # socks_endpoint=None means to use defaults: TCP to 127.0.0.1 with
        # 9050, then 9150
    def _connect(self, reactor, update_status):
        return succeed(self._socks_endpoint)

def default_socks():
    return _SocksTor()

def socks_endpoint(tor_socks_endpoint):
    assert IStreamClientEndpoint.providedBy(tor_socks_endpoint)
    return _SocksTor(tor_socks_endpoint)


class _LaunchedTor(_Common):
    def __init__(self, data_directory=None, tor_binary=None):
        _Common.__init__(self)
        self._data_directory = data_directory
        self._tor_binary = tor_binary

    @inlineCallbacks
    def _connect(self, reactor, update_status):
        # create a new Tor
        config = self.config = txtorcon.TorConfig()
        if self._data_directory:
            # The default is for launch_tor to create a tempdir itself, and
            # delete it when done. We only need to set a DataDirectory if we
            # want it to be persistent. This saves some startup time, because
            # we cache the descriptors from last time. On one of my hosts,
            # this reduces connect from 20s to 15s.
            if not os.path.exists(self._data_directory):
                # tor will mkdir this, but txtorcon wants to chdir to it
                # before spawning the tor process, so (for now) we need to
                # mkdir it ourselves. TODO: txtorcon should take
                # responsibility for this.
                os.mkdir(self._data_directory)
            config.DataDirectory = self._data_directory

        #config.ControlPort = allocate_tcp_port() # defaults to 9052
        config.SocksPort = allocate_tcp_port()
        socks_desc = "tcp:127.0.0.1:%d" % config.SocksPort
        self._socks_desc = socks_desc # stash for tests
        socks_endpoint = clientFromString(reactor, socks_desc)

        with add_context(update_status, "launching Tor"):
            tpp = yield txtorcon.launch_tor(config, reactor,
                                            tor_binary=self._tor_binary)
        #print "launched"
        # gives a TorProcessProtocol with .tor_protocol
        self._tor_protocol = tpp.tor_protocol
        return socks_endpoint

def launch(data_directory=None, tor_binary=None):
    """Return a handler which launches a new Tor process (once).
    - data_directory: a persistent directory where Tor can cache its
      descriptors. This allows subsequent invocations to start faster. If
      None, the process will use an ephemeral tempdir, deleting it when Tor
      exits.
    - tor_binary: the path to the Tor executable we should use. If None,
      search $PATH.
    """
    return _LaunchedTor(data_directory, tor_binary)


def find_port(reactor, ports):
    if isinstance(ports, list):
        for port in ports:
            for p in find_port(reactor, port):
                yield p
        return
    pieces = ports.split()
    p = pieces[0]
    if p == txtorcon.DEFAULT_VALUE:
        p = "9050"
    try:
        portnum = int(p)
        socks_desc = "tcp:127.0.0.1:%d" % portnum
        socks_endpoint = clientFromString(reactor, socks_desc)
        yield (socks_endpoint, socks_desc)
    except ValueError:
        pass

@implementer(IConnectionHintHandler)
class _ConnectedTor(_Common):
    def __init__(self, tor_control_endpoint_maker):
        _Common.__init__(self)
        assert callable(tor_control_endpoint_maker), tor_control_endpoint_maker
        self._tor_control_endpoint_maker = tor_control_endpoint_maker

    @inlineCallbacks
    def _connect(self, reactor, update_status):
        maker = self._tor_control_endpoint_maker
        with add_context(update_status, "making Tor control endpoint"):
            tor_control_endpoint = yield maker(reactor, update_status)
        assert IStreamClientEndpoint.providedBy(tor_control_endpoint)
        with add_context(update_status, "connecting to Tor"):
            tproto = yield txtorcon.build_tor_connection(tor_control_endpoint,
                                                         build_state=False)
        with add_context(update_status, "waiting for Tor bootstrap"):
            config = yield txtorcon.TorConfig.from_protocol(tproto)
        ports = list(config.SocksPort)
        # I've seen "9050", and "unix:/var/run/tor/socks WorldWritable"
        # and recently [["9050", "unix:.."]] which is weird
        try:
            (socks_endpoint, socks_desc) = next(find_port(reactor, ports))
            self._socks_desc = socks_desc # stash for tests
            return socks_endpoint
        except StopIteration:
            raise ValueError("could not use config.SocksPort: %r" % (ports,))


def control_endpoint_maker(tor_control_endpoint_maker, takes_status=False):
    """Return a handler which connects to a pre-existing Tor process on a
    control port provided by the maker function.

    - tor_control_endpoint_maker: a callable, which will be invoked once
      (with a single argument: 'reactor'). It can return immediately or
      return a Deferred, returning/yielding a ClientEndpoint which points at
      the Tor control port.
    - If takes_status=True, the callable will be invoked with two arguments:
      'reactor' and 'update_status'. This is the preferred API, and allows
      the maker function to make status updates as it launches or locates the
      Tor control port.
    """
    assert callable(tor_control_endpoint_maker), tor_control_endpoint_maker
    if takes_status:
        return _ConnectedTor(tor_control_endpoint_maker)
    else:
        def does_not_take_status(reactor, update_status):
            return tor_control_endpoint_maker(reactor)
        return _ConnectedTor(does_not_take_status)

def control_endpoint(tor_control_endpoint):
    """Return a handler which connects to a pre-existing Tor process on the
    given control port.
    - tor_control_endpoint: a ClientEndpoint which points at the Tor control
      port
    """
    assert IStreamClientEndpoint.providedBy(tor_control_endpoint)
    return _ConnectedTor(lambda reactor, update_status: tor_control_endpoint)
