import re
from zope.interface import implementer
from twisted.internet.endpoints import HostnameEndpoint
from foolscap.ipb import IConnectionHintHandler, InvalidHintError

DOTTED_QUAD_RESTR=r"\d{1,3}\.\d{1,3}\.\d{1,3}\.\d{1,3}"
# In addition to the usual colon-hex IPv6 addresses, accept "::FFFF:1.2.3.4"
# (IPv4-mapped), and "FE8::1%en0" (local-scope/site-scope with a zone-id)
COLON_HEX_RESTR=(r"\[[A-Fa-f0-9:]+" +
                 r"(?:" + DOTTED_QUAD_RESTR + r"|%[a-zA-Z0-9.]+)?\]")
DNS_NAME_RESTR=r"[A-Za-z.0-9\-]+"

# This matches just (hostname or IPv4 address) and port number
OLD_STYLE_HINT_RE=re.compile(r"^(%s|%s):(\d{1,5})$" % (DOTTED_QUAD_RESTR,
                                                        DNS_NAME_RESTR))
# This matches "tcp:" prefix plus (hostname or IPv4 address or []-wrapped
# IPv6 address) plus port number
NEW_STYLE_HINT_RE=re.compile(r"^tcp:(%s|%s|%s):(\d{1,5})$" %
                             (DOTTED_QUAD_RESTR, COLON_HEX_RESTR,
                              DNS_NAME_RESTR))

# Each location hint must start with "TYPE:" (where TYPE is alphanumeric) and
# then can contain any characters except "," and "/". These are generally
# expected to contain ":"-separated fields (e.g. "TYPE:stuff:morestuff" or
# "TYPE:key=value:key=value").

# For compatibility with current and older Foolscap releases, we also accept
# old-syle implicit TCP hints ("host:port"). These are caught and converted
# into new-style "tcp:HOST:PORT" hints in convert_legacy_hint() before we
# look up the handler. In this case, HOST can either be a DNS name or a
# dotted-quad IPv4 address.

# To avoid being interpreted as an old-style hint, the part after TYPE: may
# not consist of only 1-5 digits (so "type:123" will be treated as type="tcp"
# and hostname="type"). Creators of new hint types are advised to either use
# multiple colons (e.g. tor:HOST:PORT), or use key=value in the right-hand
# portion (e.g. systemd:fd=3).

# Future versions of foolscap may put hints in their FURLs which we do not
# understand. We will ignore such hints. This version understands two types
# of hints:
#
#  HOST:PORT                 (old-style implicit tcp)
#  tcp:HOST:PORT             (endpoint syntax for TCP connections)

# For new-style hints, HOST can be a DNS name, a dotted-quad IPv4 address, or
# a square-bracked-wrapped colon-hex IPv6 address.

def convert_legacy_hint(location):
    mo = OLD_STYLE_HINT_RE.search(location)
    if mo:
        host, port = mo.group(1), int(mo.group(2))
        return "tcp:%s:%d" % (host, port)
    return location

@implementer(IConnectionHintHandler)
class DefaultTCP:
    def hint_to_endpoint(self, hint, reactor, update_status):
        # Return (endpoint, hostname), where "hostname" is what we pass to the
        # HTTP "Host:" header so a dumb HTTP server can be used to redirect us.
        mo = NEW_STYLE_HINT_RE.search(hint)
        if not mo:
            raise InvalidHintError("unrecognized TCP hint")
        host, port = mo.group(1), int(mo.group(2))
        host = host.lstrip("[").rstrip("]")
        return HostnameEndpoint(reactor, host, port), host

    def describe(self):
        return "tcp"

def default():
    return DefaultTCP()
